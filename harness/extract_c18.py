"""Translator for C18: the two facts about refurb/main.py the lifecycle model depends on.

1. `ast` is used because the fact has no runtime face: is `mypy_timing_stats.unlink()` in a `finally`
   that covers everything from `build(...)` to `output_timing_stats(...)`, or is it a plain statement
   after `output_timing_stats(...)` (refurb 2.0.0)?  Any other shape is an extraction error.
2. By execution: how does the loop of `output_timing_stats` cut a line of mypy's timing file —
   `line.split()` with exactly two fields required (refurb 2.0.0) or `line.rsplit(maxsplit=1)` (module
   names may contain whitespace)?  The function is called on probe files; an answer pattern that is
   neither of the two is an extraction error.
"""

from __future__ import annotations

import ast
import json
from pathlib import Path

from typing import Any

from . import core, extract


def _calls(node: ast.AST) -> set[str]:
    out = set()
    for n in ast.walk(node):
        if isinstance(n, ast.Call):
            f = n.func
            out.add(f.id if isinstance(f, ast.Name) else f.attr if isinstance(f, ast.Attribute) else "?")
    return out


# probe line -> what the mypy section must be (None = ValueError) under (split(), rsplit(maxsplit=1))
PARSE_PROBES: list[tuple[str, Any, Any]] = [
    ("a 1000", {"a": 1}, {"a": 1}),
    ("a b 1000", None, {"a b": 1}),
    ("  a  b   12000 ", None, {"  a  b": 12}),
    ("a 1 2000", None, {"a 1": 2}),
    ("\ta\t7999\xa0", {"a": 7}, {"\ta": 7}),
    ("a", None, None),
    ("a b", None, None),
    ("", None, None),
    (" 5 ", None, None),
]


def probe_timing_parse() -> bool:
    """True iff output_timing_stats cuts lines like str.rsplit(maxsplit=1), False iff like str.split()"""
    from refurb.main import output_timing_stats
    from refurb.settings import Settings

    got: list[Any] = []
    with core.scratch("rv-c18x-") as d:
        for i, (line, _, _) in enumerate(PARSE_PROBES):
            t, o = Path(d) / f"t{i}.txt", Path(d) / f"o{i}.json"
            t.write_text(line + "\n", encoding="utf8")
            try:
                output_timing_stats(Settings(timing_stats=o), 0.0, t, {})
                got.append(json.loads(o.read_text())["mypy_time_spent_parsing_modules_in_ms"])
            except ValueError:
                got.append(None)
    if got == [new for _, _, new in PARSE_PROBES]:
        return True
    if got == [old for _, old, _ in PARSE_PROBES]:
        return False
    raise RuntimeError(
        "output_timing_stats cuts the lines of the timing file neither like line.split() nor like line.rsplit(maxsplit=1): "
        + json.dumps([[line, g] for (line, _, _), g in zip(PARSE_PROBES, got)])
    )


@extract.register("LifecycleShape")
def gen_lifecycle_shape() -> str:
    rsplit = probe_timing_parse()
    src = (core.REPO / "refurb" / "main.py").read_text()
    fn = next(n for n in ast.parse(src).body if isinstance(n, ast.FunctionDef) and n.name == "run_refurb")
    body = fn.body
    mk = next((i for i, st in enumerate(body) if "mkstemp" in _calls(st)), None)
    if mk is None:
        raise RuntimeError("run_refurb no longer calls mkstemp() in a top-level statement")
    if isinstance(body[mk], ast.Try):
        raise RuntimeError("mkstemp() is now inside a try statement: lifecycle model needs a new reading")
    rest = body[mk + 1 :]
    in_finally = None
    for i, st in enumerate(rest):
        if isinstance(st, ast.Try) and st.finalbody and "unlink" in _calls(ast.Module(body=st.finalbody, type_ignores=[])):
            covered = _calls(ast.Module(body=st.body, type_ignores=[]))
            before = set().union(*[_calls(x) for x in rest[:i]]) if i else set()
            if {"build", "load_checks", "output_timing_stats"} <= covered and not ({"build", "load_checks", "output_timing_stats"} & before):
                in_finally = True
            else:
                raise RuntimeError("a finally clause unlinks the timing file but does not cover build..output_timing_stats")
            break
    if in_finally is None:
        ots = next((i for i, st in enumerate(rest) if isinstance(st, ast.Expr) and "output_timing_stats" in _calls(st)), None)
        ul = next((i for i, st in enumerate(rest) if isinstance(st, ast.If) and "unlink" in _calls(st)), None)
        if ots is None or ul is None or ul < ots:
            raise RuntimeError("cannot find `mypy_timing_stats.unlink()` after `output_timing_stats(...)` nor in a finally clause")
        in_finally = False
    return (
        extract.HEADER
        + "namespace RefurbVerif.Generated\n\n"
        + "/-- is `mypy_timing_stats.unlink()` in a `finally` clause that covers `build(...)` … `output_timing_stats(...)`\n"
        + "    (true), or a plain statement after `output_timing_stats(...)` (false: refurb 2.0.0)? -/\n"
        + f"def unlinkInFinally : Bool := {extract.lbool(in_finally)}\n\n"
        + "/-- does the loop of `output_timing_stats` cut a line of mypy's timing file with `line.rsplit(maxsplit=1)`\n"
        + "    (true: a module name may contain whitespace) or with `line.split()` (false: refurb 2.0.0)?\n"
        + "    Found by calling the function on probe files. -/\n"
        + f"def timingRsplit : Bool := {extract.lbool(rsplit)}\n\n"
        + "end RefurbVerif.Generated\n"
    )
