/-
Model of refurb's target-version handling (C15).

* `getPythonVersion` mirrors `Settings.get_python_version` (refurb/settings.py:96):
  `self.python_version or get_python_version()` — a configured tuple is never falsy, so this is `getD`.
* `Gate` mirrors the two shapes a check uses the target in (the six checks that take `settings`):
  `if settings.get_python_version() < (3, n): return`       (FURB134 161 162 173 188)
  `"y | z" if settings.get_python_version() >= (3, 10) else "(y, z)"`   (FURB121)
  and `always` for the checks that never see the settings.
* `CheckGates` / `Row` / `Variant` are the rows of Generated/Gates.lean (what refurb did on each check's idioms
  under each target 3.6 … 3.13); the functions below read such tables and are what the theorems of
  Props/C15.lean evaluate.  Everything is total and executable; no proofs here.

Outside the swept range the table is extended by clamping (`rowAt`): a target below the first row
behaves like the first row, a target above the last row like the last.  That is what threshold
gates with thresholds inside the range do, and it is what the correspondence run checks by calling
the real gated `check` functions with stub settings for targets such as (3, 5), (3, 40), (4, 0).
-/
import RefurbVerif.Model.Introduced

namespace RefurbVerif

/-- `Settings.get_python_version`: the configured target, else the running interpreter's version. -/
def getPythonVersion (configured : Option Ver) (running : Ver) : Ver := configured.getD running

/-- How a check uses the target version. -/
inductive Gate where
  /-- the check does not receive `settings` -/
  | always
  /-- `if settings.get_python_version() < t: return` -/
  | returnBelow (t : Ver)
  /-- reports always; spells the replacement the new way iff `settings.get_python_version() >= t` -/
  | switchFrom (t : Ver)
  deriving Repr, DecidableEq

/-- does the check go on to report under target `v`? -/
def Gate.reports : Gate → Ver → Bool
  | .always, _ => true
  | .returnBelow t, v => !(v.blt t)
  | .switchFrom _, _ => true

/-- does the check use the spelling that needs the gated feature under target `v`? -/
def Gate.usesFeature : Gate → Ver → Bool
  | .always, _ => false
  | .returnBelow t, v => !(v.blt t)
  | .switchFrom t, v => t.ble v

/-- one row of the sweep: the check under target `ver` -/
structure Row where
  ver : Ver
  reports : Bool
  /-- ids of the distinct messages the check produced on its idioms under this target -/
  variants : List Nat
  deriving Repr

/-- one distinct message of a check -/
structure Variant where
  id : Nat
  text : String
  /-- indices into `featureNames`: what the proposed fragment needs and the replaced code lacks -/
  features : List Nat
  deriving Repr

/-- everything the sweep observed about one check -/
structure CheckGates where
  code : Nat
  variants : List Variant
  /-- one row per swept target, ascending -/
  rows : List Row
  deriving Repr

/-- feature names resolved against the reference table (`none`: the name is not an entry) -/
def resolve (names : List String) : List (Option Ver) := names.map introducedIn

/-- first version of the feature with index `i` (`none`: out of range or unlisted) -/
def sinceAt (since : List (Option Ver)) (i : Nat) : Option Ver := since[i]?.bind id

/-! ### checkers (evaluated by `decide +kernel` over the generated tables; written so that the
    kernel does little work: per check, cheap tests first) -/

/-- every feature name is in the reference table and every variant's indices are in range -/
def allListed (since : List (Option Ver)) (checks : List CheckGates) : Bool :=
  since.all Option.isSome && checks.all fun ck => ck.variants.all fun var => var.features.all (· < since.length)

/-- every feature of `var` is at most the target of every row (selected by `p`) that shows `var`;
    features not newer than the first swept target `lo` need no look at the rows -/
def variantOk (since : List (Option Ver)) (lo : Ver) (rows : List Row) (p : Row → Bool) (var : Variant) : Bool :=
  var.features.all fun i =>
    match sinceAt since i with
    | none => true
    | some s => s.ble lo || rows.all fun row => !(p row && row.variants.contains var.id) || s.ble row.ver

/-- `gate_ge_feature` as a checker, restricted to the checks selected by `q` and the rows selected by `p` -/
def gateGeFeature (since : List (Option Ver)) (lo : Ver) (checks : List CheckGates) (q : Nat → Bool) (p : Row → Bool) : Bool :=
  checks.all fun ck => !q ck.code || ck.variants.all (variantOk since lo ck.rows p)

/-- the threshold of the gate the rows denote: no lower gate was observed if the check already reports
    under the first swept target (then `⟨0, 0⟩`: always); otherwise the first swept target (rows ascend)
    under which it reported; `none` if it never did -/
def CheckGates.threshold (ck : CheckGates) : Option Ver :=
  match ck.rows with
  | [] => none
  | r :: rs => if r.reports then some ⟨0, 0⟩ else (rs.find? (·.reports)).map (·.ver)

/-- the threshold gate the row pattern of the check denotes, at ANY target -/
def CheckGates.reportsAt (ck : CheckGates) (v : Ver) : Bool :=
  match ck.threshold with
  | some t => t.ble v
  | none => false

def findCheck (checks : List CheckGates) (c : Nat) : Option CheckGates := checks.find? (·.code == c)

def reportsAt (checks : List CheckGates) (c : Nat) (v : Ver) : Bool :=
  match findCheck checks c with
  | some ck => ck.reportsAt v
  | none => false

/-- every row agrees with its check's threshold gate: the row pattern is a step function -/
def refinesThreshold (checks : List CheckGates) : Bool :=
  checks.all fun ck => ck.rows.all fun row => row.reports == ck.reportsAt row.ver

/-- all rows lie inside `[lo, hi]` -/
def inRange (checks : List CheckGates) (lo hi : Ver) : Bool :=
  checks.all fun ck => ck.rows.all fun row => lo.ble row.ver && row.ver.ble hi

def clampVer (lo hi v : Ver) : Ver := if v.ble lo then lo else if hi.ble v then hi else v

/-- the row that speaks for the check under an arbitrary target -/
def CheckGates.rowAt (ck : CheckGates) (lo hi v : Ver) : Option Row :=
  ck.rows.find? (fun r => r.ver == clampVer lo hi v)

/-- some feature of variant `id` is newer than `v` -/
def newerThan (since : List (Option Ver)) (variants : List Variant) (id : Nat) (v : Ver) : Bool :=
  match variants.find? (fun var => var.id == id) with
  | some var => var.features.any fun i =>
      match sinceAt since i with
      | some s => v.blt s
      | none => false
  | none => false

/-- all rows show the same messages -/
def CheckGates.uniform (ck : CheckGates) : Bool :=
  match ck.rows with
  | [] => true
  | r :: rs => rs.all (·.variants == r.variants)

/-- a message that disappears when the target is raised (both targets ≤ `hi`) is replaced by one that
    was not there before and needs something newer than the lower target -/
def switchOk (since : List (Option Ver)) (checks : List CheckGates) (hi : Ver) : Bool :=
  checks.all fun ck => ck.uniform ||
    ck.rows.all fun r1 => ck.rows.all fun r2 =>
      !(r1.ver.ble r2.ver && r2.ver.ble hi) ||
        r1.variants.all fun old => r2.variants.contains old ||
          r2.variants.any fun new => !r1.variants.contains new && newerThan since ck.variants new r1.ver

/-- a variant has a feature newer than `lo` (an unlisted feature counts as newer) -/
def hasFeatureAfter (since : List (Option Ver)) (lo : Ver) (var : Variant) : Bool :=
  var.features.any fun i =>
    match sinceAt since i with
    | some s => lo.blt s
    | none => true

end RefurbVerif
