"""C15 translator: Generated/Gates.lean — which check reports what under which target version.

Everything here is obtained BY EXECUTION: every built-in check's idioms (the "Bad" blocks of its
docstring with the auto-prelude, and the repo's own `test/data*/err_NNN.py` files) are linted under
every target version 3.6 … 3.13 (`Settings(python_version=(3, n))`, one fresh process per version,
every check enabled, each file's report filtered to the file's own check), and per (check, version)
the table records whether the check reported and the set of distinct messages.  A message's
*features* are the API names / syntax its replacement fragment contains and its original fragment
does not (scanner below; `ast`-based, with a token -> feature table that mirrors
lean/RefurbVerif/Model/Introduced.lean; a token nobody classified becomes the feature
`unlisted:<token>`, which no reference table contains, so `every_feature_listed` stops checking).

Shared with harness/props/c15.py (the oracle re-uses `idiom_files`, `features_of_message`, the
refusal loop and the reference-table parser).
"""

from __future__ import annotations

import ast
import json
import re
import subprocess
import sys
from textwrap import dedent
from typing import Any, Iterable

from . import core, extract

VERSIONS: list[tuple[int, int]] = [(3, n) for n in range(6, 14)]

# --------------------------------------------------------------------------------------------
# idioms


def idiom_files() -> list[dict[str, Any]]:
    """Every file that is linted: {name, own (e.g. 'FURB188' or None), src, origin}."""
    out: list[dict[str, Any]] = []
    for ex in extract.documented_examples():
        if ex["kind"] != "Bad":
            continue
        own = f"{ex['prefix']}{ex['code']}"
        out.append(
            {
                "name": f"doc_{own}_{ex['index']}.py",
                "own": own,
                "src": extract.auto_prelude(ex["src"]) + ex["src"],
                "origin": f"docstring Bad example #{ex['index']} of {own}",
            }
        )
    test = core.REPO / "test"
    for d in sorted(test.glob("data*")):
        if not d.is_dir():
            continue
        tag = d.name.replace(".", "_")
        for f in sorted(d.glob("*.py")):
            m = re.fullmatch(r"err_(\d{3})\.py", f.name)
            out.append(
                {
                    "name": f"{tag}_{f.name}",
                    "own": f"FURB{m.group(1)}" if m else None,
                    "src": f.read_text(),
                    "origin": f"test/{d.name}/{f.name}",
                }
            )
    return out


# --------------------------------------------------------------------------------------------
# running refurb under one target version, with the refusal loop

REFUSED_RE = re.compile(r"^(?:refurb: )?(?P<file>[^:\n]+\.py):\d+(?::\d+)?: error: (?P<msg>.*)$")

WORKER = dedent(
    '''
    import json, sys
    from concurrent.futures import ProcessPoolExecutor
    import multiprocessing as mp

    def lint(job):
        version, files = job
        from refurb.error import Error
        from refurb.main import run_refurb
        from refurb.settings import Settings
        try:
            errs = run_refurb(Settings(files=list(files), enable_all=True, quiet=True, python_version=tuple(version)))
        except BaseException as e:  # a crash is C03's subject; recorded, never hidden
            return [None, "EXC " + type(e).__name__ + ": " + str(e)[:300]]
        out = []
        for e in errs:
            if isinstance(e, Error):
                out.append([e.filename, f"{e.prefix}{e.code}", e.line, e.column + 1, e.msg])  # column as printed
            else:
                out.append([None, str(e)])
        return out

    if __name__ == "__main__":
        jobs = json.load(open(sys.argv[1]))
        with ProcessPoolExecutor(max_workers=16, mp_context=mp.get_context("spawn"), max_tasks_per_child=1) as ex:
            res = list(ex.map(lint, jobs))
        json.dump(res, open(sys.argv[2], "w"))
    '''
)


def split_refused(lines: Iterable[str]) -> tuple[dict[str, str], list[str]]:
    """mypy's blocking errors name the file they refuse; anything else is returned as-is."""
    refused: dict[str, str] = {}
    other: list[str] = []
    for line in lines:
        m = REFUSED_RE.match(line)
        if m:
            refused.setdefault(m.group("file").rsplit("/", 1)[-1], m.group("msg"))
        elif line.strip():
            other.append(line)
    return refused, other


def prescreen(files: list[dict[str, Any]], versions: list[tuple[int, int]]) -> dict[tuple[int, int], dict[str, str]]:
    """Files mypy's own parser refuses under a target (blocking syntax errors: `match` under 3.9, `:=` under 3.7).

    mypy reports only the first blocking file of a build, so asking its parser about each file first
    saves one full build per refused file; `lint_versions` still keeps the refusal loop as a net.
    """
    from mypy.errors import CompileError, Errors
    from mypy.options import Options
    from mypy.parse import parse

    out: dict[tuple[int, int], dict[str, str]] = {}
    for v in versions:
        opt = Options()
        opt.python_version = v
        bad: dict[str, str] = {}
        for f in files:
            errs = Errors(opt)
            try:
                parse(f["src"], f["name"], "m", errs, opt)
                msgs = errs.new_messages() if errs.is_blockers() else []
            except CompileError as e:
                msgs = e.messages
            if msgs:
                m = REFUSED_RE.match(msgs[0])
                bad[f["name"]] = m.group("msg") if m else msgs[0]
        out[v] = bad
    return out


def third_party_importers(files: list[dict[str, Any]]) -> set[str]:
    """Files importing something outside the standard library (today: fastapi, for FURB175).

    The installed third-party packages are written for the running interpreter; under an older target
    mypy refuses *them* (`match` in anyio, positional-only parameters in starlette), which would take
    the whole batch down.  Such files are linted alone, so the refusal stays theirs.
    """
    names = set()
    local = {f["name"][:-3] for f in files}
    for f in files:
        try:
            tree = ast.parse(f["src"])
        except SyntaxError:
            continue
        for n in ast.walk(tree):
            mods = []
            if isinstance(n, ast.Import):
                mods = [a.name for a in n.names]
            elif isinstance(n, ast.ImportFrom) and n.level == 0 and n.module:
                mods = [n.module]
            for m in mods:
                top = m.split(".")[0]
                if top not in sys.stdlib_module_names and top not in local:
                    names.add(f["name"])
    return names


def lint_versions(files: list[dict[str, Any]], versions: list[tuple[int, int]]) -> dict[tuple[int, int], dict[str, Any]]:
    """In-process `run_refurb(Settings(python_version=v))`, one fresh process per (version, batch, round).

    Returns per version {"diags": [[file, code, line, col, msg]], "refused": {file: why}, "fatal": [str]}.
    A file that mypy refuses under a version (e.g. a `match` statement under 3.9) is dropped for that
    version and the rest is linted again, so one refused file does not hide the others.
    """
    pre = prescreen(files, versions)
    alone = third_party_importers(files)
    state: dict[tuple[int, int], dict[str, Any]] = {v: {"refused": dict(pre[v]), "fatal": [], "diags": []} for v in versions}
    # a batch = [version, [file names]]
    pending: list[tuple[tuple[int, int], list[str]]] = []
    for v in versions:
        names = [f["name"] for f in files if f["name"] not in pre[v]]
        main = [n for n in names if n not in alone]
        # two half-batches per target: the files are independent modules, and 2 x 8 targets fill 16 cores
        pending += [(v, main[0::2]), (v, main[1::2])]
        pending.append((v, [n for n in names if n in alone]))
    with core.scratch("rv-c15x-") as d:
        for f in files:
            (d / f["name"]).write_text(f["src"])
        (d / "_worker.py").write_text(WORKER)
        for _round in range(6):
            pending = [(v, names) for v, names in pending if names]
            if not pending:
                break
            (d / "_jobs.json").write_text(json.dumps([[list(v), names] for v, names in pending]))
            p = subprocess.run(
                [core.PY, "_worker.py", "_jobs.json", "_out.json"], cwd=d, capture_output=True, text=True, timeout=1200, env=core.py_env()
            )
            if p.returncode != 0:
                raise RuntimeError("C15 lint worker failed: " + p.stderr[-2000:])
            again: list[tuple[tuple[int, int], list[str]]] = []
            for (v, names), res in zip(pending, json.loads((d / "_out.json").read_text())):
                if res and res[0] is None and isinstance(res[1], str):  # the EXC marker
                    state[v]["fatal"].append(res[1])
                    continue
                texts = [r[1] for r in res if r[0] is None]
                if not texts:
                    state[v]["diags"] += [r for r in res if r[0] is not None]
                    continue
                refused, other = split_refused(texts)
                mine = {k: w for k, w in refused.items() if k in names}
                if mine:
                    state[v]["refused"].update(mine)
                    again.append((v, [n for n in names if n not in mine]))
                elif len(names) == 1 and refused:
                    # mypy refuses a module this file imports (third-party code newer than the target)
                    k, w = next(iter(refused.items()))
                    state[v]["refused"][names[0]] = f"imports {k}: {w}"
                elif refused and set(names) <= alone:
                    again += [(v, [n]) for n in names]  # find out which of them imports the refused module
                else:
                    state[v]["fatal"] += other or texts
            pending = again
        else:
            for v, _names in pending:
                state[v]["fatal"].append("refusal loop did not converge")
    return state


# --------------------------------------------------------------------------------------------
# scanner: message -> (old fragment, replacement fragment) -> tokens -> features

REPLACE_RE = re.compile(r"^Replace `(?P<old>.*)` with `(?P<new>.*)`$", re.S)
LAST_FRAGMENT_RE = re.compile(r"`(?P<new>[^`]*)`[^`]*$", re.S)


def split_message(msg: str) -> tuple[str | None, str | None]:
    """(original fragment, proposed fragment); (None, None) when the message proposes no code."""
    m = REPLACE_RE.match(msg)
    if m:
        return m.group("old"), m.group("new")
    m = LAST_FRAGMENT_RE.search(msg)
    if m:
        return None, m.group("new")
    return None, None


# `with_suffix(StrExpr(.pdf))`: a mypy node repr that leaked into a message (C02's subject) is not Python
NODE_REPR_RE = re.compile(r"\b[A-Z][A-Za-z]*Expr\([^()`]*\)")


def _parse(fragment: str) -> ast.AST | None:
    """A proposed fragment is Python-ish: an expression, a statement head, a decorator, an f-string field …"""
    import warnings

    f = NODE_REPR_RE.sub('""', fragment.strip())
    attempts = [f, f + " pass", f + ": pass", f + "\n    pass", f + "\ndef _f(): pass", "_ " + f]
    if f.startswith("{") and f.endswith("}"):
        attempts += ["f'" + f + "'", 'f"' + f + '"']  # an f-string field: `{x!r}`, `{n:#b}`
    with warnings.catch_warnings():
        warnings.simplefilter("ignore")
        for src in attempts:
            try:
                return ast.parse(src)
            except (SyntaxError, ValueError, RecursionError):
                continue
    return None


_STDLIB = set(sys.stdlib_module_names)
# bare names a replacement may introduce, resolved to where they live (first hit wins); anything
# else that is bare and not called is a user's variable and carries no API
_RESOLVE_MODULES = [
    "builtins", "functools", "itertools", "contextlib", "collections", "abc", "pathlib", "operator", "math", "secrets",
    "datetime", "decimal", "fractions", "string", "hashlib", "shlex", "re", "os", "os.path",
]


def _resolve_bare(name: str) -> str | None:
    import importlib
    import inspect

    for modname in _RESOLVE_MODULES:
        mod = importlib.import_module(modname)
        if hasattr(mod, name) and not name.startswith("_") and not inspect.ismodule(getattr(mod, name)):
            return name if modname == "builtins" else f"{modname}.{name}"
    return None


def _attr_chain(node: ast.AST) -> tuple[ast.AST, list[str]]:
    attrs: list[str] = []
    while isinstance(node, ast.Attribute):
        attrs.append(node.attr)
        node = node.value
    return node, attrs[::-1]


def tokens_ast(tree: ast.AST) -> set[str]:
    out: set[str] = set()
    called: set[int] = set()
    inner_attr: set[int] = set()
    union_args: set[int] = set()
    for n in ast.walk(tree):
        if isinstance(n, ast.Call):
            called.add(id(n.func))
            for k in n.keywords:
                if k.arg:
                    out.add(f"{k.arg}=")
                else:
                    out.add("syntax:call-unpack")
            if isinstance(n.func, ast.Name) and n.func.id in ("isinstance", "issubclass") and len(n.args) == 2:
                for sub in ast.walk(n.args[1]):
                    if isinstance(sub, ast.BinOp) and isinstance(sub.op, ast.BitOr):
                        union_args.add(id(sub))
            if any(isinstance(a, ast.Starred) for a in n.args):
                out.add("syntax:call-unpack")
        elif isinstance(n, (ast.FunctionDef, ast.AsyncFunctionDef, ast.ClassDef)):
            for dec in n.decorator_list:
                called.add(id(dec))  # `@cache` uses `cache` the way a call does
        elif isinstance(n, ast.Attribute) and isinstance(n.value, ast.Attribute):
            inner_attr.add(id(n.value))
    roots: set[int] = set()
    for n in ast.walk(tree):
        if isinstance(n, ast.Attribute) and id(n) not in inner_attr:
            root, attrs = _attr_chain(n)
            roots.add(id(root))
            if isinstance(root, ast.Name) and root.id in _STDLIB:
                out.add(f"{root.id}.{attrs[0]}")
                attrs = attrs[1:]
            out.update(f".{a}" for a in attrs)
    for n in ast.walk(tree):
        if isinstance(n, ast.Name) and isinstance(n.ctx, ast.Load):
            if id(n) in roots:
                continue  # `Path.cwd`, `math.pi`: accounted for by the chain
            if id(n) in called:
                out.add(f"{n.id}()")
            else:
                r = _resolve_bare(n.id)
                if r and "." in r:
                    out.add(n.id)
        elif isinstance(n, ast.NamedExpr):
            out.add("syntax:walrus")
        elif isinstance(n, ast.Match):
            out.add("syntax:match")
        elif isinstance(n, ast.BinOp) and isinstance(n.op, ast.BitOr):
            out.add("syntax:isinstance-union" if id(n) in union_args else "syntax:bitor")
        elif isinstance(n, ast.AugAssign) and isinstance(n.op, ast.BitOr):
            out.add("syntax:bitor-assign")
        elif isinstance(n, ast.JoinedStr):
            out.add("syntax:f-string")
            for v in n.values:
                if isinstance(v, ast.FormattedValue) and v.conversion != -1:
                    out.add("syntax:f-string-conversion")
        elif isinstance(n, ast.Dict) and any(k is None for k in n.keys):
            out.add("syntax:dict-unpack")
        elif isinstance(n, ast.AnnAssign):
            out.add("syntax:variable-annotation")
        elif isinstance(n, (ast.ListComp, ast.SetComp, ast.DictComp, ast.GeneratorExp)):
            out.add("syntax:comprehension")
        elif isinstance(n, ast.With):
            out.add("syntax:with")
        elif isinstance(n, ast.arguments) and n.posonlyargs:
            out.add("syntax:positional-only")
        elif isinstance(n, ast.Compare) and len(n.ops) > 1:
            out.add("syntax:comparison-chain")
    return out


_LEX_RE = re.compile(
    r"(?P<walrus>:=)|(?P<deco>@)?(?P<lead>\.)?(?P<chain>[A-Za-z_]\w*(?:\.[A-Za-z_]\w*)*)(?P<call>\s*\()?(?P<kw>=(?!=))?|(?P<bitor>\|=?)"
)


def tokens_lex(fragment: str) -> set[str]:
    """Fallback for fragments `ast` cannot parse (`try: ... except: pass`, `global x, y, ...`)."""
    import keyword

    out: set[str] = set()
    text = re.sub(r"(\"(?:\\.|[^\"\\])*\"|'(?:\\.|[^'\\])*')", '""', NODE_REPR_RE.sub('""', fragment))
    for m in _LEX_RE.finditer(text):
        if m.group("walrus"):
            out.add("syntax:walrus")
            continue
        if m.group("bitor"):
            out.add("syntax:bitor-assign" if m.group("bitor") == "|=" else "syntax:bitor")
            continue
        parts = m.group("chain").split(".")
        if keyword.iskeyword(parts[0]) and not m.group("lead"):
            if parts[0] == "with":
                out.add("syntax:with")
            continue
        if m.group("lead"):
            out.update(f".{a}" for a in parts)
            continue
        if m.group("kw") and len(parts) == 1 and not m.group("call"):
            out.add(f"{parts[0]}=")
            continue
        if len(parts) == 1:
            if m.group("call") or m.group("deco"):
                out.add(f"{parts[0]}()")
            else:
                r = _resolve_bare(parts[0])
                if r and "." in r:
                    out.add(parts[0])
            continue
        if parts[0] in _STDLIB:
            out.add(f"{parts[0]}.{parts[1]}")
            parts = parts[2:]
        else:
            parts = parts[1:]
        out.update(f".{a}" for a in parts)
    return out


def fragment_tokens(fragment: str | None) -> set[str]:
    if not fragment:
        return set()
    tree = _parse(fragment)
    return tokens_ast(tree) if tree is not None else tokens_lex(fragment)


def new_tokens(msg: str, source_line: str | None = None) -> list[str]:
    """Tokens of the proposed fragment that the code being replaced does not already contain.

    "The code being replaced" is the original fragment of a `Replace … with …` message and, when the
    caller knows it, the flagged source line (messages such as FURB148's quote only the proposal).
    """
    old, new = split_message(msg)
    if new is None:
        return []
    have = fragment_tokens(old) | (tokens_lex(old) if old else set())
    if source_line:
        have |= tokens_lex(source_line.split("#", 1)[0])
    return sorted(fragment_tokens(new) - have)


# --------------------------------------------------------------------------------------------
# the reference table (lean/RefurbVerif/Model/Introduced.lean is the single source)

INTRODUCED_FILE = core.LEAN / "RefurbVerif" / "Model" / "Introduced.lean"
ENTRY_RE = re.compile(r'^\s*⟨"(?P<name>[^"]*)",\s*⟨(?P<maj>\d+),\s*(?P<min>\d+)⟩,\s*\[(?P<tokens>[^\]]*)\]⟩,?\s*(?:--\s*(?P<source>.*))?$')


def reference_table() -> list[dict[str, Any]]:
    rows = []
    for line in INTRODUCED_FILE.read_text().splitlines():
        m = ENTRY_RE.match(line)
        if m:
            rows.append(
                {
                    "name": m.group("name"),
                    "since": (int(m.group("maj")), int(m.group("min"))),
                    "tokens": re.findall(r'"([^"]*)"', m.group("tokens")),
                    "source": (m.group("source") or "").strip(),
                }
            )
    if not rows:
        raise RuntimeError(f"no entries recognised in {INTRODUCED_FILE}")
    return rows


_token_map: dict[str, str] | None = None


def token_map() -> dict[str, str]:
    global _token_map
    if _token_map is None:
        _token_map = {}
        for row in reference_table():
            for t in row["tokens"]:
                _token_map.setdefault(t, row["name"])
    return _token_map


def features_of_message(code: str, msg: str, source_line: str | None = None) -> list[str]:
    """Feature names (of Introduced.lean) the proposed fragment needs and the original does not."""
    tm = token_map()
    feats: list[str] = []
    _old, new = split_message(msg)
    if new is None:
        return []
    if f"{code}/*" in tm:
        feats.append(tm[f"{code}/*"])
    for t in new_tokens(msg, source_line):
        f = tm.get(f"{code}/{t}") or tm.get(t) or f"unlisted:{t}"
        if f not in feats:
            feats.append(f)
    return feats


# --------------------------------------------------------------------------------------------
# Generated/Gates.lean


def gate_table(files: list[dict[str, Any]] | None = None) -> dict[str, Any]:
    """Everything Gates.lean says, as Python data (also used by the harness for the correspondence)."""
    files = files if files is not None else idiom_files()
    own = {f["name"]: f["own"] for f in files}
    # the sweep is a function of refurb's sources and test data (the idiom files derive from them); core.cached_json
    # re-uses it while none of those files changed (VERIF_NO_CACHE=1 forces a fresh sweep)

    def compute() -> dict[str, Any]:
        return {f"{v[0]}.{v[1]}": st for v, st in lint_versions(files, VERSIONS).items()}

    if hasattr(core, "cached_json"):
        raw = core.cached_json("c15-sweep-v1", ["refurb/**/*.py", "test/data*/*.py"], compute)
    else:
        raw = compute()
    state = {v: raw[f"{v[0]}.{v[1]}"] for v in VERSIONS}
    fatal = {v: s["fatal"] for v, s in state.items() if s["fatal"]}
    if fatal:
        raise RuntimeError(f"refurb could not lint the idioms under {sorted(fatal)}: {list(fatal.values())[0][:3]}")
    codes = sorted({int(r["code"]) for r in extract.catalogue_rows() if r["prefix"] == "FURB"})
    per: dict[tuple[int, tuple[int, int]], set[str]] = {(c, v): set() for c in codes for v in VERSIONS}
    lines = {f["name"]: f["src"].splitlines() for f in files}
    feats: dict[tuple[int, str], list[str]] = {}
    for v, s in state.items():
        for fname, code, line, _col, msg in s["diags"]:
            if own.get(fname) == code and (int(code[4:]), v) in per:
                c = int(code[4:])
                per[(c, v)].add(msg)
                src = lines[fname][line - 1] if 0 < line <= len(lines[fname]) else None
                have = feats.setdefault((c, msg), [])
                for f in features_of_message(code, msg, src):  # union over the sites of the message
                    if f not in have:
                        have.append(f)
    variant_ids: dict[tuple[int, str], int] = {}
    variants: list[dict[str, Any]] = []
    for c in codes:
        for msg in sorted({m for v in VERSIONS for m in per[(c, v)]}):
            variant_ids[(c, msg)] = len(variants)
            variants.append({"id": len(variants), "code": c, "text": msg, "features": sorted(feats[(c, msg)])})
    feature_names: list[str] = []
    for var in variants:
        for f in var["features"]:
            if f not in feature_names:
                feature_names.append(f)
    gates = [
        {"code": c, "ver": v, "reports": bool(per[(c, v)]), "variants": sorted(variant_ids[(c, m)] for m in per[(c, v)])}
        for c in codes
        for v in VERSIONS
    ]
    return {
        "gates": gates,
        "variants": variants,
        "feature_names": feature_names,
        "refused": {v: s["refused"] for v, s in state.items()},
        "state": state,
        "files": files,
        "running": tuple(sys.version_info[:2]),
    }


_table_cache: dict[str, Any] | None = None
_table_error: Exception | None = None


def gate_table_cached() -> dict[str, Any]:
    """One sweep per process: the translator and the harness share it (a failure is remembered too)."""
    global _table_cache, _table_error
    if _table_error is not None:
        raise _table_error
    if _table_cache is None:
        try:
            _table_cache = gate_table()
        except Exception as e:
            _table_error = e
            raise
    return _table_cache


def lver(v: tuple[int, int]) -> str:
    return f"⟨{v[0]}, {v[1]}⟩"


@extract.register("Gates")
def gen_gates() -> str:
    t = gate_table_cached()
    fidx = {f: i for i, f in enumerate(t["feature_names"])}
    since = {r["name"]: r["since"] for r in reference_table()}
    checks = []
    for c in sorted({g["code"] for g in t["gates"]}):
        vrows = [
            "    ⟨%d, %s, %s⟩" % (v["id"], extract.lstr(v["text"]), extract.llist([str(fidx[f]) for f in v["features"]]))
            for v in t["variants"]
            if v["code"] == c
        ]
        grows = [
            "    ⟨%s, %s, %s⟩" % (lver(g["ver"]), extract.lbool(g["reports"]), extract.llist([str(i) for i in g["variants"]]))
            for g in t["gates"]
            if g["code"] == c
        ]
        checks.append("  { code := %d,\n    variants := [\n  %s],\n    rows := [\n  %s] }" % (c, ",\n  ".join(vrows), ",\n  ".join(grows)))
    refused = sorted({(name, v) for v, names in t["refused"].items() for name in names})
    return (
        extract.HEADER
        + "import RefurbVerif.Model.Gates\nnamespace RefurbVerif.Generated\n\n"
        + "/-- the interpreter refurb runs under (`sys.version_info[:2]`): the default target and the upper end of C15's range -/\n"
        + "def runningVersion : Ver := %s\n\n" % lver(t["running"])
        + "/-- first and last target version of the sweep -/\n"
        + "def tableMin : Ver := %s\ndef tableMax : Ver := %s\n\n" % (lver(VERSIONS[0]), lver(VERSIONS[-1]))
        + "/-- distinct feature names the scanner found in the replacements below (`unlisted:<token>` = nobody classified it) -/\n"
        + "def featureNames : List String := %s\n\n" % extract.lstrs(t["feature_names"])
        + "/-- the translator's reading of Model/Introduced.lean for those names; NOT trusted: Props/C15.lean proves\n"
        + "    `resolve featureNames = featureSince` (the kernel then looks versions up here instead of comparing strings) -/\n"
        + "def featureSince : List (Option Ver) := %s\n\n"
        % extract.llist(["some " + lver(since[f]) if f in since else "none" for f in t["feature_names"]])
        + "/-- per check: its distinct messages ⟨id, text, features (indices into `featureNames`) the proposed fragment needs\n"
        + "    and the replaced code lacks⟩ and per target ⟨target, reported on its idioms?, ids of the messages⟩ — by running\n"
        + "    refurb on the check's docstring Bad examples and test/data*/err_NNN.py under `Settings(python_version=target)`;\n"
        + "    %d (file, target) pairs were refused by mypy (syntax or imports newer than the target) and do not contribute -/\n" % len(refused)
        + "def gates : List CheckGates := [\n"
        + ",\n".join(checks)
        + "\n]\n\nend RefurbVerif.Generated\n"
    )
