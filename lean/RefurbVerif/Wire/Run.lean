import RefurbVerif.Wire.Basic
import RefurbVerif.Wire.Settings
import RefurbVerif.Wire.Report
import RefurbVerif.Wire.Paths
import RefurbVerif.Model.Run
import RefurbVerif.Generated.NoqaLines
import RefurbVerif.Model.History
import RefurbVerif.Generated.Globals
open Lean

namespace RefurbVerif.Wire
open RefurbVerif.Run

namespace RunW

def toRaw (j : Json) : RawDiag :=
  { line := int j "line", col := int j "col", pfx := chars j "prefix", code := nat j "code", msg := chars j "msg" }

def toFileIn (j : Json) : FileIn :=
  { path := chars j "path", rel := chars j "rel", source := chars j "source", dump := chars j "dump",
    raw := (arr j "raw").map toRaw }

def toMypy (j : Json) : Mypy :=
  if str j "r" == "failed" then .failed ((strs j "lines").map String.toList)
  else .built ((arr j "files").map toFileIn)

/-- `{env_color, args, file, checks, mypy, load_error?, cwd, links, fuel}` -/
def toRunInput (j : Json) : RunInput :=
  { envColor := bool j "env_color"
    argv := strs j "args"
    config := toFileOutcome (obj j "file")
    lineCfg := Generated.noqaLineCfg
    checks := (arr j "checks").map toCheckSel
    mypy := toMypy (obj j "mypy")
    loadError := (optStr j "load_error").map String.toList
    resolver := Paths.resolvePy (toLinks j "links") (nat j "fuel") (strs j "cwd") }

def outcomeKind : Outcome → String
  | .printed _ _ => "printed"
  | .early .help => "help"
  | .early .version => "version"
  | .early .generate => "generate"
  | .early .explain => "explain"
  | .libraryError _ => "libraryError"
  | .traceback _ => "traceback"

end RunW

/-! ### C11: regrouping and process history (Model/History.lean) -/

namespace HistW
open RefurbVerif.History

def toKind (s : String) : KeyKind :=
  if s == "cell" then .cell else if s == "liveNode" then .liveNode else .stable

/-- `"clear"`, `"refresh"`, `"put:<kind>"`, `"get:<kind>"`, `"memo:<kind>"`, `"putConst:<int>"`, `"bump:<int>"` -/
def toOp (s : String) : Op :=
  match s.splitOn ":" with
  | ["clear"] => .clear
  | ["refresh"] => .refresh
  | ["put", k] => .put (toKind k)
  | ["get", k] => .get (toKind k)
  | ["memo", k] => .memo (toKind k)
  | ["putConst", v] => .putConst (v.toInt?.getD 0)
  | ["bump", v] => .bump (v.toInt?.getD 0)
  | _ => .get .stable

def kindS : KeyKind → String
  | .cell => "cell" | .stable => "stable" | .liveNode => "liveNode"

def opS : Op → String
  | .clear => "clear" | .refresh => "refresh" | .put k => "put:" ++ kindS k | .get k => "get:" ++ kindS k
  | .memo k => "memo:" ++ kindS k | .putConst v => "putConst:" ++ toString v | .bump d => "bump:" ++ toString d

def toPair (j : Json) : Nat × Op := (nat j "c", toOp (str j "op"))

/-- `{i:"op", c, op}` | `{i:"free", allowed:[{c, op}]}` | `{i:"defer", c, op}` -/
def toInstr (j : Json) : Instr :=
  match str j "i" with
  | "op" => .op (nat j "c") (toOp (str j "op"))
  | "defer" => .defer (nat j "c") (toOp (str j "op"))
  | _ => .free ((arr j "allowed").map toPair)

def instrJ : Instr → Json
  | .op c o => Json.mkObj [("i", "op"), ("c", c), ("op", opS o)]
  | .defer c o => Json.mkObj [("i", "defer"), ("c", c), ("op", opS o)]
  | .free al => Json.mkObj [("i", "free"), ("allowed", Json.arr (al.map (fun p => Json.mkObj [("c", p.1), ("op", opS p.2)])).toArray)]

/-- the requests of one phase, one after the other (what was read does not change the plan) -/
def toProg : List Json → Prog
  | [] => .done
  | j :: rest => .act (nat j "c") (toOp (str j "op")) (nat j "n") (fun _ => toProg rest)

/-- `{stop?, vals:[{c, n, v}], phases:[{at, acts:[{c, op, n}]}]}` -/
def toInput (j : Json) : Input :=
  let vals := (arr j "vals").map (fun x => ((nat x "c", nat x "n"), int x "v"))
  let phases := (arr j "phases").map (fun x => (nat x "at", toProg (arr x "acts")))
  { val := fun c n => ((vals.find? (fun p => p.1 == (c, n))).map (·.2)).getD 0
    prog := fun idx => ((phases.find? (fun p => p.1 == idx)).map (·.2)).getD .done
    stop := match j.getObjVal? "stop" with
      | .ok (.num n) => some n.mantissa.toNat
      | _ => none }

/-- the script as component `c` sees it (same instruction indices; the components do not interact) -/
def restrict (c : Nat) : Instr → Instr
  | .op c' o => if c' = c then .op c' o else .free []
  | .free al => .free (al.filter (fun p => p.1 == c))
  | .defer c' o => if c' = c then .defer c' o else .free []

def discS : Discipline → String
  | .resetAtRunStart => "resetAtRunStart" | .overwrittenBeforeRead => "overwrittenBeforeRead" | .constant => "constant"
  | .keyedByLiveNodeIdentity => "keyedByLiveNodeIdentity" | .leaks => "leaks"

def obsJ (l : List (Option Int)) : Json := Json.arr (l.map (optJ (fun (v : Int) => (v : Json)))).toArray

/-- every run of the history, threaded through one process, and the same run in a fresh interpreter -/
def runAll (T : Script) : Globals → List Input → List Json
  | _, [] => []
  | G, i :: rest =>
    let r := runIn T G i
    Json.mkObj [("obs", obsJ r.1), ("fresh", obsJ (runIn T init i).1)] :: runAll T r.2 rest

end HistW

/-- driver verbs of the whole-run model (Model/Run.lean).
    `run_main`: JSON of a `RunInput` ↦ `{stdout, exit, kind}`;
    `run_items`: the list `run_refurb` returns for the loaded settings (for diagnosis of a disagreement);
    `regroup`: `{groups: [[item]], by}` ↦ the stable sort of the group reports put one after the other, their k-way
      merge, and whether each group is in the documented order (Props/C11 `run_grouping_partition[_merge]`);
    `about`: `{items, path}` ↦ the items that are diagnostics about that file (Props/C11 `run_one_by_one`);
    `globals_table`: today's components, their disciplines, the script (Generated/Globals.lean);
    `run_history`: `{script?, only?, history: [run]}` ↦ what every run reads from the process-global state, in the process
      and in a fresh interpreter (Model/History.lean `runIn`); the script defaults to today's -/
def handleRun (verb : String) (j : Json) : Option Json :=
  match verb with
  | "run_main" =>
    let i := RunW.toRunInput j
    let o := run i
    some (Json.mkObj [("stdout", String.ofList o.result.1), ("exit", o.result.2), ("kind", RunW.outcomeKind o)])
  | "run_items" =>
    let i := RunW.toRunInput j
    some (match loadSettings i.envColor i.argv i.config with
      | .ok s =>
        match runRefurb i s with
        | some items => Json.mkObj [("items", Json.arr (items.map itemJ).toArray)]
        | none => Json.mkObj [("raised", "IndexError")]
      | .error _ => Json.mkObj [("raised", "settings")])
  | "regroup" =>
    let groups := (arr j "groups").map (fun g => (g.getArr?.toOption.getD #[]).toList.map toItem)
    let by_ := if str j "by" == "error" then SortBy.error else SortBy.filename
    some (Json.mkObj [
      ("sorted", Json.arr ((ssort (leItem by_) groups.flatten).map itemJ).toArray),
      ("merged", Json.arr ((mergeAll by_ groups).map itemJ).toArray),
      ("each_sorted", Json.arr (groups.map (fun g => (isSortedB by_ g : Json))).toArray)])
  | "about" =>
    let items := (arr j "items").map toItem
    some (Json.arr ((items.filter (Item.isAbout (chars j "path"))).map itemJ).toArray)
  | "globals_table" =>
    let t := Generated.globalsTable
    some (Json.mkObj [
      ("disciplines", Json.arr (t.disciplines.map (fun p => Json.arr #[(p.1 : Json), (HistW.discS p.2 : Json)])).toArray),
      ("no_leaks", History.noLeaks t.script),
      ("script", Json.arr (t.script.map HistW.instrJ).toArray)])
  | "run_history" =>
    let T₀ : History.Script := match j.getObjVal? "script" with
      | .ok (.arr a) => a.toList.map HistW.toInstr
      | _ => Generated.globalsScript
    -- `only: c` — the trace of component `c` alone
    let T : History.Script := match j.getObjVal? "only" with
      | .ok (.num n) => T₀.map (HistW.restrict n.mantissa.toNat)
      | _ => T₀
    let comps := (List.range ((History.comps T₀).foldl max 0 + 1))
    some (Json.mkObj [
      ("runs", Json.arr (HistW.runAll T History.init ((arr j "history").map HistW.toInput)).toArray),
      ("disciplines", Json.arr (comps.map (fun c => (HistW.discS (History.classify T₀ c) : Json))).toArray),
      ("no_leaks", History.noLeaks T₀)])
  | _ => none

end RefurbVerif.Wire
