/-
C10 — checks do not interfere: any selection's output is a filter of the full output.
-/
import RefurbVerif.Model.Visitor
import RefurbVerif.Lemmas.Sort
import RefurbVerif.Lemmas.Order
import RefurbVerif.Generated.Locality
import RefurbVerif.Lemmas.Run
import RefurbVerif.Props.C08
import RefurbVerif.Props.C11
import RefurbVerif.Props.C13

namespace RefurbVerif.C10
open RefurbVerif

/-- a check only ever appends diagnostics carrying its own prefix+code -/
def OwnCode (c : CheckM) : Prop := ∀ st n, ∀ d ∈ (c.step st n).2, d.key = c.key

/-- selecting checks by code -/
def selChecks (sel : Str × Nat → Bool) (cs : List CheckM) : List CheckM := cs.filter (fun c => sel c.key)

theorem stepAll_keys (cs : List CheckM) (n : String × Nat) :
    (stepAll cs n).1.map CheckM.key = cs.map CheckM.key := by
  induction cs with
  | nil => rfl
  | cons c cs ih => simp [stepAll, ih, CheckM.key]

theorem stepAll_own (cs : List CheckM) (n : String × Nat) (h : ∀ c ∈ cs, OwnCode c) :
    ∀ c ∈ (stepAll cs n).1, OwnCode c := by
  induction cs with
  | nil => intro c hc; simp [stepAll] at hc
  | cons c cs ih =>
    intro c' hc'
    simp only [stepAll, List.mem_cons] at hc'
    rcases hc' with rfl | hc'
    · intro st m d hd; exact h c (by simp) st m d hd
    · exact ih (fun x hx => h x (by simp [hx])) c' hc'

/-- one node: stepping the selected checks gives the selected part of stepping all of them, both
    for the new private states and for the diagnostics -/
theorem stepAll_select (sel : Str × Nat → Bool) (cs : List CheckM) (n : String × Nat)
    (h : ∀ c ∈ cs, OwnCode c) :
    stepAll (selChecks sel cs) n =
      (selChecks sel (stepAll cs n).1, (stepAll cs n).2.filter (fun d => sel d.key)) := by
  induction cs with
  | nil => rfl
  | cons c cs ih =>
    have ihc := ih (fun x hx => h x (by simp [hx]))
    have hown := h c (by simp)
    have hfilt : (c.step c.st n).2.filter (fun d => sel d.key) = if sel c.key then (c.step c.st n).2 else [] := by
      by_cases hs : sel c.key
      · simp only [hs, ↓reduceIte]
        apply List.filter_eq_self.mpr
        intro d hd; rw [hown _ _ d hd]; exact hs
      · simp only [hs, Bool.false_eq_true, ↓reduceIte]
        apply List.filter_eq_nil_iff.mpr
        intro d hd; rw [hown _ _ d hd]; simpa using hs
    by_cases hs : sel c.key
    · have hk : sel (CheckM.key { c with st := (c.step c.st n).1 }) = true := by simpa [CheckM.key] using hs
      simp only [selChecks, List.filter_cons, hs, ↓reduceIte, stepAll, List.filter_append, hfilt] at ihc ⊢
      rw [ihc]
      simp [hk]
    · have hk : sel (CheckM.key { c with st := (c.step c.st n).1 }) = false := by simpa [CheckM.key] using hs
      simp only [selChecks, List.filter_cons, hs, Bool.false_eq_true, ↓reduceIte, stepAll, List.filter_append, hfilt] at ihc ⊢
      rw [ihc]
      simp [hk]

/-- **The traversal with a subset of the checks produces exactly the diagnostics of those checks
    from the full traversal, in the same order** — for any catalogue, any selection, any number of
    nodes, and checks with arbitrary private state. -/
theorem visitAll_select (sel : Str × Nat → Bool) (visits : List (String × Nat)) :
    ∀ cs : List CheckM, (∀ c ∈ cs, OwnCode c) →
      visitAll (selChecks sel cs) visits = (visitAll cs visits).filter (fun d => sel d.key) := by
  induction visits with
  | nil => intro cs _; rfl
  | cons n ns ih =>
    intro cs h
    simp only [visitAll, List.filter_append]
    rw [stepAll_select sel cs n h]
    simp only
    rw [ih (stepAll cs n).1 (stepAll_own cs n h)]

/-- **C10.** With only a subset of checks enabled the report is the full report restricted to
    those codes: nothing added, removed, moved or reworded. -/
theorem selection_is_filter (by_ : SortBy) (keep : Diag → Bool) (sel : Str × Nat → Bool)
    (cs : List CheckM) (visits : List (String × Nat)) (h : ∀ c ∈ cs, OwnCode c) :
    reportOf by_ keep (selChecks sel cs) visits =
      (reportOf by_ keep cs visits).filter (fun i => match i with | .diag d => sel d.key | .text _ => true) := by
  unfold reportOf
  rw [filter_ssort (leItem by_) (leItem_total by_) (leItem_trans by_), visitAll_select sel visits cs h]
  congr 1
  simp only [List.filter_map, List.filter_filter]
  congr 1
  apply List.filter_congr
  intro d _
  simp [Bool.and_comm]

/-- ignoring (`keep`) one more code afterwards is the same as never having enabled it -/
theorem ignore_is_deselect (by_ : SortBy) (keep : Diag → Bool) (sel : Str × Nat → Bool)
    (cs : List CheckM) (visits : List (String × Nat)) (h : ∀ c ∈ cs, OwnCode c) :
    reportOf by_ (fun d => keep d && sel d.key) cs visits = reportOf by_ keep (selChecks sel cs) visits := by
  unfold reportOf
  rw [visitAll_select sel visits cs h]
  congr 2
  rw [List.filter_filter]

/-! ### Today's check modules (syntactic facts regenerated from the source) -/

open Generated in
/-- no check module imports a mutable object from another check module, except the two constant tables on the allow-list -/
theorem no_shared_mutable_imports :
    ∀ m ∈ locality, ∀ i ∈ m.mutableImports, (m.module, i) ∈ mutableImportAllow := by decide +kernel

open Generated in
/-- the only check that writes to syntax-tree nodes / typeshed objects is on the allow-list -/
theorem node_writes_allowed : ∀ m ∈ locality, m.nodeWrites ≠ [] → m.module ∈ nodeWriteAllow := by decide +kernel

open Generated in
/-- the shared `errors` list is only appended to (or handed to a helper that appends), except on the allow-list -/
theorem errors_only_appended : ∀ m ∈ locality, ∀ u ∈ m.errorsOtherUses, (m.module, u) ∈ errorsReadAllow := by decide +kernel

open Generated in
/-- every check constructs diagnostics of its own `ErrorInfo` class only -/
theorem own_error_class_only : ∀ m ∈ locality, m.foreignErrorClasses = [] := by decide +kernel

/-! ### Non-vacuity -/

def chkA : CheckM := { pfx := "FURB".toList, code := 1, st := [], step := fun st n =>
  (n.2 :: st, if st.contains n.2 then [] else [{ file := [], line := n.2, col := 0, pfx := "FURB".toList, code := 1, msg := [] }]) }
def chkB : CheckM := { pfx := "FURB".toList, code := 2, st := [], step := fun st n =>
  (st, [{ file := [], line := n.2, col := 1, pfx := "FURB".toList, code := 2, msg := [] }]) }

example : OwnCode chkA := by
  intro st n d hd
  simp only [chkA] at hd
  split at hd
  · cases hd
  · simp at hd; subst hd; rfl

example : (visitAll [chkA, chkB] [("X", 1), ("X", 1), ("Y", 2)]).length = 5 := by decide

end RefurbVerif.C10

/-! ## The whole run: `refurb.main.main()` as one function (Model/Run.lean)

The component theorems (C08 `filter_exact`, C09 ladder, C10 `selection_is_filter`, C11 `perm_files_same_general`,
C13 `same_items_same_order`) lifted through the composition `runMain`, down to the text on stdout and the exit
status — for any number of files, diagnostics and checks. -/

namespace RefurbVerif.C10
open RefurbVerif RefurbVerif.Run

/-- forget the file name of a diagnostic the visitor produced (it is stamped afterwards, main.py:220) -/
def toRaw (d : Diag) : RawDiag := { line := d.line, col := d.col, pfx := d.pfx, code := d.code, msg := d.msg }

/-- **Why the raw diagnostics may be data.**  The whole-run model keeps, of the diagnostics ALL checks produce, those
    of the loaded checks.  For checks that only report their own code (`OwnCode`; today's modules:
    `own_error_class_only`) that is exactly what the visitor produces when only the loaded checks run — whatever
    private state the checks keep, for any number of nodes (`visitAll_select`). -/
theorem raw_of_loaded_is_visitor (s : Settings) (cat : List CheckSel) (cs : List CheckM)
    (visits : List (String × Nat)) (h : ∀ c ∈ cs, OwnCode c) :
    ((visitAll cs visits).map toRaw).filter (fun r => selected s cat r.pfx r.code)
      = (visitAll (selChecks (fun k => selected s cat k.1 k.2) cs) visits).map toRaw := by
  rw [visitAll_select _ visits cs h, List.filter_map]
  rfl

/-! ### (a) selection is a filter, down to the output -/

/-- the item is a plain line, or a diagnostic of a check that `s` loads -/
def itemLoaded (s : Settings) (cat : List CheckSel) : Item → Bool
  | .diag d => selected s cat d.pfx d.code
  | .text _ => true

/-- two settings that differ at most in the selection options (`enable`, `disable`, `enable_all`, `disable_all`,
    path-less `ignore` entries) and in `--verbose` -/
structure SameButSelection (s₁ s₂ : Settings) : Prop where
  debug : s₁.debug = s₂.debug
  quiet : s₁.quiet = s₂.quiet
  format : s₁.format = s₂.format
  sortBy : s₁.sortBy = s₂.sortBy
  color : s₁.color = s₂.color
  help : s₁.help = s₂.help
  version : s₁.version = s₂.version
  generate : s₁.generate = s₂.generate
  explain : s₁.explain = s₂.explain
  configFile : s₁.configFile = s₂.configFile
  /-- the amend tables (entries that carry a path) are the same -/
  amendEntries : s₁.ignore.filter (fun e => e.path.isSome) = s₂.ignore.filter (fun e => e.path.isSome)

theorem any_filter_of_imp {α : Type} (f p : α → Bool) (l : List α) (h : ∀ x, f x = true → p x = true) :
    l.any f = (l.filter p).any f := by
  rw [List.any_filter]
  apply List.any_congr rfl
  intro a
  cases hf : f a with
  | false => simp
  | true => simp [h a hf]

theorem entryHits_pathless (R : Paths.Resolver) (root : Paths.PPath) (file : List String) (d : Paths.AmendDiag)
    (e : Clsf) (h : Paths.entryHits R root file d e = true) : e.path.isSome = true := by
  unfold Paths.entryHits Paths.entryPath at h
  cases hp : e.path with
  | none => simp [hp] at h
  | some q => rfl

/-- the amend verdict only reads the config file location and the path-carrying `ignore` entries -/
theorem amendB_congr (R : Paths.Resolver) (s₁ s₂ : Settings) (cat : List CheckSel)
    (hc : s₁.configFile = s₂.configFile)
    (hs : s₁.ignore.filter (fun e => e.path.isSome) = s₂.ignore.filter (fun e => e.path.isSome)) :
    amendB R s₁ cat = amendB R s₂ cat := by
  funext d
  unfold amendB Paths.ignoredViaAmend
  cases R (Paths.parsePath (amendDiag cat d).file) with
  | none => rfl
  | some file =>
    simp only
    rw [any_filter_of_imp _ (fun e => e.path.isSome) s₁.ignore (entryHits_pathless R _ file _),
      any_filter_of_imp _ (fun e => e.path.isSome) s₂.ignore (entryHits_pathless R _ file _), hs, hc]

theorem selected_mono (s₁ s₂ : Settings) (cat : List CheckSel)
    (hsub : ∀ c ∈ cat, shouldLoad s₁ c = true → shouldLoad s₂ c = true) (p : Str) (n : Nat)
    (h : selected s₁ cat p n = true) : selected s₂ cat p n = true := by
  unfold selected at h ⊢
  rw [List.any_eq_true] at h ⊢
  obtain ⟨c, hc, hx⟩ := h
  rw [Bool.and_eq_true] at hx
  exact ⟨c, hc, by rw [Bool.and_eq_true]; exact ⟨hx.1, hsub c hc hx.2⟩⟩

/-- what the visiting loop collects with fewer checks loaded is what it collects with more, restricted -/
theorem collected_selection (s₁ s₂ : Settings) (cat : List CheckSel) (files : List FileIn)
    (hd : s₁.debug = s₂.debug) (hsub : ∀ c ∈ cat, shouldLoad s₁ c = true → shouldLoad s₂ c = true) :
    collected s₁ cat files = (collected s₂ cat files).filter (itemLoaded s₁ cat) := by
  unfold collected
  rw [List.filter_flatMap]
  congr 1
  funext f
  unfold fileItems
  rw [List.filter_append, List.filter_map, List.filter_filter, hd]
  congr 1
  · cases s₂.debug <;> simp [List.filter_cons, itemLoaded]
  · congr 1
    apply List.filter_congr
    intro r _
    simp only [Function.comp, itemLoaded, stamp]
    cases h : selected s₁ cat r.pfx r.code with
    | false => simp
    | true => simp [selected_mono s₁ s₂ cat hsub r.pfx r.code h]

theorem sortByOf_congr (s₁ s₂ : Settings) (h : s₁.sortBy = s₂.sortBy) : sortByOf s₁ = sortByOf s₂ := by
  unfold sortByOf; rw [h]

theorem formatOf_congr (s₁ s₂ : Settings) (h : s₁.format = s₂.format) (hc : s₁.color = s₂.color) :
    formatOf s₁ = formatOf s₂ := by
  unfold formatOf; rw [h, hc]

/-- **(a) Selection is a filter of the whole run.**  Two runs on the same files that differ only in their selection
    options, the first loading a subset of the checks of the second: what `run_refurb` returns for the first is
    what it returns for the second, restricted to the diagnostics of the checks the first loads — same order, same
    texts, for either `--sort`, with `# noqa` comments and amend tables in force. -/
theorem run_selection_is_filter (i : RunInput) (s₁ s₂ : Settings) (items₂ : List Item)
    (hs : SameButSelection s₁ s₂)
    (hsub : ∀ c ∈ i.checks, shouldLoad s₁ c = true → shouldLoad s₂ c = true)
    (h₂ : runRefurb i s₂ = some items₂) :
    runRefurb i s₁ = some (items₂.filter (itemLoaded s₁ i.checks)) := by
  unfold runRefurb at h₂ ⊢
  cases hm : i.mypy with
  | failed lines =>
    simp only [hm, Option.some.injEq] at h₂ ⊢
    subst h₂
    symm
    apply List.filter_eq_self.mpr
    intro it hit
    obtain ⟨l, _, rfl⟩ := List.mem_map.mp hit
    rfl
  | built files =>
    simp only [hm] at h₂ ⊢
    rw [sortByOf_congr s₁ s₂ hs.sortBy, amendB_congr i.resolver s₁ s₂ i.checks hs.configFile hs.amendEntries,
      collected_selection s₁ s₂ i.checks files hs.debug hsub]
    exact runReport_filter _ _ _ _ _ _ _ h₂

theorem body_congr (i : RunInput) (s₁ s₂ : Settings) (hs : SameButSelection s₁ s₂) (items : List Item) :
    body i s₁ items = body i s₂ items := by
  unfold body; rw [formatOf_congr s₁ s₂ hs.format hs.color, hs.quiet]

theorem loadFailure_none (i : RunInput) (hl : i.loadError = none) : loadFailure i = none := by
  unfold loadFailure; cases i.mypy <;> simp [hl]

/-- a lint run that gets as far as printing: no early exit, checks load, the `# noqa` lookup does not raise -/
theorem runWith_printed (i : RunInput) (s : Settings) (items : List Item)
    (hh : s.help = false) (hv : s.version = false) (hg : s.generate = false) (he : s.explain = none)
    (hl : i.loadError = none) (h : runRefurb i s = some items) :
    runWith i s = .printed (preambleOf i s ++ body i s items) (exitStatus items) := by
  unfold runWith
  simp only [hh, hv, hg, he, loadFailure_none i hl, h, Bool.false_eq_true, ↓reduceIte, Option.isSome_none]

theorem runWith_printed_inv (i : RunInput) (s : Settings) (out : Str) (e : Nat) (hl : i.loadError = none)
    (h : runWith i s = .printed out e) :
    s.help = false ∧ s.version = false ∧ s.generate = false ∧ s.explain = none ∧
      ∃ items, runRefurb i s = some items ∧ out = preambleOf i s ++ body i s items ∧ e = exitStatus items := by
  unfold runWith at h
  cases hh : s.help <;> simp only [hh, ↓reduceIte, Bool.false_eq_true, reduceCtorEq] at h
  cases hv : s.version <;> simp only [hv, ↓reduceIte, Bool.false_eq_true, reduceCtorEq] at h
  cases hg : s.generate <;> simp only [hg, ↓reduceIte, Bool.false_eq_true, reduceCtorEq] at h
  cases he : s.explain with
  | some x => simp [he] at h
  | none =>
    simp only [he, Option.isSome_none, Bool.false_eq_true, ↓reduceIte, loadFailure_none i hl] at h
    refine ⟨rfl, rfl, rfl, rfl, ?_⟩
    cases hr : runRefurb i s with
    | none => simp [hr] at h
    | some items =>
      refine ⟨items, rfl, ?_⟩
      simp only [hr, Outcome.printed.injEq] at h
      exact ⟨h.1.symm, h.2.symm⟩

/-- **(a), on stdout.**  If the run with more checks prints `out₂` and exits with `e₂`, then `out₂` is the rendering
    of some item list, and the run with fewer checks prints the rendering (same format, same hint rule) of that
    list restricted to its loaded checks, after its own `--verbose` listing, and exits with the status of the
    restricted list. -/
theorem run_selection_output (i : RunInput) (s₁ s₂ : Settings) (hs : SameButSelection s₁ s₂)
    (hsub : ∀ c ∈ i.checks, shouldLoad s₁ c = true → shouldLoad s₂ c = true) (hl : i.loadError = none)
    (out₂ : Str) (e₂ : Nat) (h₂ : runWith i s₂ = .printed out₂ e₂) :
    ∃ items₂, runRefurb i s₂ = some items₂ ∧ out₂ = preambleOf i s₂ ++ body i s₂ items₂ ∧ e₂ = exitStatus items₂ ∧
      runWith i s₁ = .printed (preambleOf i s₁ ++ body i s₂ (items₂.filter (itemLoaded s₁ i.checks)))
        (exitStatus (items₂.filter (itemLoaded s₁ i.checks))) := by
  obtain ⟨hh, hv, hg, he, items₂, hr, ho, hx⟩ := runWith_printed_inv i s₂ out₂ e₂ hl h₂
  refine ⟨items₂, hr, ho, hx, ?_⟩
  rw [← body_congr i s₁ s₂ hs]
  exact runWith_printed i s₁ _ (hs.help.trans hh) (hs.version.trans hv) (hs.generate.trans hg) (hs.explain.trans he) hl
    (run_selection_is_filter i s₁ s₂ items₂ hs hsub hr)

/-- **(a), line by line** (`--quiet`, every rendered item on one line — C13 `plain_one_line`/`github_one_line`):
    the lines printed by the larger run are the renderings of its items, one per line and in order; the lines
    printed by the smaller run are the renderings of the items of its loaded checks, in the same relative order. -/
theorem run_selection_lines (i : RunInput) (s₁ s₂ : Settings) (hs : SameButSelection s₁ s₂) (items₂ : List Item)
    (hnl : ∀ it ∈ items₂, C13.NoNl (formatItem (formatOf s₂) (relOf (filesOf i.mypy)) it))
    (hne : items₂.filter (itemLoaded s₁ i.checks) ≠ []) :
    splitAt '\n' (formatErrors (formatOf s₂) (relOf (filesOf i.mypy)) true items₂)
        = items₂.map (formatItem (formatOf s₂) (relOf (filesOf i.mypy))) ∧
    splitAt '\n' (formatErrors (formatOf s₁) (relOf (filesOf i.mypy)) true (items₂.filter (itemLoaded s₁ i.checks)))
        = (items₂.filter (itemLoaded s₁ i.checks)).map (formatItem (formatOf s₂) (relOf (filesOf i.mypy))) := by
  have hne₂ : items₂ ≠ [] := by
    intro h; rw [h] at hne; exact hne rfl
  refine ⟨C13.same_items_same_order _ _ items₂ hne₂ hnl, ?_⟩
  rw [formatOf_congr s₁ s₂ hs.format hs.color]
  exact C13.same_items_same_order _ _ _ hne (fun it hit => hnl it (List.mem_filter.mp hit).1)

/-! ### (b) `--ignore CODE` = the check does not exist -/

/-- `--ignore PFXnnn` given last (`Arg.ignore`, `step`) -/
def ignoreCode (s : Settings) (p : String) (n : Nat) : Settings :=
  { s with ignore := s.ignore ++ [{ cls := .code p n }] }

def notCode (p : String) (n : Nat) (pfx : Str) (code : Nat) : Bool := !(pfx == p.toList && code == n)

/-- the run in a world where no check with this prefix+code was ever written: neither in the catalogue nor among
    the raw diagnostics -/
def dropRaw (p : String) (n : Nat) (f : FileIn) : FileIn :=
  { f with raw := f.raw.filter (fun r => notCode p n r.pfx r.code) }

def dropCode (p : String) (n : Nat) (i : RunInput) : RunInput :=
  { i with
    checks := i.checks.filter (fun c => !ownedBy c p.toList n)
    mypy := match i.mypy with
      | .built fs => .built (fs.map (dropRaw p n))
      | .failed l => .failed l }

theorem ownedBy_iff (c : CheckSel) (p : String) (n : Nat) : ownedBy c p.toList n = true ↔ c.pfx = p ∧ c.code = n := by
  simp [ownedBy, String.toList_inj]

theorem shouldLoad_ignoreCode (s : Settings) (p : String) (n : Nat) (c : CheckSel) :
    shouldLoad (ignoreCode s p n) c = (!ownedBy c p.toList n && shouldLoad s c) := by
  have hcls : (c.cls == ({ cls := .code p n } : Clsf)) = ownedBy c p.toList n := by
    rw [Bool.eq_iff_iff, ownedBy_iff]
    simp [CheckSel.cls]
  have hcat : ∀ l : List Clsf, c.catClsfs.any (fun x => (l ++ [({ cls := .code p n } : Clsf)]).contains x)
      = c.catClsfs.any (fun x => l.contains x) := by
    intro l
    unfold CheckSel.catClsfs
    rw [List.any_map, List.any_map]
    apply List.any_congr rfl
    intro nm
    simp [List.contains_append]
  have hone : [({ cls := .code p n } : Clsf)].contains c.cls = ownedBy c p.toList n := by
    rw [List.contains_cons, List.contains_nil, Bool.or_false, hcls]
  have hig : ignoredB (ignoreCode s p n) c = (ignoredB s c || ownedBy c p.toList n) := by
    show ((s.ignore ++ [({ cls := .code p n } : Clsf)]).contains c.cls
        || c.catClsfs.any (fun x => (s.ignore ++ [({ cls := .code p n } : Clsf)]).contains x)) = _
    rw [hcat, List.contains_append, hone]
    unfold ignoredB
    cases s.ignore.contains c.cls <;> cases ownedBy c p.toList n <;> simp
  unfold shouldLoad
  rw [hig]
  cases ignoredB s c <;> cases ownedBy c p.toList n <;> simp [ignoreCode]

theorem selected_ignoreCode (s : Settings) (p : String) (n : Nat) (cat : List CheckSel) (pfx : Str) (code : Nat) :
    selected (ignoreCode s p n) cat pfx code
      = (notCode p n pfx code && selected s (cat.filter (fun c => !ownedBy c p.toList n)) pfx code) := by
  unfold selected
  rw [List.any_filter]
  cases hn : notCode p n pfx code with
  | true =>
    simp only [Bool.true_and]
    apply List.any_congr rfl
    intro c
    rw [shouldLoad_ignoreCode]
    cases ownedBy c pfx code <;> cases ownedBy c p.toList n <;> simp
  | false =>
    simp only [Bool.false_and]
    rw [List.any_eq_false]
    intro c _
    rw [shouldLoad_ignoreCode]
    simp only [notCode, Bool.not_eq_false', Bool.and_eq_true, beq_iff_eq] at hn
    have : ownedBy c pfx code = ownedBy c p.toList n := by simp [ownedBy, hn.1, hn.2]
    rw [this]
    cases ownedBy c p.toList n <;> simp

theorem categoriesOf_dropCode (p : String) (n : Nat) (cat : List CheckSel) (pfx : Str) (code : Nat)
    (h : notCode p n pfx code = true) :
    categoriesOf (cat.filter (fun c => !ownedBy c p.toList n)) pfx code = categoriesOf cat pfx code := by
  unfold categoriesOf
  rw [List.find?_filter]
  have hfun : (fun a => decide ((!ownedBy a p.toList n) = true ∧ ownedBy a pfx code = true))
      = (fun c => ownedBy c pfx code) := by
    funext c
    simp only [notCode, Bool.not_eq_true', Bool.and_eq_false_iff, beq_eq_false_iff_ne] at h
    cases ho : ownedBy c pfx code with
    | false => simp
    | true =>
      simp only [ownedBy, Bool.and_eq_true, beq_iff_eq] at ho
      have : ownedBy c p.toList n = false := by
        simp only [ownedBy, Bool.and_eq_false_iff, beq_eq_false_iff_ne]
        rcases h with h | h
        · left; rw [ho.1]; exact h
        · right; rw [ho.2]; exact h
      simp [this]
  rw [hfun]

/-- a path-less `ignore` entry never takes part in an amend verdict; dropping other checks from the catalogue does
    not change the categories of this one -/
theorem amendB_ignoreCode (R : Paths.Resolver) (s : Settings) (p : String) (n : Nat) (cat : List CheckSel) (d : Diag)
    (h : notCode p n d.pfx d.code = true) :
    amendB R (ignoreCode s p n) cat d = amendB R s (cat.filter (fun c => !ownedBy c p.toList n)) d := by
  have had : amendDiag (cat.filter (fun c => !ownedBy c p.toList n)) d = amendDiag cat d := by
    unfold amendDiag; rw [categoriesOf_dropCode p n cat d.pfx d.code h]
  unfold amendB Paths.ignoredViaAmend
  rw [had]
  cases R (Paths.parsePath (amendDiag cat d).file) with
  | none => rfl
  | some file =>
    simp only [ignoreCode, List.any_append, List.any_cons, List.any_nil, Bool.or_false]
    have : Paths.entryHits R (Paths.configRoot s.configFile) file (amendDiag cat d) ({ cls := .code p n } : Clsf) = false := by
      simp [Paths.entryHits, Paths.entryPath]
    rw [this, Bool.or_false]

theorem collected_ignoreCode (s : Settings) (p : String) (n : Nat) (cat : List CheckSel) (files : List FileIn) :
    collected (ignoreCode s p n) cat files
      = collected s (cat.filter (fun c => !ownedBy c p.toList n)) (files.map (dropRaw p n)) := by
  unfold collected
  rw [List.flatMap_map]
  congr 1
  funext f
  unfold fileItems dropRaw
  simp only [List.filter_filter]
  congr 2
  apply List.filter_congr
  intro r _
  rw [selected_ignoreCode, Bool.and_comm]

theorem collected_notCode (s : Settings) (p : String) (n : Nat) (cat : List CheckSel) (files : List FileIn) (d : Diag)
    (h : Item.diag d ∈ collected (ignoreCode s p n) cat files) : notCode p n d.pfx d.code = true := by
  unfold collected at h
  obtain ⟨f, _, hf⟩ := List.mem_flatMap.mp h
  unfold fileItems at hf
  rcases List.mem_append.mp hf with hf | hf
  · cases (ignoreCode s p n).debug <;> simp at hf
  · obtain ⟨r, hr, hd⟩ := List.mem_map.mp hf
    have hsel := (List.mem_filter.mp hr).2
    rw [selected_ignoreCode, Bool.and_eq_true] at hsel
    cases hd
    exact hsel.1

theorem enabledCodes_ignoreCode (s : Settings) (p : String) (n : Nat) (cat : List CheckSel) :
    enabledCodes (ignoreCode s p n) cat = enabledCodes s (cat.filter (fun c => !ownedBy c p.toList n)) := by
  unfold enabledCodes
  rw [List.filter_filter]
  congr 3
  apply List.filter_congr
  intro c _
  rw [shouldLoad_ignoreCode, Bool.and_comm]

/-- **(b) `--ignore CODE` and never loading CODE are the same run**: same stdout (including the `--verbose`
    listing), same exit status, same failure — an ignored check leaves no trace in the report, and ignoring it does
    not disturb any other diagnostic, `# noqa` comment or amend table. -/
theorem run_ignore_equals_never_loaded (i : RunInput) (s : Settings) (p : String) (n : Nat) :
    runWith i (ignoreCode s p n) = runWith (dropCode p n i) s := by
  have hpre : preambleOf i (ignoreCode s p n) = preambleOf (dropCode p n i) s := by
    unfold preambleOf dropCode
    cases i.mypy with
    | failed lines => rfl
    | built files =>
      simp only
      unfold preamble
      rw [enabledCodes_ignoreCode]
      rfl
  have hrun : runRefurb i (ignoreCode s p n) = runRefurb (dropCode p n i) s := by
    unfold runRefurb dropCode
    cases i.mypy with
    | failed lines => rfl
    | built files =>
      simp only
      rw [srcOf_map files (dropRaw p n) (fun _ => rfl) (fun _ => rfl), ← collected_ignoreCode]
      exact runReport_congr _ _ _ _ _ _ _ (fun _ _ => rfl)
        (fun d hd => amendB_ignoreCode i.resolver s p n i.checks d (collected_notCode s p n i.checks files d hd))
  have hbody : ∀ items, body i (ignoreCode s p n) items = body (dropCode p n i) s items := by
    intro items
    unfold body dropCode
    cases i.mypy with
    | failed lines => rfl
    | built files =>
      simp only [filesOf]
      rw [relOf_map files (dropRaw p n) (fun _ => rfl) (fun _ => rfl)]
      rfl
  have hlf : loadFailure (dropCode p n i) = loadFailure i := by
    unfold loadFailure dropCode
    cases i.mypy <;> rfl
  unfold runWith
  rw [hrun, hpre, hlf]
  simp only [hbody]
  rfl

/-! ### (c) exit status -/

theorem exitStatus_cases (items : List Item) :
    (items = [] ∧ exitStatus items = 0) ∨ (∃ it rest, items = it :: rest ∧ exitStatus items = 1) := by
  cases items with
  | nil => exact Or.inl ⟨rfl, rfl⟩
  | cons it rest => exact Or.inr ⟨it, rest, rfl, rfl⟩

/-- without `--debug` everything a successful build contributes is a diagnostic -/
theorem run_items_are_diags (i : RunInput) (s : Settings) (files : List FileIn) (items : List Item)
    (hb : i.mypy = .built files) (hd : s.debug = false) (h : runRefurb i s = some items) :
    ∀ it ∈ items, it.isDiag = true := by
  unfold runRefurb runReport at h
  simp only [hb] at h
  cases hn : noqaFilter i.lineCfg (srcOf files) (amendB i.resolver s i.checks) (collected s i.checks files) with
  | none => simp [hn] at h
  | some kept =>
    simp only [hn, Option.map_some, Option.some.injEq] at h
    subst h
    intro it hit
    rw [mem_ssort] at hit
    obtain ⟨_, rfl⟩ := noqaFilter_some _ _ _ _ _ hn
    have hmem := (List.mem_filter.mp hit).1
    unfold collected at hmem
    obtain ⟨f, _, hf⟩ := List.mem_flatMap.mp hmem
    unfold fileItems at hf
    simp only [hd, Bool.false_eq_true, ↓reduceIte, List.nil_append] at hf
    obtain ⟨r, _, rfl⟩ := List.mem_map.mp hf
    rfl

/-- **(c) Exit status of a lint run** (files built, no `--debug`): the process exits with 0 or 1; with 0 it has
    printed nothing but the `--verbose` listing (nothing at all without `--verbose`); with 1 its report starts with
    a diagnostic line — so the exit status is 1 exactly when at least one diagnostic is printed. -/
theorem run_exit_status (i : RunInput) (s : Settings) (files : List FileIn) (out : Str) (e : Nat)
    (hb : i.mypy = .built files) (hd : s.debug = false) (hl : i.loadError = none)
    (h : runWith i s = .printed out e) :
    (e = 0 ∧ runRefurb i s = some [] ∧ out = preambleOf i s) ∨
    (e = 1 ∧ ∃ d rest, runRefurb i s = some (.diag d :: rest) ∧
      formatErrors (formatOf s) (relOf files) s.quiet (.diag d :: rest) ≠ [] ∧
      out = preambleOf i s ++ (formatErrors (formatOf s) (relOf files) s.quiet (.diag d :: rest) ++ ['\n'])) := by
  obtain ⟨_, _, _, _, items, hr, ho, hx⟩ := runWith_printed_inv i s out e hl h
  rcases exitStatus_cases items with ⟨rfl, h0⟩ | ⟨it, rest, rfl, h1⟩
  · left
    refine ⟨hx.trans h0, hr, ?_⟩
    rw [ho]
    simp [body, printed, formatErrors_nil]
  · right
    have hdiag := run_items_are_diags i s files _ hb hd hr it (by simp)
    cases it with
    | text t => cases hdiag
    | diag d =>
      have hne := formatErrors_ne_nil (formatOf s) (relOf files) s.quiet d rest
      refine ⟨hx.trans h1, d, rest, hr, hne, ?_⟩
      rw [ho]
      have hem : (formatErrors (formatOf s) (relOf files) s.quiet (.diag d :: rest)).isEmpty = false := by
        cases hfe : formatErrors (formatOf s) (relOf files) s.quiet (.diag d :: rest) with
        | nil => exact absurd hfe hne
        | cons _ _ => rfl
      simp only [body, printed, hb, filesOf, hem, Bool.false_eq_true, ↓reduceIte]

/-- **(c) …of a run mypy refused** (missing file, syntax error): exit status 1 iff mypy gave at least one line;
    the lines are printed as they came (not sorted, not filtered, no hint, no `--verbose` listing). -/
theorem run_exit_status_failed (i : RunInput) (s : Settings) (lines : List Str) (out : Str) (e : Nat)
    (hb : i.mypy = .failed lines) (h : runWith i s = .printed out e) :
    runRefurb i s = some (lines.map Item.text) ∧ (e = if lines = [] then 0 else 1) ∧
      out = printed (joinLines ((lines.map Item.text).map (formatItem (formatOf s) (relOf [])))) := by
  have hr : runRefurb i s = some (lines.map Item.text) := by simp [runRefurb, hb]
  have hlf : loadFailure i = none := by simp [loadFailure, hb]
  unfold runWith at h
  rw [hlf, hr] at h
  refine ⟨hr, ?_⟩
  cases hh : s.help <;> simp only [hh, ↓reduceIte, Bool.false_eq_true, reduceCtorEq] at h
  cases hv : s.version <;> simp only [hv, ↓reduceIte, Bool.false_eq_true, reduceCtorEq] at h
  cases hg : s.generate <;> simp only [hg, ↓reduceIte, Bool.false_eq_true, reduceCtorEq] at h
  cases he : s.explain with
  | some x => simp [he] at h
  | none =>
    simp only [he, Option.isSome_none, Bool.false_eq_true, ↓reduceIte, Outcome.printed.injEq] at h
    obtain ⟨ho, hx⟩ := h
    constructor
    · rw [← hx]; cases lines <;> simp [exitStatus]
    · rw [← ho]
      have hnohint : hintShown s.quiet (lines.map Item.text) = false := by
        simp [hintShown, Item.isDiag]
      simp [preambleOf, hb, body, filesOf, formatErrors, hnohint]

/-- **(c) …of a run whose settings do not load**: the one `refurb: …` line, exit status 1. -/
theorem run_exit_status_settings_error (i : RunInput) (m : String)
    (h : loadSettings i.envColor i.argv i.config = .error (.refurb m)) :
    runMain i = (m.toList ++ ['\n'], 1) := by
  simp [runMain, run, h, Outcome.result]

/-- the exit status is never anything but 0 or 1 -/
theorem run_exit_zero_or_one (i : RunInput) : (runMain i).2 = 0 ∨ (runMain i).2 = 1 := by
  unfold runMain run
  cases loadSettings i.envColor i.argv i.config with
  | error err => cases err <;> simp [Outcome.result]
  | ok s =>
    simp only
    unfold runWith
    by_cases hh : s.help = true
    · simp [hh, Outcome.result]
    by_cases hv : s.version = true
    · simp [hh, hv, Outcome.result]
    by_cases hg : s.generate = true
    · simp [hh, hv, hg, Outcome.result]
    by_cases he : s.explain.isSome = true
    · simp [hh, hv, hg, he, Outcome.result]
    simp only [hh, hv, hg, he, Bool.false_eq_true, ↓reduceIte]
    cases loadFailure i with
    | some e => exact Or.inr rfl
    | none =>
      cases runRefurb i s with
      | none => exact Or.inr rfl
      | some items =>
        simp only [Outcome.result]
        rcases exitStatus_cases items with ⟨_, h⟩ | ⟨_, _, _, h⟩
        · exact Or.inl h
        · exact Or.inr h

/-! ### (d) a bare `# noqa` is local -/

/-- the diagnostic is reported on physical line `L` of file `F` -/
def atLine (F : Str) (L : Nat) : Item → Bool
  | .diag d => d.file == F && d.line.toNat == L
  | .text _ => false

/-- a file entry without its text -/
def dropSource (f : FileIn) : FileIn := { f with source := [] }

/-- the files of the two runs differ at most in their text -/
def SameButSource (files files' : List FileIn) : Prop := files'.map dropSource = files.map dropSource

theorem collected_dropSource (s : Settings) (cat : List CheckSel) (files : List FileIn) :
    collected s cat (files.map dropSource) = collected s cat files := by
  unfold collected
  rw [List.flatMap_map]
  rfl

theorem sameButSource_collected (s : Settings) (cat : List CheckSel) (files files' : List FileIn)
    (h : SameButSource files files') : collected s cat files' = collected s cat files := by
  rw [← collected_dropSource s cat files', ← collected_dropSource s cat files, h]

theorem sameButSource_relOf (files files' : List FileIn) (h : SameButSource files files') : relOf files' = relOf files := by
  rw [← relOf_map files' dropSource (fun _ => rfl) (fun _ => rfl), ← relOf_map files dropSource (fun _ => rfl) (fun _ => rfl), h]

/-- **(d) A bare `# noqa` on line `L` of file `F` removes exactly the diagnostics reported at (`F`, `L`)** from what
    `run_refurb` returns and leaves every other item where it was — under the hypotheses of C08 `filter_exact`
    (the comment is appended to a line free of `# noqa`, `get_source_lines` cuts both versions of the files where
    Python does, diagnostics are reported on existing lines), for any selection, amend tables and `--sort`. -/
theorem run_noqa_local (i : RunInput) (s : Settings) (files files' : List FileIn) (F : Str) (L : Nat) (g w : Str)
    (S : Str → Nat → C08.Annot)
    (hb : i.mypy = .built files) (hsame : SameButSource files files')
    (hsane : C08.Sane i.lineCfg) (hann : C08.Annotated i.lineCfg (srcOf files) (srcOf files') S)
    (hS : ∀ f n, S f n = if f = F ∧ n = L then .bare g w else .none)
    (hr : C08.InRange (srcOf files) (collected s i.checks files)) :
    runRefurb { i with mypy := .built files' } s = (runRefurb i s).map (List.filter (fun it => !atLine F L it)) := by
  have hsup : (fun it => !C08.suppressedBy S it) = (fun it => !atLine F L it) := by
    funext it
    cases it with
    | text t => rfl
    | diag d =>
      simp only [C08.suppressedBy, atLine, hS]
      by_cases hc : d.file = F ∧ d.line.toNat = L
      · simp [hc, C08.Annot.suppresses]
      · simp only [hc, ↓reduceIte, C08.Annot.suppresses]
        have : (d.file == F && d.line.toNat == L) = false := by
          rw [Bool.and_eq_false_iff]
          by_cases h1 : d.file = F
          · right; simpa using fun h2 => hc ⟨h1, h2⟩
          · left; simpa using h1
        rw [this]
  unfold runRefurb
  simp only [hb, sameButSource_collected s i.checks files files' hsame]
  rw [C08.filter_exact i.lineCfg hsane (sortByOf s) (srcOf files) (srcOf files') S _ hann _ hr, hsup]

/-- **(d), on stdout**: the annotated run prints the rendering of the original run's items minus those at (`F`, `L`). -/
theorem run_noqa_local_output (i : RunInput) (s : Settings) (files files' : List FileIn) (F : Str) (L : Nat) (g w : Str)
    (S : Str → Nat → C08.Annot)
    (hb : i.mypy = .built files) (hsame : SameButSource files files')
    (hsane : C08.Sane i.lineCfg) (hann : C08.Annotated i.lineCfg (srcOf files) (srcOf files') S)
    (hS : ∀ f n, S f n = if f = F ∧ n = L then .bare g w else .none)
    (hr : C08.InRange (srcOf files) (collected s i.checks files)) (hl : i.loadError = none)
    (out : Str) (e : Nat) (h : runWith i s = .printed out e) :
    ∃ items, runRefurb i s = some items ∧ out = preambleOf i s ++ body i s items ∧
      runWith { i with mypy := .built files' } s
        = .printed (preambleOf i s ++ body i s (items.filter (fun it => !atLine F L it)))
            (exitStatus (items.filter (fun it => !atLine F L it))) := by
  obtain ⟨hh, hv, hg, he, items, hri, ho, _⟩ := runWith_printed_inv i s out e hl h
  refine ⟨items, hri, ho, ?_⟩
  have hloc := run_noqa_local i s files files' F L g w S hb hsame hsane hann hS hr
  rw [hri] at hloc
  have := runWith_printed { i with mypy := .built files' } s _ hh hv hg he hl hloc
  rw [this]
  simp only [preambleOf, body, filesOf, hb, sameButSource_relOf files files' hsame]

/-! ### (e) the order of the file arguments -/

/-- **(e) Permuting the files keeps the run**: same stdout, same exit status.  Needed: the file names identify the
    files (`PathsIdentify`: two different entries of the list never carry the same path — then diagnostics of
    different files never tie on the sort key, C11 `key_separates_files`, and ties inside one file keep their
    traversal order by stability), and no `--debug` (the tree dumps are plain strings without a file name). -/
theorem run_files_perm (i : RunInput) (s : Settings) (files files' : List FileIn)
    (hb : i.mypy = .built files) (hp : files.Perm files') (hid : PathsIdentify files) (hd : s.debug = false) :
    runRefurb { i with mypy := .built files' } s = runRefurb i s ∧
      runWith { i with mypy := .built files' } s = runWith i s := by
  have hrun : runRefurb { i with mypy := .built files' } s = runRefurb i s := by
    unfold runRefurb
    simp only [hb, ← srcOf_perm files files' hp hid]
    unfold collected
    symm
    apply runReport_perm_blocks _ _ _ _ _ _ _ hp
    intro f hf g hg hfg a ha b hb'
    have hpath : f.path ≠ g.path := fun h => hfg (hid f hf g hg h)
    unfold fileItems at ha hb'
    simp only [hd, Bool.false_eq_true, ↓reduceIte, List.nil_append] at ha hb'
    obtain ⟨ra, _, rfl⟩ := List.mem_map.mp ha
    obtain ⟨rb, _, rfl⟩ := List.mem_map.mp hb'
    have hsep := C11.key_separates_files (sortByOf s) (stamp f.path ra) (stamp g.path rb) hpath
    unfold eqv
    cases h1 : leItem (sortByOf s) (.diag (stamp f.path ra)) (.diag (stamp g.path rb)) with
    | false => rfl
    | true =>
      cases h2 : leItem (sortByOf s) (.diag (stamp g.path rb)) (.diag (stamp f.path ra)) with
      | false => rfl
      | true => exact absurd ⟨h1, h2⟩ hsep
  refine ⟨hrun, ?_⟩
  have hlf : loadFailure { i with mypy := .built files' } = loadFailure i := by simp [loadFailure, hb]
  have hpre : preambleOf { i with mypy := .built files' } s = preambleOf i s := by simp [preambleOf, hb]
  have hbody : ∀ items, body { i with mypy := .built files' } s items = body i s items := by
    intro items; simp only [body, filesOf, hb, ← relOf_perm files files' hp hid]
  unfold runWith
  rw [hrun, hlf, hpre]
  simp only [hbody]

end RefurbVerif.C10

/-! ### Non-vacuity of the whole-run theorems -/

namespace RefurbVerif.C10
open RefurbVerif RefurbVerif.Run

def demoCat : List CheckSel :=
  [⟨"FURB", 123, ["readability"], true⟩, ⟨"FURB", 105, ["builtin"], true⟩, ⟨"XYZ", 100, [], false⟩]

def demoA : FileIn :=
  { path := "a.py".toList, rel := "a.py".toList, dump := "MypyFile:1(a.py)".toList
    source := "x = int(0)\ny = str(\"\")  # noqa: FURB105\nprint(\"\")\n".toList
    raw := [⟨1, 4, "FURB".toList, 123, "m1".toList⟩, ⟨1, 4, "XYZ".toList, 100, "probe".toList⟩,
            ⟨3, 0, "FURB".toList, 105, "m2".toList⟩, ⟨2, 4, "FURB".toList, 123, "m3".toList⟩] }

def demoB : FileIn :=
  { path := "pkg/b.py".toList, rel := "pkg/b.py".toList, dump := "MypyFile:1(pkg/b.py)".toList
    source := "print(\"\")  # noqa\nprint(\"\")\n".toList
    raw := [⟨2, 0, "FURB".toList, 105, "m2".toList⟩, ⟨1, 0, "FURB".toList, 105, "m2".toList⟩] }

def demoIn : RunInput :=
  { envColor := false, argv := ["a.py", "pkg/b.py", "--enable-all", "--quiet"], config := .notFound, lineCfg := nlCfg
    checks := demoCat, mypy := .built [demoA, demoB], resolver := Paths.resolvePy [] 16 ["w"] }

def sAll : Settings := { enableAll := true, quiet := true, color := false }
def sOne : Settings := { disableAll := true, enable := [{ cls := .code "FURB" 105 }], quiet := true, color := false }

/-- the whole run, from argv to stdout: `# noqa` on line 1 of pkg/b.py and the FURB105-only comment on line 2 of a.py
    are honoured, the disabled-by-default probe check reports under `--enable-all`, the report is sorted by file -/
example : runMain demoIn =
    ("a.py:1:5 [FURB123]: m1\na.py:1:5 [XYZ100]: probe\na.py:2:5 [FURB123]: m3\na.py:3:1 [FURB105]: m2\npkg/b.py:2:1 [FURB105]: m2\n".toList, 1) := by
  decide +kernel

theorem demo_same : SameButSelection sOne sAll := ⟨rfl, rfl, rfl, rfl, rfl, rfl, rfl, rfl, rfl, rfl, rfl⟩
theorem demo_sub : ∀ c ∈ demoIn.checks, shouldLoad sOne c = true → shouldLoad sAll c = true := by decide
/-- all hypotheses of (a) at once, on the demo project -/
def demoFull : List Item :=
  [.diag ⟨"a.py".toList, 1, 4, "FURB".toList, 123, "m1".toList⟩, .diag ⟨"a.py".toList, 1, 4, "XYZ".toList, 100, "probe".toList⟩,
   .diag ⟨"a.py".toList, 2, 4, "FURB".toList, 123, "m3".toList⟩, .diag ⟨"a.py".toList, 3, 0, "FURB".toList, 105, "m2".toList⟩,
   .diag ⟨"pkg/b.py".toList, 2, 0, "FURB".toList, 105, "m2".toList⟩]
theorem demo_full : runRefurb demoIn sAll = some demoFull := by decide +kernel
example : runRefurb demoIn sOne = some (demoFull.filter (itemLoaded sOne demoIn.checks)) :=
  run_selection_is_filter demoIn sOne sAll demoFull demo_same demo_sub demo_full
/-- (a) at work: the FURB105-only run prints the two FURB105 lines of the full run, in the same order -/
example : runWith demoIn sOne = .printed "a.py:3:1 [FURB105]: m2\npkg/b.py:2:1 [FURB105]: m2\n".toList 1 := by decide +kernel

/-- (b) at work: `--ignore FURB123` -/
example : runWith demoIn (ignoreCode sAll "FURB" 123)
    = .printed "a.py:1:5 [XYZ100]: probe\na.py:3:1 [FURB105]: m2\npkg/b.py:2:1 [FURB105]: m2\n".toList 1 := by decide +kernel
example : (dropCode "FURB" 123 demoIn).checks.length = 2 := by decide

/-- (c) at work: nothing loaded, nothing printed, exit status 0; an invalid option: one line, exit status 1 -/
example : runWith demoIn { disableAll := true } = .printed [] 0 := by decide +kernel
example : runMain { demoIn with argv := ["a.py", "--enable-all", "--disable-all"] }
    = ("refurb: \"enable all\" and \"disable all\" can't be used at the same time\n".toList, 1) := by decide +kernel
/-- mypy refusing a file: its line is printed as it is, exit status 1 -/
example : runWith { demoIn with mypy := .failed ["refurb: can't read file 'nope.py': No such file or directory".toList] } sAll
    = .printed "refurb: can't read file 'nope.py': No such file or directory\n".toList 1 := by decide +kernel

/-- (e) at work -/
theorem demo_paths : PathsIdentify [demoA, demoB] := by unfold PathsIdentify; decide
example : runWith { demoIn with mypy := .built [demoB, demoA] } sAll = runWith demoIn sAll :=
  (run_files_perm demoIn sAll [demoA, demoB] [demoB, demoA] rfl (List.Perm.swap demoB demoA []) demo_paths rfl).2
example : runWith { demoIn with mypy := .built [demoB, demoA] } sAll = runWith demoIn sAll := by decide +kernel

/-- (d): the hypotheses of `run_noqa_local` are satisfiable — C08's form-feed program (`ffBefore`/`ffAfter`: a bare
    `# noqa` appended to line 3) as the one file of a run under the repaired line splitter -/
def ffPath : Str := ['f', '.', 'p', 'y']

def ffFile (src : Str) : FileIn :=
  { path := ffPath, rel := ffPath, dump := [], source := src
    raw := [⟨3, 4, "FURB".toList, 123, "m".toList⟩, ⟨4, 4, "FURB".toList, 123, "m".toList⟩] }

def ffIn : RunInput := { demoIn with mypy := .built [ffFile C08.ffBefore] }

def ffSAt : Str → Nat → C08.Annot := fun f n => if f = ffPath ∧ n = 3 then .bare [' ', ' '] [] else .none

theorem ff_sameButSource : SameButSource [ffFile C08.ffBefore] [ffFile C08.ffAfter] := by
  simp [SameButSource, dropSource, ffFile]

theorem ff_run_annotated : C08.Annotated nlCfg (srcOf [ffFile C08.ffBefore]) (srcOf [ffFile C08.ffAfter]) ffSAt := by
  have hsrc : ∀ src p, srcOf [ffFile src] p = if ffPath = p then src else [] := by
    intro src p
    simp only [srcOf, ffFile, List.find?_cons, List.find?_nil]
    by_cases h : ffPath = p
    · simp [h]
    · have hb : (ffPath == p) = false := by simpa using h
      simp [hb, h]
  refine { lines := ?_, wf := ?_, free := ?_, agree := fun _ c _ => C08.nlCfg_splits c, agree' := fun _ c _ => C08.nlCfg_splits c }
  · intro f
    rw [hsrc, hsrc]
    by_cases h : ffPath = f
    · have hS : ffSAt f = C08.ffS := by
        funext n; simp [ffSAt, C08.ffS, h.symm]
      simp only [h, ↓reduceIte, hS]
      exact C08.ff_annotated.lines []
    · have hS : ffSAt f = fun _ => C08.Annot.none := by
        funext n
        have : ¬ (f = ffPath ∧ n = 3) := fun hc => h hc.1.symm
        simp only [ffSAt]
        rw [if_neg this]
      simp only [h, ↓reduceIte, hS]
      rfl
  · intro f n
    unfold ffSAt
    split
    · exact ⟨by decide, by simp⟩
    · trivial
  · intro f n l hne hl
    unfold ffSAt at hne
    split at hne
    · rename_i hc
      rw [hsrc] at hl
      simp only [hc.1, ↓reduceIte] at hl
      have h3 : C08.ffS (n + 1) ≠ .none := by simp [C08.ffS, hc.2]
      exact C08.ff_annotated.free [] n l h3 hl
    · exact absurd rfl hne

theorem ff_run_inRange : C08.InRange (srcOf [ffFile C08.ffBefore]) (collected sAll ffIn.checks [ffFile C08.ffBefore]) := by
  intro d hd
  have : collected sAll ffIn.checks [ffFile C08.ffBefore]
      = [.diag ⟨ffPath, 3, 4, "FURB".toList, 123, "m".toList⟩, .diag ⟨ffPath, 4, 4, "FURB".toList, 123, "m".toList⟩] := by
    decide +kernel
  rw [this] at hd
  simp only [List.mem_cons, Item.diag.injEq, List.not_mem_nil, or_false] at hd
  rcases hd with rfl | rfl <;> decide +kernel

/-- all hypotheses of (d) at once -/
example : runRefurb { ffIn with mypy := .built [ffFile C08.ffAfter] } sAll
    = (runRefurb ffIn sAll).map (List.filter (fun it => !atLine ffPath 3 it)) :=
  run_noqa_local ffIn sAll [ffFile C08.ffBefore] [ffFile C08.ffAfter] ffPath 3 [' ', ' '] [] ffSAt rfl ff_sameButSource
    (by decide) ff_run_annotated (fun _ _ => rfl) ff_run_inRange

/-- (d) at work: the comment on line 3 removes the diagnostic of line 3 and keeps the one of line 4 -/
example : runWith ffIn sAll = .printed "f.py:3:5 [FURB123]: m\nf.py:4:5 [FURB123]: m\n".toList 1 := by decide +kernel
example : runWith { ffIn with mypy := .built [ffFile C08.ffAfter] } sAll = .printed "f.py:4:5 [FURB123]: m\n".toList 1 := by
  decide +kernel

end RefurbVerif.C10
