/-
C07 — reported positions are real token positions inside the reported file.

All statements are for files, layouts and statement lists of any size.  What mypy does (a node carries the
line / UTF-8 byte column of its first token, and the end of its last token) is an ASSUMPTION, stated as
`FirstTokenInvariant` (and built into `AbcLayout.valueSpan` / `TabsLayout.funcSpan`); the harness validates it
on every diagnostic it sees (tokenizer oracle) and on the enumerated layouts (correspondence).
-/
import RefurbVerif.Model.Pos
import RefurbVerif.Generated.Positions

namespace RefurbVerif.C07
open RefurbVerif RefurbVerif.Pos

/-! ### Copied positions (`Error.from_node`) -/

theorem mem_streamFrom (f : SrcFile) (k : Nat) (q : Nat × Tok) (h : q ∈ streamFrom k f) :
    k ≤ q.1 ∧ q.1 < k + f.length ∧ ∃ l, f[q.1 - k]? = some l ∧ q.2 ∈ l.toks := by
  induction f generalizing k with
  | nil => simp [streamFrom] at h
  | cons l ls ih =>
    simp only [streamFrom, List.mem_append, List.mem_map] at h
    rcases h with ⟨t, ht, rfl⟩ | h
    · refine ⟨Nat.le_refl _, by simp, l, by simp, ht⟩
    · obtain ⟨h1, h2, l', h3, h4⟩ := ih (k + 1) h
      refine ⟨by omega, by simp only [List.length_cons]; omega, l', ?_, h4⟩
      have : q.1 - k = (q.1 - (k + 1)) + 1 := by omega
      rw [this, List.getElem?_cons_succ]; exact h3

theorem lineAt_of_stream (f : SrcFile) (q : Nat × Tok) (h : q ∈ stream f) :
    1 ≤ q.1 ∧ q.1 ≤ f.length ∧ ∃ l, lineAt f (q.1 : Int) = some l ∧ l ∈ f ∧ q.2 ∈ l.toks := by
  obtain ⟨h1, h2, l, h3, h4⟩ := mem_streamFrom f 1 q h
  refine ⟨h1, by omega, l, ?_, List.mem_of_getElem? h3, h4⟩
  unfold lineAt
  have : (1 : Int) ≤ (q.1 : Int) := by omega
  simp only [this, if_true]
  have : ((q.1 : Int) - 1).toNat = q.1 - 1 := by omega
  rw [this]; exact h3

/-- **from_node_valid.** If mypy gives every node the position of its first token (the assumption) and the
    token table is well formed, then every diagnostic made by `Error.from_node`, as printed (`column + 1`),
    names an existing line, a column inside that line, and a place where a token of the file starts. -/
theorem from_node_valid (p : Parse) (hinv : FirstTokenInvariant p) (hwf : WellFormed p.file)
    (n : Node) (hn : n ∈ p.nodes) : ValidPos p.file (render (fromNode n.span)) := by
  obtain ⟨q, hq, hl, hc⟩ := hinv n hn
  obtain ⟨h1, h2, l, h3, hlf, h4⟩ := lineAt_of_stream p.file q (List.mem_of_getElem? hq)
  have hb := (hwf l hlf q.2 h4).1
  simp only [render, fromNode, ValidPos, hl, hc]
  refine ⟨by omega, by omega, by omega, ⟨l, h3, by omega⟩, l, h3, q.2, h4, rfl⟩

/-- the harness' executable verdict (`pos_check` verb) is exactly `ValidPos` -/
theorem validPosB_iff (f : SrcFile) (p : Int × Int) : validPosB f p = true ↔ ValidPos f p := by
  unfold validPosB ValidPos lineOk colOk tokOk tokenStartsAt
  cases h : lineAt f p.1 with
  | none => simp
  | some l =>
    simp only [Bool.and_eq_true, decide_eq_true_eq, List.any_eq_true, Option.some.injEq, exists_eq_left']
    constructor
    · rintro ⟨⟨⟨a, b⟩, c, d⟩, t, ht, e⟩; exact ⟨a, b, c, d, t, ht, e⟩
    · rintro ⟨a, b, c, d, t, ht, e⟩; exact ⟨⟨⟨a, b⟩, c, d⟩, t, ht, e⟩

/-- a printed position that is valid in some file has a positive line and column: a negative or zero
    column (or one printed zero-based for the first token of a line) can never be valid -/
theorem valid_positive (f : SrcFile) (p : Int × Int) (h : ValidPos f p) : 1 ≤ p.1 ∧ 1 ≤ p.2 := ⟨h.1, h.2.2.1⟩

/-! ### One-based rendering -/

/-- **never_zero_based.** All three output formats print the stored line and the stored column plus one —
    the same pair `render` that the theorems of this file are about. -/
theorem never_zero_based (file pfx msg rel : Str) (code : Nat) (e : Err) :
    (render e).2 = e.col + 1
    ∧ formatPlain (toDiag file pfx code msg e)
        = file ++ [':'] ++ intChars (render e).1 ++ [':'] ++ intChars (render e).2 ++ [' ', '['] ++ (pfx ++ natChars code)
            ++ [']', ':', ' '] ++ msg
    ∧ formatGithub rel (toDiag file pfx code msg e)
        = "::error line=".toList ++ intChars (render e).1 ++ ",col=".toList ++ intChars (render e).2
            ++ ",title=Refurb ".toList ++ (pfx ++ natChars code) ++ ",file=".toList ++ rel ++ [':', ':'] ++ msg
    ∧ formatColor (toDiag file pfx code msg e)
        = blue ++ file ++ reset ++ gray ++ [':'] ++ intChars (render e).1 ++ [':'] ++ intChars (render e).2 ++ reset
            ++ [' '] ++ yellow ++ ['['] ++ (pfx ++ natChars code) ++ [']'] ++ reset ++ gray ++ [':'] ++ reset ++ [' ']
            ++ colorMsg msg := by
  exact ⟨rfl, rfl, rfl, rfl⟩

/-! ### FURB113: the position of the previous statement -/

/-- every error of the loop, started in state `last`, sits either at `last`'s stored position — and then the
    list starts with an `append` equivalent to the statement `last` holds — or at an `append` statement of the
    list that is directly followed by an equivalent `append` -/
theorem extendLoop_sound (last : Last) (stmts : List Stmt) (e : Err) (he : e ∈ extendLoop last stmts) :
    (∃ t post, stmts = t :: post ∧ last.expr.isSome ∧ t.app = last.expr ∧ e.line = last.line ∧ e.col = last.col)
    ∨ ∃ pre s t post, stmts = pre ++ s :: t :: post ∧ s.app.isSome ∧ s.app = t.app
        ∧ e.line = s.span.line ∧ e.col = s.span.col := by
  induction stmts generalizing last with
  | nil => simp [extendLoop] at he
  | cons s rest ih =>
    simp only [extendLoop, List.mem_append] at he
    cases hk : s.app with
    | none =>
      simp only [extendStep, hk, Option.toList, List.not_mem_nil, false_or] at he
      rcases ih _ he with ⟨t, post, _, hs, _⟩ | ⟨pre, a, b, post, rfl, ha, hab, hl, hc⟩
      · simp at hs
      · right; exact ⟨s :: pre, a, b, post, rfl, ha, hab, hl, hc⟩
    | some k =>
      simp only [extendStep, hk] at he
      rcases he with he | he
      · left
        split at he
        · rename_i hf
          simp only [Option.toList, List.mem_singleton] at he
          subst he
          simp only [Bool.and_eq_true, beq_iff_eq] at hf
          exact ⟨s, rest, rfl, by simp [hf.2], by rw [hk, hf.2], rfl, rfl⟩
        · simp at he
      · right
        rcases ih _ he with ⟨t, post, rfl, _, ht, hl, hc⟩ | ⟨pre, a, b, post, rfl, ha, hab, hl, hc⟩
        · exact ⟨[], s, t, post, rfl, by simp [hk], by rw [hk, ht], hl, hc⟩
        · exact ⟨s :: pre, a, b, post, rfl, ha, hab, hl, hc⟩

/-- **FURB113 reports a statement of the same block**: the first of two consecutive equivalent
    `x.append(…)` statements. -/
theorem list_extend_reports_member (stmts : List Stmt) (e : Err) (he : e ∈ listExtend stmts) :
    ∃ pre s t post, stmts = pre ++ s :: t :: post ∧ s.app.isSome ∧ s.app = t.app
      ∧ e.line = s.span.line ∧ e.col = s.span.col := by
  rcases extendLoop_sound {} stmts e he with ⟨_, _, _, h, _⟩ | h
  · simp at h
  · exact h

/-- **list_extend_valid.** The position FURB113 computes is the position of a statement of the block it was
    given, so — under the same assumption about mypy — it is a real token position. -/
theorem list_extend_valid (p : Parse) (hinv : FirstTokenInvariant p) (hwf : WellFormed p.file)
    (block : List (Node × Option Nat)) (hb : ∀ s ∈ block, s.1 ∈ p.nodes)
    (e : Err) (he : e ∈ listExtend (block.map fun s => ⟨s.1.span, s.2⟩)) : ValidPos p.file (render e) := by
  obtain ⟨pre, s, t, post, hs, _, _, hl, hc⟩ := list_extend_reports_member _ e he
  have hmem : s ∈ block.map (fun s => (⟨s.1.span, s.2⟩ : Stmt)) := by rw [hs]; simp
  obtain ⟨b, hb1, rfl⟩ := List.mem_map.mp hmem
  have := from_node_valid p hinv hwf b.1 (hb b hb1)
  simp only [render, fromNode] at this ⊢
  simp only [hl, hc]; exact this

/-! ### Layout arithmetic -/

theorem run_append (p : Loc) (a b : List Piece) : p.run (a ++ b) = (p.run a).run b := by
  simp [Loc.run, List.foldl_append]

theorem run_no_nl (p : Loc) (ps : List Piece) (h : hasNl ps = false) : p.run ps = ⟨p.line, p.col + width ps⟩ := by
  induction ps generalizing p with
  | nil => simp [Loc.run, width]
  | cons x r ih =>
    cases x with
    | bytes n =>
      have hr : hasNl r = false := by simpa [hasNl] using h
      have := ih (p.step (.bytes n)) hr
      simp only [Loc.run, List.foldl_cons] at this ⊢
      rw [this]; simp [Loc.step, width]; omega
    | nl => simp [hasNl] at h

theorem run_line_le (p : Loc) (ps : List Piece) : p.line ≤ (p.run ps).line := by
  induction ps generalizing p with
  | nil => simp [Loc.run]
  | cons x r ih =>
    have := ih (p.step x)
    simp only [Loc.run, List.foldl_cons] at this ⊢
    cases x <;> simp [Loc.step] at this ⊢ <;> omega

theorem run_line_lt_of_nl (p : Loc) (ps : List Piece) (h : hasNl ps = true) : p.line < (p.run ps).line := by
  induction ps generalizing p with
  | nil => simp [hasNl] at h
  | cons x r ih =>
    cases x with
    | bytes n =>
      have hr : hasNl r = true := by simpa [hasNl] using h
      have := ih (p.step (.bytes n)) hr
      simpa [Loc.run, Loc.step] using this
    | nl =>
      have := run_line_le (p.step .nl) r
      simp only [Loc.run, List.foldl_cons] at this ⊢
      simp [Loc.step] at this ⊢; omega

/-! ### FURB180: `metaclass.column - 10` -/

/-- The full statement: whatever the layout of `class C(…, metaclass <gap> = <gap> V)` (keyword spelled in
    ASCII), the printed position is the start of the `metaclass` token. -/
def AbcValid : Prop := ∀ l : AbcLayout, l.klen = 9 → render l.reported = l.kw.printed

/-- the witness: `class A(` / `  metaclass` / `=` / `ABCMeta):` — the value on its own line at column 0 -/
def abcWitness : AbcLayout := { pre := [.bytes 8, .nl, .bytes 2], g1 := [.nl], g2 := [.nl] }

/-- **abc_refuted.** The full statement is false of the current code: for the witness the stored column is
    −10, printed `-9`, on the line of the value instead of the line of the keyword. -/
theorem abc_refuted : ¬ AbcValid := by
  intro h
  have := h abcWitness rfl
  revert this; decide

theorem abc_witness_printed : render abcWitness.reported = (4, -9) ∧ abcWitness.kw.printed = (2, 3) := by decide

/-- the exact condition: the reported position is the keyword iff the value's first token is on the
    keyword's line, exactly ten bytes to the right -/
theorem abc_iff (l : AbcLayout) :
    render l.reported = l.kw.printed ↔ (l.value.line = l.kw.line ∧ l.value.col = l.kw.col + 10) := by
  simp only [render, AbcLayout.reported, abcShorthand, AbcLayout.valueSpan, Loc.printed, Prod.mk.injEq]
  omega

/-- when keyword, `=` and value share a line: correct iff keyword length + gap bytes = 9, i.e. (ASCII
    keyword) iff there is nothing at all between `metaclass`, `=` and the value; otherwise the printed column is
    off by the number of extra bytes (`metaclass = ABCMeta` → two to the right, inside the word) -/
theorem abc_same_line (l : AbcLayout) (h1 : hasNl l.g1 = false) (h2 : hasNl l.g2 = false) :
    render l.reported = ((l.kw.line : Int), (l.kw.col : Int) + 1 + ((l.klen + width l.g1 + width l.g2 : Nat) : Int) - 9) := by
  simp only [render, AbcLayout.reported, abcShorthand, AbcLayout.valueSpan, AbcLayout.value, AbcLayout.eq,
    Loc.right, run_no_nl _ _ h1, run_no_nl _ _ h2, Prod.mk.injEq]
  exact ⟨trivial, by omega⟩

/-- **abc_partial.** Keyword, `=` and value on one line with nothing between them (the layout of the golden
    file): the printed position is the start of `metaclass`. -/
theorem abc_partial (l : AbcLayout) (hk : l.klen = 9) (h1 : l.g1 = []) (h2 : l.g2 = []) :
    render l.reported = l.kw.printed := by
  rw [abc_same_line l (by simp [h1, hasNl]) (by simp [h2, hasNl])]
  simp [h1, h2, hk, width, Loc.printed]

/-- a value that starts within the first ten bytes of its line (e.g. on a continuation line of its own) is
    reported with a column ≤ 0: not a position of any file -/
theorem abc_nonpositive (l : AbcLayout) (h : l.value.col < 10) (f : SrcFile) : ¬ ValidPos f (render l.reported) := by
  intro hv
  have := (valid_positive f _ hv).2
  simp only [render, AbcLayout.reported, abcShorthand, AbcLayout.valueSpan] at this
  omega

/-- a line break anywhere between the keyword and the value puts the report on a different line than the keyword -/
theorem abc_other_line (l : AbcLayout) (h : hasNl l.g1 = true ∨ hasNl l.g2 = true) :
    (render l.reported).1 ≠ l.kw.printed.1 := by
  simp only [render, AbcLayout.reported, abcShorthand, AbcLayout.valueSpan, Loc.printed, AbcLayout.value, AbcLayout.eq]
  have a := run_line_le (l.kw.right l.klen) l.g1
  have b := run_line_le (((l.kw.right l.klen).run l.g1).right 1) l.g2
  simp only [Loc.right] at a b ⊢
  rcases h with h | h
  · have := run_line_lt_of_nl (l.kw.right l.klen) l.g1 h
    simp only [Loc.right] at this; omega
  · have := run_line_lt_of_nl (((l.kw.right l.klen).run l.g1).right 1) l.g2 h
    simp only [Loc.right] at this; omega

/-! ### FURB106: `func.end_column - len("replace")` on `func.line` -/

/-- The full statement for a given choice of the line field: whatever the layout of `recv … . … replace`
    (attribute spelled in ASCII), the printed position is the start of the `replace` token. -/
def TabsValid (lf : LineField) : Prop := ∀ l : TabsLayout, l.alen = 7 → render (l.reported lf) = l.attr.printed

/-- the witness: `t = (s` / `   .replace(…))` — receiver at 1:5, `replace` at 2:4 -/
def tabsWitness : TabsLayout := { pre := [.bytes 5], mid := [.bytes 1, .nl, .bytes 4] }

/-- **tabs_refuted.** With `func.line` (the current code) the statement is false: the witness is reported at
    line 1 (the receiver's) with the column of line 2. -/
theorem tabs_refuted : ¬ TabsValid .line := by
  intro h
  have := h tabsWitness rfl
  revert this; decide

theorem tabs_witness_printed : render (tabsWitness.reported .line) = (1, 5) ∧ tabsWitness.attr.printed = (2, 5) := by decide

theorem recv_line_pos (l : TabsLayout) : 1 ≤ l.recv.line := by
  have := run_line_le origin l.pre
  simpa [TabsLayout.recv, origin] using this

theorem attr_line_pos (l : TabsLayout) : 1 ≤ l.attr.line := by
  have := run_line_le l.recv l.mid
  have := recv_line_pos l
  simp only [TabsLayout.attr]; omega

/-- the column is always right (it is taken from the end of the attribute); the line is right iff the
    attribute name is on the line where the receiver STARTS -/
theorem tabs_iff (l : TabsLayout) (ha : l.alen = 7) :
    render (l.reported .line) = l.attr.printed ↔ l.attr.line = l.recv.line := by
  simp only [render, TabsLayout.reported, expandtabs, TabsLayout.funcSpan, Loc.printed, pyOr, truthy, Prod.mk.injEq, ha]
  by_cases h : ((l.attr.col : Int) + (7 : Nat)) != 0
  · simp; omega
  · simp at h; omega

/-- **tabs_partial.** No line break between the first token of the receiver and `replace`: the printed
    position is the start of `replace`. -/
theorem tabs_partial (l : TabsLayout) (ha : l.alen = 7) (h : hasNl l.mid = false) :
    render (l.reported .line) = l.attr.printed := by
  rw [tabs_iff l ha]
  simp [TabsLayout.attr, run_no_nl _ _ h]

/-- a line break between them: the printed line is not the line of `replace` -/
theorem tabs_other_line (l : TabsLayout) (h : hasNl l.mid = true) :
    (render (l.reported .line)).1 ≠ l.attr.printed.1 := by
  have := run_line_lt_of_nl l.recv l.mid h
  simp only [render, TabsLayout.reported, expandtabs, TabsLayout.funcSpan, Loc.printed, TabsLayout.attr] at this ⊢
  omega

/-- **tabs_fixed.** Taking the line from `func.end_line` (the proposed repair; `or func.line` for the type
    checker) makes the full statement true, for every layout. -/
theorem tabs_fixed : TabsValid .endLine := by
  intro l ha
  have h1 := attr_line_pos l
  simp only [render, TabsLayout.reported, expandtabs, TabsLayout.funcSpan, Loc.printed, pyOr, truthy, Prod.mk.injEq, ha]
  have hl : ((l.attr.line : Int) != 0) = true := by simp; omega
  have hc : (((l.attr.col : Int) + (7 : Nat)) != 0) = true := by simp; omega
  simp [hl]; omega

/-- what holds of the working tree, whichever side of the repair it is on: the full statement iff the
    probed line field is `endLine` -/
theorem tabs_current : TabsValid Generated.expandtabsLineField ↔ Generated.expandtabsLineField = .endLine := by
  cases h : Generated.expandtabsLineField with
  | line => simp [tabs_refuted]
  | endLine => simp [tabs_fixed]

/-! ### The checks that compute a position -/

/-- **Exactly three checks build an error by hand** (everything else goes through `Error.from_node`, to which
    `from_node_valid` applies): FURB113, FURB180, FURB106 — the three modelled above. A fourth would be unproved. -/
theorem computed_checks_pinned :
    (∀ c ∈ computedCodes Generated.positions, c ∈ [106, 113, 180])
    ∧ (∀ c ∈ [106, 113, 180], c ∈ computedCodes Generated.positions) := by decide +kernel

/-- every other check has at least one `from_node` site and nothing else -/
theorem other_checks_from_node :
    ∀ c ∈ Generated.positions, c.code ∉ [113, 180, 106] → c.sites ≠ [] ∧ c.sites.all PosSource.isFromNode = true := by
  decide +kernel

/-! ### Non-vacuity -/

/-- `x = int(0)` on line 2 of a two-line file: tokens `x`(0) `=`(2) `int`(4) `(`(7) `0`(8) `)`(9) -/
def demoFile : SrcFile :=
  [⟨8, [⟨0, 6⟩, ⟨7, 1⟩]⟩, ⟨10, [⟨0, 1⟩, ⟨2, 1⟩, ⟨4, 3⟩, ⟨7, 1⟩, ⟨8, 1⟩, ⟨9, 1⟩]⟩]
/-- the CallExpr `int(0)`: tokens 4..7 of the stream, line 2, column 4 -/
def demoCall : Node := { first := 4, last := 7, span := { line := 2, col := 4, endLine := some 2, endCol := some 10 } }
def demoParse : Parse := ⟨demoFile, [demoCall]⟩

example : FirstTokenInvariant demoParse := by
  intro n hn
  simp only [demoParse, List.mem_singleton] at hn
  subst hn
  exact ⟨(2, ⟨4, 3⟩), by decide, by decide, by decide⟩
example : WellFormed demoFile := by unfold WellFormed; decide
example : render (fromNode demoCall.span) = (2, 5) ∧ validPosB demoFile (2, 5) = true := by decide
example : validPosB demoFile (2, 4) = false ∧ validPosB demoFile (3, 1) = false ∧ validPosB demoFile (2, -9) = false := by decide
/-- `nums.append(1)` ×3 then another list: one error, at the first statement -/
example : listExtend [⟨{ line := 3, col := 0 }, some 1⟩, ⟨{ line := 4, col := 0 }, some 1⟩, ⟨{ line := 5, col := 0 }, some 1⟩,
    ⟨{ line := 6, col := 0 }, some 2⟩, ⟨{ line := 7, col := 0 }, none⟩, ⟨{ line := 8, col := 4 }, some 2⟩, ⟨{ line := 9, col := 4 }, some 2⟩]
    = [{ line := 3, col := 0 }, { line := 8, col := 4 }] := by decide
/-- `class Animal(metaclass=ABCMeta):` on line 10 (the golden file's layout): 10:14 -/
example : render ({ pre := [.bytes 3, .nl, .nl, .nl, .nl, .nl, .nl, .nl, .nl, .nl, .bytes 13], g1 := [], g2 := [] } : AbcLayout).reported = (10, 14) := by decide
/-- `class B(metaclass = ABCMeta)`: printed 11, the keyword is at 9 -/
example : render ({ pre := [.bytes 8], g1 := [.bytes 1], g2 := [.bytes 1] } : AbcLayout).reported = (1, 11) := by decide
example : render (tabsWitness.reported .endLine) = tabsWitness.attr.printed := by decide

end RefurbVerif.C07
