"""C01, statement-level part — checks whose advice is schematic ("Use `x.extend(...)`", "Return is redundant here",
"Replace `with open(x, ...) as f: f.write(y)` with `Path(x).write_text(y)`") or rewrites several statements.

`harness/rewrite.apply_rewrite` cannot derive the edit from such a message, so each case of CASES carries the rewritten
function body WRITTEN BY HAND, following exactly what the message and the "Good:" example of the check's docstring say.
The tie between the hand-written text and refurb is the message: all original bodies are linted in ONE refurb run and the
check must fire inside the case with a message matching the case's regex (a different or missing message is a
correspondence disagreement, not a violation — the hand-written rewrite is then about advice refurb no longer gives).
`new=None` cases have a concrete message; their edit is spliced by `rewrite.apply_rewrite` as in c01.py.
GUARD cases (opts fires=False) are programs just outside a check's guard: nothing must be reported; if the check does
fire there (a guard was weakened), the rewrite the message prescribes is executed like any other.  DEFECT cases
(opts fires="maybe") are programs on which refurb gives advice that changes behaviour (recorded findings): they are executed
while the advice is given and merely noted once a fix stops it.
Original and rewritten bodies are executed over typed argument sweeps and compared exactly as in c01.py (value with type,
raised-or-not, final argument state, stdout); file/OS idioms (opts fs=True) run inside a scratch directory with a fixed
fixture, and the directory tree (names, kinds, bytes, link targets, permission bits) afterwards is part of what is compared.
"""

from __future__ import annotations

import copy
import io
import os
import re
import stat
from contextlib import redirect_stdout
from pathlib import Path
from typing import Any

from .. import core, rewrite

EXTRA_PREAMBLE = '''\
import secrets
from abc import ABC, ABCMeta, abstractmethod
from contextlib import suppress
from datetime import datetime, timezone
from hashlib import sha256
from secrets import token_bytes, token_hex
from typing import NamedTuple


class Bag:
    # has append() like a list, but no extend(): list-only advice must not be given for it

    def __init__(self) -> None:
        self.items: list[int] = []

    def append(self, v: int) -> None:
        self.items.append(v)

    def __repr__(self) -> str:
        return f"Bag({self.items})"


class Maker:
    def __init__(self, n: int = 0) -> None:
        self.n = n

    @staticmethod
    def double(n: int) -> int:
        return 2 * n

    @classmethod
    def named(cls) -> str:
        return cls.__name__

    def plain(self) -> int:
        return self.n


def greet(name: str = "bob", punct: str = "!") -> str:
    return f"hello {name}{punct}"


TOTAL = 0
OTHER = 0


# look-alikes of the self-matching builtins in class patterns: only the builtins themselves (and plain subclasses) bind
# the whole subject to a single positional sub-pattern; a class with its own __match_args__ binds its first field
class PointNT(NamedTuple):
    px: int
    py: int


class TaggedList(list):  # type: ignore[type-arg]
    __match_args__ = ("tag",)
    tag: int = 7


class Stack(list):  # type: ignore[type-arg]
    pass


# subjects for the class-pattern cases (built HERE: a class pattern only matches instances of this module's classes)
MATCH_POOL: list[object] = [PointNT(1, 2), TaggedList(), Stack([1, 2]), (3, 4), [5], 6, "s"]
'''

# value pools for the annotations used below that c01.POOLS does not have ('expr' pools are evaluated in the case module)
STMT_POOLS: dict[str, list[Any]] = {
    "relpath": ["a.txt", "empty", "sub", "sub/b.bin", "missing", "sub/inner", "link", "new/deep", "crlf.txt", "latin1.txt", ""],
    "newpath": ["out.txt", "a.txt", "sub/out.bin", "missing/out.txt", "sub"],
    "bytespath": [b"a.txt", b"missing", b"sub"],
    "isodate": ["2023-02-21T02:23:15Z", "2023-02-21T02:23:15", "2023-02-21", "", "Z", "2023-02-21T02:23:15+00:00", "20230221T022315Z", "2023-02-21T02:23Z"],
    "tabbed": ["", "\t", "\tab", "\t\tab", "ab", "a\tb", " \tb", "\tab\tcd"],
    "prefixed": ["0x1f", "0b101", "0o17", "1f", "", "0x", "xx1f"],
    "mode": [0o700, 0o755],
    "matchidx": [0, 1, 2, 3, 4, 5, 6],
}
STMT_EXPR_POOLS: dict[str, list[str]] = {
    "Path": ['Path("a.txt")', 'Path("empty")', 'Path("sub")', 'Path("sub/b.bin")', 'Path("missing")', 'Path("link")', 'Path("new/deep")', 'Path("")', 'Path("notes.md")', 'Path(".md")', 'Path("sub/x.tar.md")'],
    "re.Pattern[str]": ['re.compile("a+")', 're.compile("(b)|c")', 're.compile("")', 're.compile("x.txt$")'],
    "Bag": ["Bag()"],
}
ANNOT = {"matchidx": "int", "relpath": "str", "newpath": "str", "bytespath": "bytes", "isodate": "str", "tabbed": "str", "prefixed": "str", "mode": "int"}

E = re.escape
R_APP = r"^Replace `{0}\.append\(\.\.\.\); {0}\.append\(\.\.\.\)` with `{0}\.extend\(\(\.\.\., \.\.\.\)\)`$"
R_RET = r"^Return is redundant here$"
R_CONT = r"^Continue is redundant here$"
R_ELSE = r"^Replace `else: return x` with `return x`$"
R_CASE = r"^Replace `case _: return x` with `return x`$"
R_COMP = r"^Consider using list comprehension$"
R_SWAP = r"^Use tuple unpacking instead of temporary variables to swap values$"
R_WITHASSIGN = r"^This variable is redeclared later, and can be removed here$"
R_SELF = r"^Remove redundant assignment of variable to itself$"
R_DEFAULT = r"^Don't pass an argument if it is the same as the default value$"


def lit(msg: str) -> str:
    return "^" + E(msg) + "$"


# (code, params, original body, rewritten body | None = splice the message, message regex, opts)
CASES: list[tuple[int, list[tuple[str, ...]], str, str | None, str, dict[str, Any]]] = [
    # ---- FURB113: consecutive appends -> one extend with a tuple
    (113, [("nums", "list[int]"), ("p", "int"), ("q", "int")], "nums.append(p)\nnums.append(q)\nreturn nums", "nums.extend((p, q))\nreturn nums", R_APP.format("nums"), {}),
    (113, [("nums", "list[int]"), ("p", "int"), ("q", "int")], "nums.append(p)\nnums.append(q)\nnums.append(p + q)\nreturn nums", "nums.extend((p, q, p + q))\nreturn nums", R_APP.format("nums"), {}),
    (113, [("words", "list[str]"), ("s", "str")], 'if s:\n    words.append(s)\n    words.append(s.upper())\nreturn words', 'if s:\n    words.extend((s, s.upper()))\nreturn words', R_APP.format("words"), {}),
    (113, [("nums", "list[int]"), ("p", "int")], "nums.append(p)\nnums.append(len(nums))\nreturn nums", "nums.extend((p, len(nums)))\nreturn nums", R_APP.format("nums"), {"fires": "maybe"}),
    (113, [("nums", "list[int]"), ("other", "list[int]"), ("p", "int")], "nums.append(p)\nnums.append(p + 1)\nreturn nums, other", "nums.extend((p, p + 1))\nreturn nums, other", R_APP.format("nums"), {"alias": [(0, 1)]}),
    # three and four appends where one in the middle READS the list: whatever run refurb reports, merging the run that starts at the
    # reported line must not move the read across an append (the rewrite is built from the reported position)
    (113, [("nums", "list[int]"), ("p", "int"), ("q", "int")], "nums.append(p)\nnums.append(len(nums))\nnums.append(q)\nreturn nums", None, R_APP.format("nums"), {"auto113": True, "fires": "maybe"}),
    (113, [("nums", "list[int]"), ("p", "int"), ("q", "int")], "nums.append(p)\nnums.append(q)\nnums.append(nums[0])\nnums.append(p + q)\nreturn nums", None, R_APP.format("nums"), {"auto113": True, "fires": "maybe"}),
    (113, [("nums", "list[int]"), ("p", "int"), ("q", "int")], "nums.append(len(nums))\nnums.append(p)\nnums.append(sum(nums))\nnums.append(q)\nreturn nums", None, R_APP.format("nums"), {"auto113": True, "fires": "maybe"}),
    # guards: two different lists; something in between; not a list
    (113, [("nums", "list[int]"), ("other", "list[int]"), ("p", "int")], "nums.append(p)\nother.append(p)\nreturn nums, other", "nums.extend((p, p))\nreturn nums, other", R_APP.format(r"\w+"), {"fires": False}),
    (113, [("nums", "list[int]"), ("other", "list[int]"), ("p", "int")], "nums.append(p)\nother = nums[:]\nnums.append(p)\nreturn nums, other", "nums.extend((p, p))\nother = nums[:]\nreturn nums, other", R_APP.format(r"\w+"), {"fires": False}),
    (113, [("bag", "Bag"), ("p", "int")], "bag.append(p)\nbag.append(p)\nreturn bag", "bag.extend((p, p))\nreturn bag", R_APP.format(r"\w+"), {"fires": False}),
    # ---- FURB125: a return at the end of the control flow
    (125, [("p", "int")], "print(p)\nreturn", "print(p)", R_RET, {}),
    (125, [("p", "int")], "if p > 0:\n    print(1)\nelse:\n    print(2)\n    return", "if p > 0:\n    print(1)\nelse:\n    print(2)", R_RET, {}),
    (125, [("p", "int")], "if p > 0:\n    print(1)\nelif p < 0:\n    print(2)\nelse:\n    return", "if p > 0:\n    print(1)\nelif p < 0:\n    print(2)\nelse:\n    pass", R_RET, {}),
    (125, [("p", "int")], "with suppress(ValueError):\n    print(p)\n    return", "with suppress(ValueError):\n    print(p)", R_RET, {}),
    (125, [("p", "int")], "match p:\n    case 0:\n        print(0)\n        return\n    case 1:\n        return\n    case _:\n        print(2)", "match p:\n    case 0:\n        print(0)\n    case 1:\n        return\n    case _:\n        print(2)", R_RET, {}),
    # guards: a return that carries a value; a return that is not last; a return in a loop
    (125, [("p", "int")], "print(p)\nreturn p", "print(p)", R_RET, {"fires": False}),
    (125, [("p", "int")], "if p > 0:\n    print(1)\n    return\nelse:\n    print(2)\nprint(3)", "if p > 0:\n    print(1)\nelse:\n    print(2)\nprint(3)", R_RET, {"fires": False}),
    (125, [("nums", "list[int]")], "for e in nums:\n    print(e)\n    return", "for e in nums:\n    print(e)", R_RET, {"fires": False}),
    (125, [("p", "int")], "if p > 0:\n    print(1)\n    return\nprint(2)", "if p > 0:\n    print(1)\nprint(2)", R_RET, {"fires": False}),
    # ---- FURB126: else: return x at the end of a function
    (126, [("p", "int"), ("q", "int")], "if p > q:\n    return p\nelse:\n    return q", "if p > q:\n    return p\nreturn q", R_ELSE, {}),
    (126, [("p", "int"), ("q", "int")], "if p > q:\n    return 1\nelif p < q:\n    return -1\nelse:\n    return 0", "if p > q:\n    return 1\nelif p < q:\n    return -1\nreturn 0", R_ELSE, {}),
    (126, [("p", "int")], "print(p)\nif p:\n    print(1)\n    return p\nelse:\n    return -p", "print(p)\nif p:\n    print(1)\n    return p\nreturn -p", R_ELSE, {}),
    (126, [("p", "int")], "match p:\n    case 0 | 1:\n        return True\n    case _:\n        return False", "match p:\n    case 0 | 1:\n        return True\nreturn False", R_CASE, {}),
    # guards: the if-branch does not return
    (126, [("p", "int")], "if p:\n    print(1)\nelse:\n    return 2\nreturn 3", "if p:\n    print(1)\nreturn 2\nreturn 3", R_ELSE, {"fires": False}),
    (126, [("p", "int")], "if p:\n    print(1)\nelse:\n    return 2", "if p:\n    print(1)\nreturn 2", R_ELSE, {"fires": False}),
    (126, [("p", "int")], "match p:\n    case 0:\n        print(0)\n    case _:\n        return 2", "match p:\n    case 0:\n        print(0)\nreturn 2", R_CASE, {"fires": False}),
    (126, [("p", "int")], "match p:\n    case 0:\n        return 1\n    case 1:\n        print(1)\n    case _:\n        return 2", "match p:\n    case 0:\n        return 1\n    case 1:\n        print(1)\nreturn 2", R_CASE, {"fires": False}),
    # ---- FURB127: an assignment that a following `with` block makes again
    (127, [("name", "relpath")], 'data = ""\nwith open(name) as fh:\n    data = fh.read()\nreturn data', "with open(name) as fh:\n    data = fh.read()\nreturn data", R_WITHASSIGN, {"fs": True}),
    (127, [("name", "relpath")], 'data = name\nwith open(data) as fh:\n    data = fh.read()\nreturn data', "with open(data) as fh:\n    data = fh.read()\nreturn data", R_WITHASSIGN, {"fs": True, "fires": "maybe"}),
    (127, [("name", "relpath")], 'data = ""\nwith suppress(OSError):\n    data = open(name).read()\nreturn data', "with suppress(OSError):\n    data = open(name).read()\nreturn data", R_WITHASSIGN, {"fs": True, "fires": False}),
    # ---- FURB128: swap through a temporary -> tuple assignment (inside a nested block: at the top level of a function mypy's
    #      redefinition renaming hides the pattern from the check)
    (128, [("p", "int"), ("q", "int")], "for _ in range(1):\n    tmp = p\n    p = q\n    q = tmp\nreturn p, q", "for _ in range(1):\n    p, q = q, p\nreturn p, q", R_SWAP, {}),
    (128, [("p", "object"), ("q", "object")], "if p is not q:\n    tmp = p\n    p = q\n    q = tmp\nreturn p, q", "if p is not q:\n    p, q = q, p\nreturn p, q", R_SWAP, {}),
    (128, [("nums", "list[int]"), ("other", "list[int]")], "for _ in range(3):\n    tmp = nums\n    nums = other\n    other = tmp\n    nums.append(0)\nreturn nums, other", "for _ in range(3):\n    nums, other = other, nums\n    nums.append(0)\nreturn nums, other", R_SWAP, {"alias": [(0, 1)]}),
    (128, [("nums", "list[int]"), ("other", "list[int]")], "for _ in range(3):\n    tmp = nums\n    nums = other\n    other = tmp\n    nums.append(0)\nreturn nums, other", "for _ in range(3):\n    nums, other = other, nums\n    nums.append(0)\nreturn nums, other", R_SWAP, {}),
    (128, [("p", "int"), ("q", "int")], "for _ in range(1):\n    tmp = p\n    p = q\n    q = tmp\n    print(tmp)\nreturn p, q", "for _ in range(1):\n    p, q = q, p\n    print(tmp)\nreturn p, q", R_SWAP, {"fires": "maybe"}),
    # guards: not a swap (third statement assigns another variable / reads another variable)
    (128, [("p", "int"), ("q", "int"), ("r", "int")], "for _ in range(1):\n    tmp = p\n    p = q\n    r = tmp\nreturn p, q, r", "for _ in range(1):\n    p, q = q, p\nreturn p, q, r", R_SWAP, {"fires": False}),
    (128, [("p", "int"), ("q", "int"), ("r", "int")], "for _ in range(1):\n    tmp = p\n    p = q\n    q = r\nreturn p, q, r", "for _ in range(1):\n    p, q = q, p\nreturn p, q, r", R_SWAP, {"fires": False}),
    (128, [("p", "int"), ("q", "int"), ("r", "int")], "for _ in range(1):\n    tmp = p\n    p = r\n    q = tmp\nreturn p, q, r", "for _ in range(1):\n    p, q = q, p\nreturn p, q, r", R_SWAP, {"fires": False}),
    # ---- FURB133: a continue at the end of the loop body
    (133, [("nums", "list[int]")], "acc = []\nfor e in nums:\n    acc.append(e)\n    continue\nreturn acc", "acc = []\nfor e in nums:\n    acc.append(e)\nreturn acc", R_CONT, {}),
    (133, [("nums", "list[int]")], "acc = []\nfor e in nums:\n    if e > 1:\n        acc.append(e)\n    else:\n        acc.append(-e)\n        continue\nreturn acc", "acc = []\nfor e in nums:\n    if e > 1:\n        acc.append(e)\n    else:\n        acc.append(-e)\nreturn acc", R_CONT, {}),
    (133, [("n", "int")], "acc = []\nwhile n > 0:\n    n -= 1\n    acc.append(n)\n    continue\nreturn acc", "acc = []\nwhile n > 0:\n    n -= 1\n    acc.append(n)\nreturn acc", R_CONT, {}),
    (133, [("nums", "list[int]")], "acc = []\nfor e in nums:\n    match e:\n        case 1:\n            acc.append(e)\n            continue\n        case _:\n            acc.append(0)\nreturn acc", "acc = []\nfor e in nums:\n    match e:\n        case 1:\n            acc.append(e)\n        case _:\n            acc.append(0)\nreturn acc", R_CONT, {}),
    # guards: a continue that skips the rest of the body
    (133, [("nums", "list[int]")], "acc = []\nfor e in nums:\n    if e > 1:\n        continue\n    acc.append(e)\nreturn acc", "acc = []\nfor e in nums:\n    if e > 1:\n        pass\n    acc.append(e)\nreturn acc", R_CONT, {"fires": False}),
    (133, [("nums", "list[int]")], "acc = []\nfor e in nums:\n    if e > 1:\n        acc.append(0)\n        continue\n    else:\n        acc.append(1)\n    acc.append(e)\nreturn acc", "acc = []\nfor e in nums:\n    if e > 1:\n        acc.append(0)\n    else:\n        acc.append(1)\n    acc.append(e)\nreturn acc", R_CONT, {"fires": False}),
    # ---- FURB138: loop-append -> list comprehension
    (138, [("nums", "list[int]")], "acc = []\nfor e in nums:\n    acc.append(e * 2)\nreturn acc", "acc = [e * 2 for e in nums]\nreturn acc", R_COMP, {}),
    (138, [("nums", "list[int]")], "acc = []\nfor e in nums:\n    if e % 2:\n        acc.append(e)\nreturn acc", "acc = [e for e in nums if e % 2]\nreturn acc", R_COMP, {}),
    (138, [("words", "list[str]")], "acc = []\nfor wd in words:\n    if wd:\n        acc.append(wd.upper())\nreturn acc", "acc = [wd.upper() for wd in words if wd]\nreturn acc", R_COMP, {}),
    (138, [("rows", "list[list[int]]")], "acc = []\nfor a1, *rest in [r0 for r0 in rows if r0]:\n    acc.append(a1)\nreturn acc", "acc = [a1 for a1, *rest in [r0 for r0 in rows if r0]]\nreturn acc", R_COMP, {}),
    (138, [("nums", "list[int]")], "acc = []\nfor e in nums:\n    if e not in acc:\n        acc.append(e)\nreturn acc", "acc = [e for e in nums if e not in acc]\nreturn acc", R_COMP, {"fires": "maybe"}),
    (138, [("nums", "list[int]")], "acc = []\nfor e in nums:\n    if len(acc) < 2:\n        acc.append(e)\nreturn acc", "acc = [e for e in nums if len(acc) < 2]\nreturn acc", R_COMP, {"fires": "maybe"}),
    (138, [("nums", "list[int]")], "e = -1\nacc = []\nfor e in nums:\n    acc.append(e)\nreturn acc, e", "e = -1\nacc = [e for e in nums]\nreturn acc, e", R_COMP, {"fires": "maybe"}),
    # guards: the appended value reads the list; an else branch; two statements in the body; another list
    (138, [("nums", "list[int]")], "acc = []\nfor e in nums:\n    acc.append(len(acc))\nreturn acc", "acc = [len(acc) for e in nums]\nreturn acc", R_COMP, {"fires": False}),
    (138, [("nums", "list[int]")], "acc = []\nfor e in nums:\n    if e % 2:\n        acc.append(e)\n    else:\n        acc.append(0)\nreturn acc", "acc = [e for e in nums if e % 2]\nreturn acc", R_COMP, {"fires": False}),
    (138, [("nums", "list[int]")], "acc = []\nfor e in nums:\n    acc.append(e)\n    print(e)\nreturn acc", "acc = [e for e in nums]\nreturn acc", R_COMP, {"fires": False}),
    (138, [("nums", "list[int]"), ("other", "list[int]")], "acc = []\nfor e in nums:\n    other.append(e)\nreturn acc, other", "acc = [e for e in nums]\nreturn acc, other", R_COMP, {"fires": False}),
    (138, [("nums", "list[int]")], "acc = [0]\nfor e in nums:\n    acc.append(e)\nreturn acc", "acc = [e for e in nums]\nreturn acc", R_COMP, {"fires": False}),
    # ---- FURB135 / FURB148: unused component of items() / enumerate()
    (135, [("d", "dict[str, int]")], "acc = []\nfor k0, _ in d.items():\n    acc.append(k0)\nreturn acc", "acc = []\nfor k0 in d:\n    acc.append(k0)\nreturn acc", lit("Value is unused, use `for k0 in d` instead"), {}),
    (135, [("d", "dict[str, int]")], "acc = []\nfor _, v0 in d.items():\n    acc.append(v0)\nreturn acc", "acc = []\nfor v0 in d.values():\n    acc.append(v0)\nreturn acc", lit("Key is unused, use `for v0 in d.values()` instead"), {}),
    (135, [("d", "dict[str, int]")], "return [k0 for k0, v0 in d.items() if k0]", "return [k0 for k0 in d if k0]", lit("Value is unused, use `for k0 in d` instead"), {}),
    (135, [("d", "dict[str, int]")], "return {v0: 1 for k0, v0 in d.items()}", "return {v0: 1 for v0 in d.values()}", lit("Key is unused, use `for v0 in d.values()` instead"), {}),
    (135, [("d", "dict[str, int]")], "k0 = v0 = None\nfor k0, v0 in d.items():\n    print(k0)\nreturn k0, v0", "k0 = v0 = None\nfor k0 in d:\n    print(k0)\nreturn k0, v0", lit("Value is unused, use `for k0 in d` instead"), {"fires": "maybe"}),
    (135, [("d", "dict[str, int]")], "acc = []\nfor k0, v0 in d.items():\n    acc.append((k0, v0))\nreturn acc", "acc = []\nfor k0 in d:\n    acc.append((k0, v0))\nreturn acc", r"is unused", {"fires": False}),
    (148, [("words", "list[str]")], "acc = []\nfor i0, _ in enumerate(words):\n    acc.append(i0)\nreturn acc", "acc = []\nfor i0 in range(len(words)):\n    acc.append(i0)\nreturn acc", lit("Value is unused, use `for i0 in range(len(words))` instead"), {}),
    (148, [("words", "list[str]")], "acc = []\nfor _, w0 in enumerate(words):\n    acc.append(w0)\nreturn acc", "acc = []\nfor w0 in words:\n    acc.append(w0)\nreturn acc", lit("Index is unused, use `for w0 in words` instead"), {}),
    (148, [("t", "tuple[int, ...]")], "return [i0 for i0, w0 in enumerate(t)]", "return [i0 for i0 in range(len(t))]", lit("Value is unused, use `for i0 in range(len(t))` instead"), {}),
    (148, [("s", "str")], "return {w0: 1 for i0, w0 in enumerate(s)}", "return {w0: 1 for w0 in s}", lit("Index is unused, use `for w0 in s` instead"), {}),
    (148, [("words", "list[str]")], "i0 = -1\nfor i0, w0 in enumerate(words):\n    print(w0)\nreturn i0", "i0 = -1\nfor w0 in words:\n    print(w0)\nreturn i0", lit("Index is unused, use `for w0 in words` instead"), {"fires": "maybe"}),
    (148, [("words", "list[str]")], "acc = []\nfor i0, w0 in enumerate(words):\n    acc.append((i0, w0))\nreturn acc", "acc = []\nfor w0 in words:\n    acc.append((i0, w0))\nreturn acc", r"is unused", {"fires": False}),
    # the loop name is read only in a nested scope / only as the default of a same-named parameter: still a read
    (135, [("d", "dict[str, int]")], 'acc = []\nfor k0, v0 in d.items():\n    acc.append((k0, (lambda v0=v0: v0)()))\nreturn acc', 'acc = []\nfor k0 in d:\n    acc.append((k0, (lambda v0=v0: v0)()))\nreturn acc', r"is unused", {"fires": False}),
    (148, [("words", "list[str]")], 'acc = []\nfor i0, w0 in enumerate(words):\n    acc.append((i0, (lambda w0=w0: w0)()))\nreturn acc', 'acc = []\nfor i0 in range(len(words)):\n    acc.append((i0, (lambda w0=w0: w0)()))\nreturn acc', r"is unused", {"fires": False}),
    (135, [("d", "dict[str, int]")], 'acc = []\nfor k0, v0 in d.items():\n    acc.append((k0, (lambda: v0)()))\nreturn acc', 'acc = []\nfor k0 in d:\n    acc.append((k0, (lambda: v0)()))\nreturn acc', r"is unused", {"fires": False}),
    (148, [("words", "list[str]")], 'acc = []\nfor i0, w0 in enumerate(words):\n    acc.append((i0, (lambda: w0)()))\nreturn acc', 'acc = []\nfor i0 in range(len(words)):\n    acc.append((i0, (lambda: w0)()))\nreturn acc', r"is unused", {"fires": False}),
    (135, [("d", "dict[str, int]")], 'acc = []\nfor k0, v0 in d.items():\n    acc.append((k0, [v0 for _ in range(1)][0]))\nreturn acc', 'acc = []\nfor k0 in d:\n    acc.append((k0, [v0 for _ in range(1)][0]))\nreturn acc', r"is unused", {"fires": False}),
    (148, [("words", "list[str]")], 'acc = []\nfor i0, w0 in enumerate(words):\n    acc.append((i0, [w0 for _ in range(1)][0]))\nreturn acc', 'acc = []\nfor i0 in range(len(words)):\n    acc.append((i0, [w0 for _ in range(1)][0]))\nreturn acc', r"is unused", {"fires": False}),
    (135, [("d", "dict[str, int]")], 'acc = []\nfor k0, v0 in d.items():\n    acc.append((k0, f"{v0}"))\nreturn acc', 'acc = []\nfor k0 in d:\n    acc.append((k0, f"{v0}"))\nreturn acc', r"is unused", {"fires": False}),
    (148, [("words", "list[str]")], 'acc = []\nfor i0, w0 in enumerate(words):\n    acc.append((i0, f"{w0}"))\nreturn acc', 'acc = []\nfor i0 in range(len(words)):\n    acc.append((i0, f"{w0}"))\nreturn acc', r"is unused", {"fires": False}),
    (135, [("d", "dict[str, int]")], 'acc = []\nfor k0, v0 in d.items():\n    acc.append((k0, (lambda q, v0=v0, *r, z=v0: (v0, z))(1)))\nreturn acc', 'acc = []\nfor k0 in d:\n    acc.append((k0, (lambda q, v0=v0, *r, z=v0: (v0, z))(1)))\nreturn acc', r"is unused", {"fires": False}),
    (148, [("words", "list[str]")], 'acc = []\nfor i0, w0 in enumerate(words):\n    acc.append((i0, (lambda q, w0=w0, *r, z=w0: (w0, z))(1)))\nreturn acc', 'acc = []\nfor i0 in range(len(words)):\n    acc.append((i0, (lambda q, w0=w0, *r, z=w0: (w0, z))(1)))\nreturn acc', r"is unused", {"fires": False}),
    (148, [("words", "list[str]")], 'acc = []\nfor i0, w0 in enumerate(words):\n    def show(w0=w0):\n        return w0\n    acc.append((i0, show()))\nreturn acc', 'acc = []\nfor i0 in range(len(words)):\n    def show(w0=w0):\n        return w0\n    acc.append((i0, show()))\nreturn acc', r"is unused", {"fires": False}),
    (135, [("d", "dict[str, int]")], 'acc = []\nfor k0, v0 in d.items():\n    def show(k0=k0):\n        return k0\n    acc.append((show(), v0))\nreturn acc', 'acc = []\nfor v0 in d.values():\n    def show(k0=k0):\n        return k0\n    acc.append((show(), v0))\nreturn acc', r"is unused", {"fires": False}),
    (148, [("words", "list[str]")], "acc = []\nfor i0, w0 in enumerate(words, 1):\n    acc.append(i0)\nreturn acc", "acc = []\nfor i0 in range(len(words)):\n    acc.append(i0)\nreturn acc", r"is unused", {"fires": False}),
    # ---- FURB107: try/except/pass -> with suppress()
    (107, [("nums", "list[int]"), ("p", "int")], "try:\n    nums.remove(p)\nexcept ValueError:\n    pass\nreturn nums", "with suppress(ValueError):\n    nums.remove(p)\nreturn nums", lit("Replace `try: ... except ValueError: pass` with `with suppress(ValueError): ...`"), {}),
    (107, [("d", "dict[str, int]"), ("s", "str")], "try:\n    return d[s] // len(s)\nexcept (KeyError, ZeroDivisionError):\n    pass\nreturn -1", "with suppress(KeyError, ZeroDivisionError):\n    return d[s] // len(s)\nreturn -1", lit("Replace `try: ... except (KeyError, ZeroDivisionError): pass` with `with suppress(KeyError, ZeroDivisionError): ...`"), {}),
    (107, [("nums", "list[int]"), ("p", "int")], "try:\n    print(nums[p])\n    nums.remove(p)\nexcept:\n    pass\nreturn nums", "with suppress(BaseException):\n    print(nums[p])\n    nums.remove(p)\nreturn nums", lit("Replace `try: ... except: pass` with `with suppress(BaseException): ...`"), {}),
    (107, [("nums", "list[int]"), ("p", "int")], "acc = []\nfor e in nums:\n    try:\n        acc.append(p // e)\n        continue\n    except ZeroDivisionError:\n        pass\n    acc.append(0)\nreturn acc", "acc = []\nfor e in nums:\n    with suppress(ZeroDivisionError):\n        acc.append(p // e)\n        continue\n    acc.append(0)\nreturn acc", lit("Replace `try: ... except ZeroDivisionError: pass` with `with suppress(ZeroDivisionError): ...`"), {}),
    (107, [("nums", "list[int]"), ("p", "int")], "try:\n    nums.remove(p)\nexcept ValueError:\n    pass\nelse:\n    nums.append(0)\nreturn nums", "with suppress(ValueError):\n    nums.remove(p)\nreturn nums", r"suppress", {"fires": False}),
    (107, [("nums", "list[int]"), ("p", "int")], "try:\n    nums.remove(p)\nexcept ValueError:\n    print(p)\nreturn nums", "with suppress(ValueError):\n    nums.remove(p)\nreturn nums", r"suppress", {"fires": False}),
    # ---- FURB160 / FURB154 / FURB158 / FURB134 / FURB165 / FURB180 / FURB182 / FURB184
    (160, [("p", "int")], "q0 = p\nq0 = q0\nreturn q0", "q0 = p\nreturn q0", R_SELF, {}),
    (160, [("nums", "list[int]")], "nums = nums\nnums.append(1)\nreturn nums", "nums.append(1)\nreturn nums", R_SELF, {}),
    (154, [("p", "int")], "global TOTAL\nglobal OTHER\nTOTAL = p\nOTHER = p + 1\nreturn TOTAL, OTHER", "global TOTAL, OTHER\nTOTAL = p\nOTHER = p + 1\nreturn TOTAL, OTHER", lit("Replace `global x; global y` with `global x, y`"), {}),
    (154, [("p", "int")], "a1 = b1 = c1 = 0\ndef inner():\n    nonlocal a1\n    nonlocal b1\n    nonlocal c1\n    a1 = b1 = c1 = p\ninner()\nreturn a1, b1, c1", "a1 = b1 = c1 = 0\ndef inner():\n    nonlocal a1, b1, c1\n    a1 = b1 = c1 = p\ninner()\nreturn a1, b1, c1", lit("Replace `nonlocal x; nonlocal y; ...` with `nonlocal x, y, ...`"), {}),
    (158, [("p", "object")], 'match p:\n    case str() as s0:\n        return "s" + s0\n    case int() as n0:\n        return n0 + 1\n    case list() as l0:\n        return l0\nreturn None', 'match p:\n    case str(s0):\n        return "s" + s0\n    case int() as n0:\n        return n0 + 1\n    case list() as l0:\n        return l0\nreturn None', lit("Replace `str() as s0` with `str(s0)`"), {}),
    (158, [("p", "object")], 'match p:\n    case bool() as b1:\n        return ("b", b1)\n    case float() as f1:\n        return ("f", f1)\n    case tuple() as t1:\n        return ("t", t1)\nreturn None', 'match p:\n    case bool() as b1:\n        return ("b", b1)\n    case float(f1):\n        return ("f", f1)\n    case tuple() as t1:\n        return ("t", t1)\nreturn None', lit("Replace `float() as f1` with `float(f1)`"), {}),
    (158, [("p", "object")], 'match p:\n    case bool() as b1:\n        return ("b", b1)\n    case float() as f1:\n        return ("f", f1)\n    case tuple() as t1:\n        return ("t", t1)\nreturn None', 'match p:\n    case bool() as b1:\n        return ("b", b1)\n    case float() as f1:\n        return ("f", f1)\n    case tuple(t1):\n        return ("t", t1)\nreturn None', lit("Replace `tuple() as t1` with `tuple(t1)`"), {}),
    # guards: classes that merely derive from a self-matching builtin (a NamedTuple, a dataclass on a list base, a plain subclass)
    (158, [("k", "matchidx")], 'p = MATCH_POOL[k]\nmatch p:\n    case PointNT() as v0:\n        return ("nt", v0)\n    case _:\n        return ("other", p)', 'p = MATCH_POOL[k]\nmatch p:\n    case PointNT(v0):\n        return ("nt", v0)\n    case _:\n        return ("other", p)', r"^Replace `PointNT\(\) as v0` with", {"fires": False}),
    (158, [("k", "matchidx")], 'p = MATCH_POOL[k]\nmatch p:\n    case TaggedList() as v1:\n        return ("tl", v1)\n    case _:\n        return ("other", p)', 'p = MATCH_POOL[k]\nmatch p:\n    case TaggedList(v1):\n        return ("tl", v1)\n    case _:\n        return ("other", p)', r"^Replace `TaggedList\(\) as v1` with", {"fires": False}),
    (158, [("k", "matchidx")], 'p = MATCH_POOL[k]\nmatch p:\n    case Stack() as v2:\n        return ("st", v2)\n    case _:\n        return ("other", p)', 'p = MATCH_POOL[k]\nmatch p:\n    case Stack(v2):\n        return ("st", v2)\n    case _:\n        return ("other", p)', r"^Replace `Stack\(\) as v2` with", {"fires": False}),
    (134, [("nums", "list[int]")], "calls = []\n@lru_cache(maxsize=None)\ndef sq(a1: int) -> int:\n    calls.append(a1)\n    return a1 * a1\nout = [sq(e) for e in nums + nums]\nreturn out, calls, sq.cache_info()", "calls = []\n@cache\ndef sq(a1: int) -> int:\n    calls.append(a1)\n    return a1 * a1\nout = [sq(e) for e in nums + nums]\nreturn out, calls, sq.cache_info()", lit("Replace `@lru_cache(maxsize=None)` with `@cache`"), {}),
    (134, [("nums", "list[int]")], "@functools.lru_cache(maxsize=None)\ndef sq(a1: int) -> int:\n    return a1 * a1\nreturn [sq(e) for e in nums], sq.cache_info()", "@functools.cache\ndef sq(a1: int) -> int:\n    return a1 * a1\nreturn [sq(e) for e in nums], sq.cache_info()", lit("Replace `@functools.lru_cache(maxsize=None)` with `@functools.cache`"), {}),
    (134, [("nums", "list[int]")], "@lru_cache(maxsize=2)\ndef sq(a1: int) -> int:\n    return a1 * a1\nreturn [sq(e) for e in nums], sq.cache_info()", "@cache\ndef sq(a1: int) -> int:\n    return a1 * a1\nreturn [sq(e) for e in nums], sq.cache_info()", r"cache", {"fires": False}),
    (165, [("n", "int")], "return Maker().double(n)", "return Maker.double(n)", lit("Replace `Maker().double(...)` with `Maker.double(...)`"), {}),
    (165, [("n", "int")], "return Maker(n).named()", "return Maker.named()", lit("Replace `Maker(...).named()` with `Maker.named()`"), {}),
    (165, [("n", "int")], "return Maker(n).plain()", "return Maker.plain()", r"Maker", {"fires": False}),
    (180, [], "class Shape(metaclass=ABCMeta):\n    @abstractmethod\n    def area(self) -> int: ...\nclass Sq(Shape):\n    def area(self) -> int:\n        return 4\ntry:\n    Shape()\n    made = True\nexcept TypeError:\n    made = False\nreturn made, Sq().area(), isinstance(Sq(), Shape), type(Shape).__name__", "class Shape(ABC):\n    @abstractmethod\n    def area(self) -> int: ...\nclass Sq(Shape):\n    def area(self) -> int:\n        return 4\ntry:\n    Shape()\n    made = True\nexcept TypeError:\n    made = False\nreturn made, Sq().area(), isinstance(Sq(), Shape), type(Shape).__name__", lit("Replace `metaclass=ABCMeta` with `ABC`"), {}),
    (180, [("p", "int")], "class Base:\n    def __init__(self) -> None:\n        self.v = p\nclass Shape(Base, metaclass=ABCMeta):\n    pass\nreturn Shape().v, [c0.__name__ for c0 in Shape.__mro__ if c0.__name__ != 'ABC']", "class Base:\n    def __init__(self) -> None:\n        self.v = p\nclass Shape(Base, ABC):\n    pass\nreturn Shape().v, [c0.__name__ for c0 in Shape.__mro__ if c0.__name__ != 'ABC']", lit("Replace `metaclass=ABCMeta` with `ABC`"), {}),
    (182, [("bs", "bytes")], "h0 = sha256()\nh0.update(bs)\nreturn h0.hexdigest()", "h0 = sha256(bs)\nreturn h0.hexdigest()", lit("Replace `h0 = sha256(); h0.update(bs)` with `h0 = sha256(bs)`"), {}),
    (182, [("bs", "bytes")], "h0 = hashlib.md5()\nh0.update(bs + b'x')\nreturn h0.digest()", "h0 = hashlib.md5(bs + b'x')\nreturn h0.digest()", lit("Replace `h0 = hashlib.md5(); h0.update(bs + b\"x\")` with `h0 = hashlib.md5(bs + b\"x\")`"), {}),
    (182, [("bs", "bytes"), ("cs", "bytes")], "h0 = sha256()\nh0.update(bs)\nh0.update(cs)\nreturn h0.hexdigest()", "h0 = sha256(cs)\nh0.update(bs)\nreturn h0.hexdigest()", lit("Replace `h0 = sha256(); h0.update(cs)` with `h0 = sha256(cs)`"), {"fires": "maybe"}),
    (184, [("s", "str")], "t0 = s.strip()\nu0 = t0.lower()\nreturn u0", "u0 = s.strip().lower()\nreturn u0", r"^Assignment statement should be chained$", {}),
    (184, [("s", "str")], "t0 = s.strip()\nreturn t0.lower()", "return s.strip().lower()", r"^Return statement should be chained$", {}),
    (184, [("s", "str")], "t0 = s.strip()\nu0 = t0.lower()\nreturn u0, t0", "u0 = s.strip().lower()\nreturn u0, t0", r"should be chained$", {"fires": False}),
    # ---- FURB120: an argument equal to the default
    (120, [("d", "dict[str, int]"), ("s", "str")], "return d.get(s, None)", "return d.get(s)", R_DEFAULT, {}),
    (120, [("fl", "float")], "return round(fl, 0)", "return round(fl)", R_DEFAULT, {"fires": "maybe"}),
    (120, [("s", "str")], "return int(s.strip() or '0', 10)", "return int(s.strip() or '0')", R_DEFAULT, {}),
    (120, [("s", "str")], 'return greet("bob"), greet(s, "!"), greet(punct="!")', "return greet(), greet(s), greet()", R_DEFAULT, {"all": 3}),
    (120, [("words", "list[str]")], "return dict.fromkeys(words, None)", "return dict.fromkeys(words)", R_DEFAULT, {}),
    # ---- FURB137: comprehension shorthands
    (137, [("nums", "list[int]")], "return list(e * 10 for e in nums)", "return [e * 10 for e in nums]", lit("Replace `list(...)` with `[...]`"), {}),
    (137, [("nums", "list[int]")], "return set(e * e for e in nums)", "return {e * e for e in nums}", lit("Replace `set(...)` with `{...}`"), {}),
    (137, [("nums", "list[int]")], "return tuple([e * e for e in nums])", "return tuple(e * e for e in nums)", lit("Replace `tuple([...])` with `tuple(...)`"), {}),
    (137, [("nums", "list[int]")], "return frozenset({e * e for e in nums})", "return frozenset(e * e for e in nums)", lit("Replace `frozenset({...})` with `frozenset(...)`"), {}),
    (137, [("nums", "list[int]")], "return set([e for e in nums if e])", "return {e for e in nums if e}", lit("Replace `set([...])` with `{...}`"), {}),
    (137, [("nums", "list[int]")], "return list([e for e in nums])", "return [e for e in nums]", lit("Replace `list([...])` with `[...]`"), {}),
    # ---- FURB139: strip() on a multi-line literal
    (139, [], 'return """\nabc\n""".lstrip()', 'return """\\\nabc\n"""', lit('Replace `"""\\n...""".lstrip()` with `"""\\..."""`'), {"noindent": True}),
    (139, [], 'return """\nabc\n""".strip()', 'return """\\\nabc\\\n"""', lit('Replace `"""\\n...\\n""".strip()` with `"""\\...\\"""`'), {"noindent": True}),
    (139, [], 'return """\nabc\n""".rstrip("\\n")', 'return """\nabc\\\n"""', lit('Replace `"""...\\n""".rstrip("\\n")` with `"""...\\"""`'), {"noindent": True}),
    (139, [], 'return """\nabc\n    """.strip()', 'return """\\\nabc\n    """', lit('Replace `"""\\n...""".strip()` with `"""\\..."""`'), {"noindent": True, "fires": "maybe"}),
    (139, [], 'return """\nabc\n\n""".lstrip()', 'return """\\\nabc\n\n"""', lit('Replace `"""\\n...""".lstrip()` with `"""\\..."""`'), {"noindent": True}),
    (139, [], 'return """\nabc\n""".lstrip("\\n")', 'return """\\\nabc\n"""', lit('Replace `"""\\n...""".lstrip("\\n")` with `"""\\..."""`'), {"noindent": True}),
    # ---- concrete messages: spliced by rewrite.apply_rewrite (new=None)
    (100, [("pth", "Path")], 'return str(pth)[:5] + ".md"', "return Path(pth).with_suffix(StrExpr(.md))", lit('Replace `str(pth)[:5] + ".md"` with `Path(pth).with_suffix(StrExpr(.md))`'), {"fires": "maybe"}),
    (100, [("pth", "Path")], 'return str(pth)[:5] + ".md"', 'return Path(pth).with_suffix(".md")', r'^Replace `str\(pth\)\[:5\] \+ "\.md"` with `Path\(pth\)\.with_suffix\(("\.md"|StrExpr\(\.md\))\)`$', {"fires": "maybe"}),
    (104, [], "return os.getcwd()", None, lit("Replace `os.getcwd()` with `Path.cwd()`"), {"fs": True}),
    (104, [], "return os.getcwdb()", None, lit("Replace `os.getcwdb()` with `Path.cwd()`"), {"fs": True}),
    (104, [("name", "relpath")], "return os.path.join(os.getcwd(), name)", None, lit("Replace `os.getcwd()` with `Path.cwd()`"), {"fs": True}),
    (106, [("s", "tabbed")], 'return s.replace("\\t", " " * 8)', None, lit('Replace `x.replace("\\t", " " * 8)` with `x.expandtabs()`'), {}),
    (106, [("s", "tabbed")], 'return s.replace("\\t", "    ")', None, lit('Replace `x.replace("\\t", "    ")` with `x.expandtabs(4)`'), {}),
    (106, [("bs", "bytes")], 'return (b"\\t" + bs).replace(b"\\t", 4 * b" ")', None, lit('Replace `x.replace(b"\\t", 4 * b" ")` with `x.expandtabs(4)`'), {}),
    (117, [("pth", "Path")], "try:\n    with open(pth) as fh:\n        return fh.read()\nexcept OSError:\n    return None", None, lit("Replace `open(pth)` with `pth.open()`"), {"fs": True}),
    (117, [("pth", "Path")], 'try:\n    with open(str(pth), "rb") as fh:\n        return fh.read()\nexcept OSError:\n    return None', None, lit('Replace `open(str(pth), "rb")` with `pth.open("rb")`'), {"fs": True}),
    (117, [("pth", "Path")], 'with open(pth, "a") as fh:\n    fh.write("z")', None, lit('Replace `open(pth, "a")` with `pth.open("a")`'), {"fs": True}),
    (129, [("name", "relpath")], "acc = []\nwith open(name) as fh:\n    for ln in fh.readlines():\n        acc.append(ln)\nreturn acc", None, lit("Replace `fh.readlines()` with `fh`"), {"fs": True}),
    (129, [("name", "relpath")], 'with open(name, "rb") as fh:\n    return [ln for ln in fh.readlines() if ln]', None, lit("Replace `fh.readlines()` with `fh`"), {"fs": True}),
    (152, [("fl", "float")], "return 3.141592653589793 * fl", None, lit("Replace `3.141592653589793` with `math.pi`"), {}),
    (152, [("fl", "float")], "return 3.1415 * fl", None, lit("Replace `3.1415` with `math.pi`"), {}),
    (152, [], "return 2.718281828459045, 6.283185307179586", None, r"^Replace `(2.718281828459045` with `math.e|6.283185307179586` with `math.tau)`$", {"all": 2}),
    (153, [("name", "relpath")], 'return Path(".") / name, Path("")', None, r'^Replace `Path\(".?"\)` with `Path\(\)`$', {"all": 2}),
    (153, [], "return Path(os.curdir), Path(os.path.curdir)", None, r"^Replace `Path\(os\.(path\.)?curdir\)` with `Path\(\)`$", {"all": 2}),
    (162, [("s", "isodate")], 'return datetime.fromisoformat(s.replace("Z", "+00:00"))', None, lit('Replace `datetime.fromisoformat(x.replace("Z", "+00:00"))` with `datetime.fromisoformat(x)`'), {}),
    (162, [("s", "isodate")], 'return datetime.fromisoformat(s[:-1] + "+00:00")', None, lit('Replace `datetime.fromisoformat(x[:-1] + "+00:00")` with `datetime.fromisoformat(x)`'), {}),
    (162, [("s", "isodate")], 'return datetime.fromisoformat(s.rstrip("Z") + "-0000")', None, lit('Replace `datetime.fromisoformat(x.rstrip("Z") + "-0000")` with `datetime.fromisoformat(x)`'), {}),
    (167, [("s", "str")], 'return bool(re.match("A.C", s, re.I | re.S)), re.findall("^a", s, re.M), int(re.X), int(re.A), int(re.U), int(re.L)', None, r"^Replace `re\.[AILMSUX]` with `re\.[A-Z]+`$", {"all": 7}),
    (170, [("pat", "re.Pattern[str]"), ("s", "str")], "return re.match(pat, s), re.search(pat, s), re.fullmatch(pat, s)", None, r"^Replace `re\.(\w+)\(x, \.\.\.\)` with `x\.\1\(\.\.\.\)`$", {"all": 3}),
    (170, [("pat", "re.Pattern[str]"), ("s", "str")], 'return re.split(pat, s), re.findall(pat, s), list(re.finditer(pat, s)), re.sub(pat, "-", s), re.subn(pat, "-", s)', 'return pat.split(s), pat.findall(s), list(pat.finditer(s)), pat.sub("-", s), pat.subn("-", s)', r"^Replace `re\.(\w+)\(x, \.\.\.(, \.\.\.)?\)` with `x\.\1\(\.\.\.(, \.\.\.)?\)`$", {"all": 5}),
    (170, [("pat", "re.Pattern[str]"), ("s", "str")], 'return re.split(pat, s, 1), re.sub(pat, "-", s, count=1), re.split(pat, s, maxsplit=1), re.subn(pat, "-", s, 2)', 'return pat.split(s, 1), pat.sub("-", s, count=1), pat.split(s, maxsplit=1), pat.subn("-", s, 2)', r"^Replace `re\.(\w+)\(x, (\.\.\.|, |count=\.\.\.|maxsplit=\.\.\.)+\)` with `x\.\1\((\.\.\.|, |count=\.\.\.|maxsplit=\.\.\.)+\)`$", {"all": 4}),
    (170, [("s", "str")], 'return re.match("a+", s), re.sub(s, "-", "abc")', 'return s.match("a+"), s.sub("-", "abc")', r"^Replace `re\.", {"fires": False}),
    (172, [("pth", "Path")], 'return pth.name.endswith(".md")', None, lit('Replace `x.name.endswith(".md")` with `x.suffix == ".md"`'), {}),
    (174, [], "r0 = token_bytes(8).hex()\nreturn type(r0).__name__, len(r0)", None, lit("Replace `token_bytes(8).hex()` with `token_hex(8)`"), {}),
    (174, [], "r0 = secrets.token_bytes().hex()\nr1 = token_bytes(None).hex()\nreturn type(r0).__name__, len(r0), len(r1)", None, r"^Replace `(secrets\.)?token_bytes\((None)?\)\.hex\(\)` with `(secrets\.)?token_hex\(\)`$", {"all": 2}),
    (174, [], "r0 = token_hex()[:8]\nr1 = secrets.token_bytes(None)[:5]\nreturn type(r0).__name__, len(r0), type(r1).__name__, len(r1)", None, r"^Replace `(token_hex\(\)\[:8\]` with `token_hex\(4\)|secrets\.token_bytes\(None\)\[:5\]` with `secrets\.token_bytes\(5\))`$", {"all": 2}),
    (177, [], 'return Path().resolve(), Path(".").resolve(), Path("").resolve()', None, r'^Replace `Path\(("\.?")?\)\.resolve\(\)` with `Path\.cwd\(\)`$', {"all": 3, "fs": True}),
    (178, [("words", "list[str]")], 'return " ".join(shlex.quote(wd) for wd in words)', "return shlex.join(words)", lit('Replace `" ".join(shlex.quote(x) for x in y)` with `shlex.join(y)`'), {}),
    (178, [("words", "list[str]")], 'return " ".join([shlex.quote(wd + "!") for wd in words if wd])', 'return shlex.join(wd + "!" for wd in words if wd)', lit('Replace `" ".join(shlex.quote(...) for x in y if ...)` with `shlex.join(... for x in y if ...)`'), {}),
    # ---- pathlib / os idioms with schematic messages (run inside the fixture directory; the tree afterwards is compared)
    (101, [("name", "relpath")], "with open(name) as fh:\n    data = fh.read()\nreturn data", "data = Path(name).read_text()\nreturn data", lit("Replace `with open(x) as f: y = f.read()` with `y = Path(x).read_text()`"), {"fs": True}),
    (101, [("name", "relpath")], 'with open(name, "rb") as fh:\n    data = fh.read()\nreturn data', "data = Path(name).read_bytes()\nreturn data", lit("Replace `with open(x, ...) as f: y = f.read()` with `y = Path(x).read_bytes()`"), {"fs": True}),
    (101, [("name", "relpath")], 'with open(name, encoding="latin-1", errors="replace") as fh:\n    data = fh.read()\nreturn data', 'data = Path(name).read_text(encoding="latin-1", errors="replace")\nreturn data', lit("Replace `with open(x, ...) as f: y = f.read()` with `y = Path(x).read_text(...)`"), {"fs": True}),
    (101, [("pth", "Path")], 'with open(pth, mode="r") as fh:\n    data = fh.read()\nreturn data', "data = Path(pth).read_text()\nreturn data", lit("Replace `with open(x, ...) as f: y = f.read()` with `y = Path(x).read_text()`"), {"fs": True}),
    (101, [("name", "relpath")], 'with open(name, "w+") as fh:\n    data = fh.read()\nreturn data', "data = Path(name).read_text()\nreturn data", lit("Replace `with open(x, ...) as f: y = f.read()` with `y = Path(x).read_text()`"), {"fs": True, "fires": "maybe"}),
    (101, [("name", "relpath")], 'with open(name, newline="") as fh:\n    data = fh.read()\nreturn data', "data = Path(name).read_text()\nreturn data", r"read_text", {"fs": True, "fires": False}),
    (103, [("name", "newpath"), ("s", "str")], 'with open(name, "w") as fh:\n    fh.write(s)', "Path(name).write_text(s)", lit("Replace `with open(x, ...) as f: f.write(y)` with `Path(x).write_text(y)`"), {"fs": True}),
    (103, [("name", "newpath"), ("bs", "bytes")], 'with open(name, "wb") as fh:\n    fh.write(bs)', "Path(name).write_bytes(bs)", lit("Replace `with open(x, ...) as f: f.write(y)` with `Path(x).write_bytes(y)`"), {"fs": True}),
    (103, [("name", "newpath"), ("s", "str")], 'with open(name, "w") as fh:\n    fh.write(s + "\\n")\nreturn os.path.getsize(name)', 'Path(name).write_text(s + "\\n")\nreturn os.path.getsize(name)', lit("Replace `with open(x, ...) as f: f.write(y)` with `Path(x).write_text(y)`"), {"fs": True}),
    (103, [("name", "newpath"), ("s", "str")], 'with open(name, "a") as fh:\n    fh.write(s)', "Path(name).write_text(s)", r"write_text", {"fs": True, "fires": False}),
    (122, [("name", "newpath"), ("words", "list[str]")], 'with open(name, "w") as fh:\n    for ln in words:\n        fh.write(ln)', 'with open(name, "w") as fh:\n    fh.writelines(words)', lit("Replace `for ln in words: fh.write(ln)` with `fh.writelines(words)`"), {"fs": True}),
    (122, [("name", "newpath"), ("words", "list[str]")], 'with open(name, "w") as fh:\n    for ln in words:\n        fh.write(ln + "\\n")', 'with open(name, "w") as fh:\n    fh.writelines(ln + "\\n" for ln in words)', lit('Replace `for ln in words: fh.write(ln + "\\n")` with `fh.writelines(ln + "\\n" for ln in words)`'), {"fs": True}),
    (122, [("name", "newpath"), ("nums", "list[int]")], 'with open(name, "wb") as fh:\n    for e in nums:\n        fh.write(bytes([e % 256]))', 'with open(name, "wb") as fh:\n    fh.writelines(bytes([e % 256]) for e in nums)', lit("Replace `for e in nums: fh.write(bytes([e % 256]))` with `fh.writelines(bytes([e % 256]) for e in nums)`"), {"fs": True}),
    (141, [("name", "relpath")], "return os.path.exists(name)", "return Path(name).exists()", lit("Replace `os.path.exists(x)` with `Path(x).exists()`"), {"fs": True}),
    (141, [("pth", "Path")], "return os.path.exists(pth)", "return pth.exists()", lit("Replace `os.path.exists(x)` with `x.exists()`"), {"fs": True}),
    (144, [("name", "relpath")], "os.remove(name)", "Path(name).unlink()", lit("Replace `os.remove(x)` with `Path(x).unlink()`"), {"fs": True}),
    (144, [("pth", "Path")], "os.unlink(pth)", "pth.unlink()", lit("Replace `os.unlink(x)` with `x.unlink()`"), {"fs": True}),
    (146, [("name", "relpath")], "return os.path.isfile(name), os.path.isdir(name), os.path.islink(name), os.path.isabs(name)", "return Path(name).is_file(), Path(name).is_dir(), Path(name).is_symlink(), Path(name).is_absolute()", r"^Replace `os\.path\.is(file|dir|link|abs)\(x\)` with `Path\(x\)\.is_(file|dir|symlink|absolute)\(\)`$", {"fs": True, "all": 4}),
    (146, [("pth", "Path")], "return os.path.isfile(pth), os.path.isdir(pth), os.path.islink(pth), os.path.isabs(pth)", "return pth.is_file(), pth.is_dir(), pth.is_symlink(), pth.is_absolute()", r"^Replace `os\.path\.is(file|dir|link|abs)\(x\)` with `x\.is_(file|dir|symlink|absolute)\(\)`$", {"fs": True, "all": 4}),
    (146, [("bp", "bytespath")], "return os.path.isfile(bp)", "return Path(bp).is_file()", lit("Replace `os.path.isfile(x)` with `Path(x).is_file()`"), {"fs": True, "fires": "maybe"}),
    (150, [("name", "relpath")], "os.mkdir(name)", "Path(name).mkdir()", lit("Replace `os.mkdir(x)` with `Path(x).mkdir()`"), {"fs": True}),
    (150, [("name", "relpath"), ("md", "mode")], "os.mkdir(name, md)", "Path(name).mkdir(md)", lit("Replace `os.mkdir(x, ...)` with `Path(x).mkdir(...)`"), {"fs": True}),
    (150, [("name", "relpath")], "os.makedirs(name)", "Path(name).mkdir(parents=True)", lit("Replace `os.makedirs(x)` with `Path(x).mkdir(parents=True)`"), {"fs": True}),
    (150, [("name", "relpath")], "os.makedirs(name, exist_ok=True)", "Path(name).mkdir(exist_ok=True, parents=True)", lit("Replace `os.makedirs(x, ...)` with `Path(x).mkdir(..., parents=True)`"), {"fs": True}),
    (150, [("name", "relpath"), ("md", "mode")], "os.makedirs(name, md, True)", "Path(name).mkdir(md, True, parents=True)", lit("Replace `os.makedirs(x, ...)` with `Path(x).mkdir(..., parents=True)`"), {"fs": True, "fires": "maybe"}),
    (150, [("pth", "Path")], "os.makedirs(pth, mode=0o750)", "pth.mkdir(mode=0o750, parents=True)", lit("Replace `os.makedirs(x, ...)` with `x.mkdir(..., parents=True)`"), {"fs": True}),
    (155, [("name", "relpath")], "return os.path.getsize(name)", "return Path(name).stat().st_size", lit("Replace `os.path.getsize(x)` with `Path(x).stat().st_size`"), {"fs": True}),
    (155, [("pth", "Path")], "return os.path.getmtime(pth), os.path.getatime(pth), os.path.getctime(pth), os.stat(pth)", "return pth.stat().st_mtime, pth.stat().st_atime, pth.stat().st_ctime, pth.stat()", r"^Replace `os\.(path\.get[mac]time|stat)\(x\)` with `x\.stat\(\)(\.st_[mac]time)?`$", {"fs": True, "all": 4}),
    (155, [("bp", "bytespath")], "return os.path.getsize(bp)", "return Path(bp).stat().st_size", lit("Replace `os.path.getsize(x)` with `Path(x).stat().st_size`"), {"fs": True, "fires": "maybe"}),
]

# Checks of the former not_proved list that stay outside the executed sweep, and why (code -> reason).  The first group is
# excluded by the property itself (documentation declares a behaviour change / heuristic; c01.CAVEATS checks the sentence
# is still there); the second cannot be observed by executing a function here.
NOT_EXECUTED: dict[int, str] = {
    147: "documented: `Path()` returns a Path object, not a string … it is not a drop-in replacement (c01.CAVEATS)",
    151: "documented: touch() … sets different file permissions, meaning it is not a drop-in replacement (c01.CAVEATS)",
    166: "documented: no way for Refurb to detect whether the prefixes that are being stripped are valid Python int prefixes (c01.CAVEATS)",
    176: "documented: the advice replaces naive datetimes by aware ones on purpose ('it is preferred to use aware datetimes') (c01.CAVEATS)",
    189: "documented: isinstance() checks for dict/list/str will fail when using the corresponding User class (c01.CAVEATS)",
    175: "needs FastAPI's request pipeline (and an HTTP test client, not installed) to observe the endpoint's behaviour; a direct call of the function is not what the advice is about",
}


def tab_after_text(args: tuple[Any, ...], body: str) -> bool:
    """FURB106's documented limit: 'this only works if the tabs are at the start of the string'"""
    for a in args:
        if isinstance(a, (str, bytes)):
            t = a.decode("latin-1") if isinstance(a, bytes) else a
            if "\t" in t.lstrip("\t"):
                return True
    return False


# ------------------------------------------------------------------------------------------
# the scratch-directory fixture for file/OS idioms

FIXED_TIME = (1_600_000_000, 1_600_000_000)


def build_fixture(root: Path) -> None:
    (root / "sub" / "inner").mkdir(parents=True)
    (root / "a.txt").write_bytes(b"alpha\nbeta\n")
    (root / "empty").write_bytes(b"")
    (root / "crlf.txt").write_bytes(b"x\r\ny\r\n")
    (root / "latin1.txt").write_bytes(b"caf\xe9\n")
    (root / "notes.md").write_bytes(b"# n\n")
    (root / "sub" / "b.bin").write_bytes(bytes(range(7)))
    os.symlink("a.txt", root / "link")
    for p in sorted(root.rglob("*")):
        if not p.is_symlink():
            os.chmod(p, 0o755 if p.is_dir() else 0o644)
            os.utime(p, FIXED_TIME)
    os.utime(root, FIXED_TIME)


def snapshot(root: Path) -> list[Any]:
    out = []
    for p in sorted(root.rglob("*")):
        rel = p.relative_to(root).as_posix()
        st = p.lstat()
        if stat.S_ISLNK(st.st_mode):
            out.append([rel, "link", os.readlink(p)])
        elif stat.S_ISDIR(st.st_mode):
            out.append([rel, "dir", oct(st.st_mode & 0o7777)])
        else:
            out.append([rel, "file", oct(st.st_mode & 0o7777), p.read_bytes().hex()])
    return out


def wipe(root: Path) -> None:
    import shutil

    for p in root.iterdir():
        if p.is_dir() and not p.is_symlink():
            os.chmod(p, 0o700)
            for q in p.rglob("*"):
                if q.is_dir() and not q.is_symlink():
                    os.chmod(q, 0o700)
            shutil.rmtree(p)
        else:
            p.unlink()


def run_fs_case(root: Path, module_src: str, func: str, args_list: list[tuple[Any, ...]], alias: list[tuple[int, int]] | None = None) -> list[Any]:
    """rewrite.run_case for idioms that touch the file system: every call runs with `root` (a directory holding the
    fixture, rebuilt whenever a call changed it) as the working directory; the tree afterwards joins the observation"""
    ns: dict[str, Any] = {"__name__": "case_module"}
    try:
        exec(compile(module_src, "<case>", "exec"), ns)  # noqa: S102
    except BaseException as e:  # noqa: BLE001
        return [["module-raised", type(e).__name__]] * len(args_list)
    fn = ns[func]
    out = []
    here = os.getcwd()
    umask = os.umask(0o022)
    pristine = snapshot(root)
    try:
        for args in args_list:
            argv = list(copy.deepcopy(args))
            for i, j in alias or []:
                argv[j] = argv[i]
            buf = io.StringIO()
            os.chdir(root)
            try:
                with redirect_stdout(buf):
                    r = fn(*argv)
                res = ["ok", rewrite.canon(r)]
            except BaseException:  # noqa: BLE001
                res = ["raised"]
            finally:
                os.chdir(here)
            snap = snapshot(root)
            out.append([res, [rewrite.canon(a) for a in argv], buf.getvalue(), "tree unchanged" if snap == pristine else snap])
            if snap != pristine:
                wipe(root)
                build_fixture(root)
    finally:
        os.umask(umask)
        os.chdir(here)
    return out


# ------------------------------------------------------------------------------------------


def preamble() -> str:
    from . import c01

    return c01.PREAMBLE + EXTRA_PREAMBLE


def build_module(srules: list[dict[str, Any]] | None = None) -> tuple[str, list[dict[str, Any]]]:
    """-> (module source, cases); when the Lean statement rules are given, their `old` blocks are appended as functions
    srule_K (their line spans are stored in the rule dicts) so that ONE refurb run lints everything"""
    lines = preamble().split("\n")
    cases = []
    for i, (code, params, body, new, msg, opts) in enumerate(CASES):
        sig = ", ".join(f"{p[0]}: {ANNOT.get(p[1], p[1])}" for p in params)
        start = len(lines) + 1
        lines.append(f"def scase_{i}({sig}):")
        lines += indent(body, opts)
        lines.append("")
        cases.append({"i": i, "code": code, "params": params, "body": body, "new": new, "msg": msg, "opts": opts, "sig": sig, "first": start, "last": len(lines) - 1})
    for k, r in enumerate(srules or []):
        r["first"] = len(lines) + 1
        lines.append(f"def srule_{k}({srule_sig(r)}):")
        lines += ["    " + bl for bl in r["old"].split("\n")]
        lines.append("")
        r["last"] = len(lines) - 1
    return "\n".join(lines) + "\n", cases


def indent(body: str, opts: dict[str, Any]) -> list[str]:
    bl = body.split("\n")
    if opts.get("noindent"):  # a multi-line string literal: its continuation lines are content
        return ["    " + bl[0], *bl[1:]]
    return ["    " + b for b in bl]


def one_function(sig: str, i: int, body: str, opts: dict[str, Any]) -> str:
    return preamble() + f"\n\ndef scase_{i}({sig}):\n" + "\n".join(indent(body, opts)) + "\n"


PATH_POOLS = {"relpath", "newpath", "bytespath", "Path"}


def stmt_witness(args: tuple[Any, ...], aliased: bool, ra: Any, rb: Any, params: list[tuple[str, ...]] | None = None) -> str:
    from . import c01

    paths = [a for a, p in zip(args, params or []) if p[1] in PATH_POOLS]
    if any(isinstance(a, bytes) for a in paths) and ra[0][0] != rb[0][0]:
        return "raises:bytes-path"
    if any((isinstance(a, str) and a == "") or (isinstance(a, Path) and str(a) == ".") for a in paths):
        return "empty-path"
    if ra[0][0] == "ok" and rb[0][0] == "ok" and ra[0][1][0] != rb[0][1][0]:
        return "result-type"
    return c01.witness_class(args, aliased, ra, rb)


def run(ctx, covered_codes: set[int] | None = None) -> set[int]:
    """-> the codes whose rewrite was executed (added to `covered_codes` when given)"""
    from . import c01

    res = ctx.res
    rng = ctx.rng("c01-stmt")
    cap = 40 if ctx.quick else 400
    executed: set[int] = set()
    srules: list[dict[str, Any]] = []
    if ctx.driver.available():
        srules = ctx.driver.batch([{"verb": "py_srules"}])[0]
    else:
        res.disagreements.append({"where": "driver", "reason": "driver executable not built: the statement rules of Model/Rules.lean are not compared with refurb / CPython"})
    src, cases = build_module(srules)
    ns: dict[str, Any] = {"__name__": "case_module"}
    exec(compile(preamble(), "<stmt-preamble>", "exec"), ns)  # noqa: S102  (only to build the pools of class-typed values)
    pools_extra = {k: [eval(e, ns) for e in v] for k, v in STMT_EXPR_POOLS.items()}  # noqa: S307
    with core.scratch("rv-c01s-") as d:
        (d / "stmt_cases.py").write_text(src)
        (d / "pyproject.toml").write_text("")
        diags = rewrite.lint_with_spans(d, ["stmt_cases.py", "--enable-all", "--quiet"])
    texts = [x["text"] for x in diags if "text" in x]
    if texts:
        res.violate("refurb could not lint the statement-idiom module", {"kind": "lint-error", "module": "stmt"}, {"errors": texts[:5]})
        return executed
    how = (
        "harness/props/c01_stmt.py: the function below (after c01.PREAMBLE + c01_stmt.EXTRA_PREAMBLE) is linted with --enable-all; the check "
        "must report `message`; `rewritten` is that advice applied by hand (CASES table) or spliced from the message; both run on `arguments`"
        " (fs cases: with a scratch directory holding c01_stmt.build_fixture() as working directory)"
    )
    src_lines = src.split("\n")
    with core.scratch("rv-c01fs-") as fsroot:
        root = fsroot / "w"
        root.mkdir()
        build_fixture(root)
        for case in cases:
            code, opts, i = case["code"], case["opts"], case["i"]
            if opts.get("thorough") and ctx.quick:
                continue
            head = case["body"].splitlines()[0]
            mine = [x for x in diags if "code" in x and case["first"] <= x["line"] <= case["last"] and x["code"] == code]
            hits = [x for x in mine if re.search(case["msg"], x["msg"], re.S)]
            guard = opts.get("fires") is False
            want = opts.get("all", 1)
            if guard:
                res.case(("stmt-guard", i), nontrivial=not hits)
                res.bump("stmt_guard_cases")
                if not hits:
                    continue  # the guard held: nothing is proposed, nothing to run
                res.bump("stmt_guard_cases_fired")
            elif len(hits) < want and opts.get("fires") == "maybe":
                res.case(("stmt-defect-case", i), nontrivial=False)
                res.bump("stmt_defect_cases_no_longer_diagnosed")
                res.notes.append(f"stmt case {i} (FURB{code}: {head} …) exhibits a recorded defect and is no longer diagnosed: its finding can be retired")
                continue
            elif len(hits) < want:
                res.disagree(
                    "stmt-message",
                    {"case": i, "code": f"FURB{code}", "function": "\n".join(src_lines[case["first"] - 1 : case["last"]])},
                    f"{want} diagnostic(s) matching /{case['msg']}/ (what the hand-written rewrite implements)",
                    [x["msg"] for x in mine] or "no diagnostic",
                )
                continue
            func_src = one_function(case["sig"], i, case["body"], opts)
            if opts.get("auto113"):
                # FURB113's advice applied WHERE IT IS REPORTED: the pair of consecutive `recv.append(...)` statements that starts
                # at the reported line (and the appends after it that do not read the list) becomes one `recv.extend((...))`
                fl = src_lines[case["first"] - 1 : case["last"]]
                for dg in sorted(hits, key=lambda x: x["line"], reverse=True):
                    k0 = dg["line"] - case["first"]
                    m0 = re.match(r"^(\s*)([\w.]+)\.append\((.*)\)\s*$", fl[k0]) if 0 <= k0 < len(fl) else None
                    if not m0:
                        continue
                    args_, k1 = [m0.group(3)], k0 + 1
                    while k1 < len(fl) and (m1 := re.match(r"^(\s*)([\w.]+)\.append\((.*)\)\s*$", fl[k1])) and m1.group(1) == m0.group(1) and m1.group(2) == m0.group(2):
                        # the message names TWO appends: the pair at the reported line is what it asks to merge; a later append
                        # joins the tuple only while that is what a reader would do (its argument does not read the list)
                        if len(args_) >= 2 and re.search(r"\b" + re.escape(m0.group(2)) + r"\b", m1.group(3)):
                            break
                        args_.append(m1.group(3))
                        k1 += 1
                    fl[k0:k1] = [f"{m0.group(1)}{m0.group(2)}.extend(({', '.join(args_)},))"]
                new_func = "\n".join(fl).strip("\n")
                new_src = preamble() + "\n\n" + new_func + "\n"
            elif case["new"] is None:
                # concrete message(s): splice every one of them (they are disjoint sub-expressions), last position first
                new_mod, fail = src, None
                for dg in sorted(hits, key=lambda x: (x["line"], x["col"]), reverse=True):
                    new_mod, info = rewrite.apply_rewrite(new_mod, dg)
                    if new_mod is None:
                        fail = info
                        break
                if fail is not None:
                    res.notes.append(f"stmt case {i} (FURB{code}: {head}) not applied: {fail}")
                    res.bump("unapplied")
                    continue
                nl = new_mod.split("\n")
                new_func = "\n".join(nl[case["first"] - 1 : case["last"] + (len(nl) - len(src_lines))])
                new_src = preamble() + "\n\n" + new_func + "\n"
            else:
                new_src = one_function(case["sig"], i, case["new"], opts)
                new_func = new_src[len(preamble()) :].strip("\n")
            old_func = func_src[len(preamble()) :].strip("\n")
            label = f"FURB{code}"
            msgs = sorted({x["msg"] for x in hits})
            try:
                compile(new_src, "<rewritten>", "exec")
            except SyntaxError as e:
                res.violate(
                    f"applying {label}'s advice gives invalid Python: {msgs[0]}",
                    {"kind": "invalid-python", "code": code, "idiom": case["body"]},
                    {"function": old_func, "rewritten": new_func, "message": msgs, "error": str(e), "how": how},
                )
                continue
            pools = []
            for p in case["params"]:
                key = p[1]
                pools.append(STMT_POOLS.get(key) or pools_extra.get(key) or c01.POOLS[key])
            args_list = c01.product_sample(rng, pools, cap) if pools else [()]
            fn = f"scase_{i}"
            alias = opts.get("alias")
            if opts.get("fs"):
                a = run_fs_case(root, func_src, fn, args_list, alias)
                b = run_fs_case(root, new_src, fn, args_list, alias)
            else:
                a = rewrite.run_case(func_src, fn, args_list, alias)
                b = rewrite.run_case(new_src, fn, args_list, alias)
            executed.add(code)
            caveat = c01.CAVEATS.get(code)
            diffs: dict[str, list[Any]] = {}  # witness class -> [count, first (args, ra, rb)]
            for args, ra, rb in zip(args_list, a, b):
                res.case(("stmt", i, repr(args)))
                if caveat and (caveat[1] is None or caveat[1](args, case["body"])):
                    res.bump("excluded_by_documented_caveat")
                    continue
                if ra != rb:
                    w = stmt_witness(args, bool(alias), ra, rb, case["params"])
                    diffs.setdefault(w, [0, (args, ra, rb)])[0] += 1
            res.bump("executed_pairs", len(args_list))
            res.bump("stmt_executed_pairs", len(args_list))
            for w, (ndiff, (args, ra, rb)) in sorted(diffs.items()):
                what = "exception" if ra[0][0] != rb[0][0] else ("value" if ra[0] != rb[0] else ("argument state" if ra[1] != rb[1] else ("output" if ra[2] != rb[2] else "files")))
                res.violate(
                    f"{label} changes behaviour ({what}; {w}) on {ndiff}/{len(args_list)} inputs: `{head}` … -> {msgs[0][:90]}" + (" [the check fired outside its guard]" if guard else ""),
                    {"kind": "behaviour", "code": code, "idiom": case["body"], "differs": what, "witness": w},
                    {"function": old_func, "rewritten": new_func, "message": msgs, "arguments": [rewrite.canon(x) for x in args], "original": ra, "rewritten_result": rb, "how": how},
                )
    if srules:
        srule_correspondence(ctx, srules, diags)
    res.bump("stmt_cases", len(cases))
    res.bump("stmt_checks_with_executed_rewrite", len(executed))
    res.sample({"function": "def scase_0(nums: list[int], p: int, q: int):\n    nums.append(p)\n    nums.append(q)\n    return nums", "rewritten by hand to": "nums.extend((p, q))", "tied to refurb by": CASES[0][4]})
    res.rule += (
        f"; statement-level part: {len(CASES)} hand-rewritten / spliced cases for {len({c[0] for c in CASES})} checks ({sum(1 for c in CASES if c[5].get('fires') is False)} of them guard "
        f"cases just outside a check's pattern), linted in one run, up to {cap} argument tuples each; file idioms run in a fixture directory whose tree is compared"
    )
    res.assumptions += [
        "statement-level rewrites are written by hand from the message and the docstring's Good: example; the message regex is what ties them to refurb (a changed message is a disagreement)",
        "file/OS idioms: one fixed fixture tree (text, empty, CRLF, latin-1, binary files, nested directories, a symlink), umask 022, the tree is compared by names, kinds, bytes, link targets and permission bits",
        "FURB174 (secrets) is compared by type and length of the random token only",
    ]
    for c, why in sorted(NOT_EXECUTED.items()):
        res.notes.append(f"FURB{c} not executed: {why}")
    if covered_codes is not None:
        covered_codes |= executed
    return executed


# ------------------------------------------------------------------------------------------
# the Lean statement rules (Model/Rules.lean `srules`): refurb gives the rule's advice for the rule's old block, and
# CPython runs the rendered old / new blocks as the model's `execBlock` does


def srule_sig(r: dict[str, Any]) -> str:
    from . import c01

    return ", ".join(f"{n}: {c01.ANN[t]}" for n, t in r["vars"])


def run_block(params: list[str], block: str, env: dict[str, Any]) -> tuple[Any, list[str]]:
    """run a rendered block as a function body; -> (('ok', value, final locals) | ('raised',), local names)"""
    state: dict[str, Any] = {}
    body = "\n".join("        " + bl for bl in block.split("\n"))
    src = f"def f({', '.join(params)}):\n    try:\n{body}\n    finally:\n        STATE.update(locals())\n"
    ns: dict[str, Any] = {"STATE": state}
    exec(compile(src, "<srule>", "exec"), ns)  # noqa: S102
    names = [n for n in ns["f"].__code__.co_varnames if n != "_"]
    try:
        v = ns["f"](**{k: copy.deepcopy(x) for k, x in env.items()})  # separately: two operands must never be one object
    except Exception:  # noqa: BLE001
        return ("raised",), names
    return ("ok", v, state), names


def srule_correspondence(ctx, srules: list[dict[str, Any]], diags: list[dict[str, Any]]) -> None:
    from . import c01

    res = ctx.res
    pools = c01.model_pools()
    rng = ctx.rng("srules")
    cap = 40 if ctx.quick else 400
    reqs, metas = [], []
    differs: dict[int, int] = {}
    reported: set[int] = set()
    for k, r in enumerate(srules):
        label = f"FURB{r['code']}:{r['label']}"
        res.case(("srule-advice", r["code"], r["label"]))
        mine = [x for x in diags if "code" in x and r["first"] <= x["line"] <= r["last"] and x["code"] == r["code"]]
        if not any(x["msg"] == r["advice"] for x in mine):
            if r["refuted"]:
                res.notes.append(f"refuted statement rule {label}: refurb no longer gives this advice here; its refutation theorem is about behaviour that is gone")
            else:
                res.disagree("srule-advice", {"rule": label, "old": r["old"]}, r["advice"], [x["msg"] for x in mine] or "no diagnostic")
        params = [n for n, _ in r["vars"]]
        for combo in c01.product_sample(rng, [pools[t] for _, t in r["vars"]], cap):
            env = {n: (float("nan") if v == "NAN" else v) for n, v in zip(params, combo)}
            seen = {}
            for which in ("old", "new"):
                got, names = run_block(params, r[which], env)
                reqs.append({"verb": "py_exec", "srule": k, "which": which, "names": names, "env": {n: c01.to_val_json(v) for n, v in env.items()}})
                metas.append((label, which, r[which], combo, got, names))
                seen[which] = ("raised",) if got[0] == "raised" else ("ok", rewrite.canon(got[1]), {n: rewrite.canon(x) for n, x in got[2].items() if n not in r["ignore"] and n != "_"})
            if seen["old"] != seen["new"]:
                differs[k] = differs.get(k, 0) + 1
                if not r["refuted"] and not r.get("guarded") and k not in reported:
                    # contradicts a theorem about the model: the model (or its rendering) misrepresents Python
                    reported.add(k)
                    res.disagree("srule-sound-vs-cpython", {"rule": label, "old": r["old"], "new": r["new"], "env": repr(combo)}, "old and new blocks agree (SSound)", [seen["old"], seen["new"]])
        res.bump("lean_srules_guarded" if r.get("guarded") else ("lean_srules_refuted" if r["refuted"] else "lean_srules_proved"))
        if (r["refuted"] or r.get("guarded")) and not differs.get(k):
            res.notes.append(f"refuted statement rule {label}: no sampled environment separates the blocks under CPython")
    for a, (label, which, block, combo, got, names) in zip(ctx.driver.batch(reqs), metas):
        res.case(("py_exec", label, which, repr(combo)))
        res.bump("model_exec_cases")
        if got[0] == "raised":
            impl: Any = {"r": "raised"}
            model: Any = {"r": a.get("r")}
        else:
            impl = {"r": "ok", "v": c01.to_val_json(got[1]), "state": {n: (c01.to_val_json(got[2][n]) if n in got[2] else None) for n in names}}
            model = {"r": "ok" if a.get("r") in ("next", "returned") else a.get("r"), "v": a.get("v", {"t": "none"}), "state": a.get("state")}
        if model != impl:
            res.disagree("py_exec", {"rule": label, "which": which, "block": block, "env": repr(combo)}, model, impl)
    res.bump("lean_srules", len(srules))
