/-
Stable insertion sort: the model of Python's `sorted(..., key=...)` (stable; elements with equal
keys keep their input order).  Lemmas are in Lemmas/Sort.lean.
-/
namespace RefurbVerif

variable {α : Type}

/-- insert `a` before the first element that is strictly greater (`le a b` and not `le b a` is not
    needed: inserting before the first `b` with `le a b` while scanning a list built by `foldr`
    keeps equal elements in input order) -/
def ins (le : α → α → Bool) (a : α) : List α → List α
  | [] => [a]
  | b :: l => if le a b then a :: b :: l else b :: ins le a l

/-- `sorted(l, key=...)` where `le a b := key a ≤ key b` -/
def ssort (le : α → α → Bool) (l : List α) : List α := l.foldr (ins le) []

def Sorted (le : α → α → Bool) : List α → Prop
  | [] => True
  | a :: l => (∀ b ∈ l, le a b = true) ∧ Sorted le l

/-- lexicographic `≤` on character lists = Python's `str` comparison (by code point) -/
def leChars : List Char → List Char → Bool
  | [], _ => true
  | _ :: _, [] => false
  | a :: as, b :: bs => if a < b then true else if b < a then false else leChars as bs

end RefurbVerif
