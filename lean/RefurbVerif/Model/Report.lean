/-
Model of the report stage of refurb/main.py: `sort_errors` (235-254), the three formatters
(257-310, error.py:56), `format_errors` + hint (313-326) and the exit status of `main` (403).

Text is `List Char` so that the theorems can reason about characters; the driver converts.
-/
import RefurbVerif.Model.Sort

namespace RefurbVerif

abbrev Str := List Char

structure Diag where
  file : Str
  line : Int
  col : Int          -- 0-based, as stored in `Error.column`
  pfx : Str
  code : Nat
  msg : Str
  deriving DecidableEq, Repr

/-- an element of the list `run_refurb` returns: a diagnostic, or a plain string (a mypy/refurb
    error line, or — with `--debug` — the dump of a syntax tree) -/
inductive Item where
  | diag (d : Diag)
  | text (s : Str)
  deriving DecidableEq, Repr

def Item.isDiag : Item → Bool
  | .diag _ => true
  | .text _ => false

def natChars (n : Nat) : Str := Nat.toDigits 10 n

/-- Python's `str(int)` -/
def intChars (i : Int) : Str :=
  if i < 0 then '-' :: natChars i.natAbs else natChars i.toNat

def Diag.codeChars (d : Diag) : Str := d.pfx ++ natChars d.code

/-- `Error.__str__` -/
def formatPlain (d : Diag) : Str :=
  d.file ++ [':'] ++ intChars d.line ++ [':'] ++ intChars (d.col + 1) ++ [' ', '['] ++ d.codeChars
    ++ [']', ':', ' '] ++ d.msg

/-- `format_as_github_annotation`; `rel` is the file path relative to the working directory -/
def formatGithub (rel : Str) (d : Diag) : Str :=
  "::error line=".toList ++ intChars d.line ++ ",col=".toList ++ intChars (d.col + 1)
    ++ ",title=Refurb ".toList ++ d.codeChars ++ ",file=".toList ++ rel ++ [':', ':'] ++ d.msg

def githubText (s : Str) : Str := "::error title=Refurb Error::".toList ++ s

def ESC : Char := Char.ofNat 27
/-- an SGR escape sequence `ESC [ n m` -/
def sgr (n : Str) : Str := ESC :: '[' :: (n ++ ['m'])
def blue := sgr ['9', '4']
def yellow := sgr ['3', '3']
def gray := sgr ['9', '0']
def green := sgr ['9', '2']
def red := sgr ['9', '1']
def reset := sgr ['0']

/-- split at every occurrence of `c` (like `str.split(c)`): n occurrences give n+1 pieces -/
def splitAt (c : Char) : Str → List Str
  | [] => [[]]
  | x :: xs =>
    match splitAt c xs with
    | [] => [[x]]    -- unreachable: the result is never empty
    | p :: ps => if x = c then [] :: p :: ps else (x :: p) :: ps

/-- `ERROR_DIFF_PATTERN.sub(...)` on a message with exactly four back-ticks -/
def colorMsg (msg : Str) : Str :=
  match splitAt '`' msg with
  | [p0, p1, p2, p3, p4] =>
    p0 ++ gray ++ ['`'] ++ red ++ p1 ++ gray ++ ['`'] ++ reset ++ p2
       ++ gray ++ ['`'] ++ green ++ p3 ++ gray ++ ['`'] ++ reset ++ p4
  | _ => msg

/-- `format_with_color` -/
def formatColor (d : Diag) : Str :=
  blue ++ d.file ++ reset ++ gray ++ [':'] ++ intChars d.line ++ [':'] ++ intChars (d.col + 1) ++ reset
    ++ [' '] ++ yellow ++ ['['] ++ d.codeChars ++ [']'] ++ reset ++ gray ++ [':'] ++ reset ++ [' ']
    ++ colorMsg d.msg

inductive Format where
  | plain | color | github
  deriving DecidableEq, Repr

/-- the formatter `format_errors` picks; `rel` maps a file name to its cwd-relative form -/
def formatItem (fmt : Format) (rel : Str → Str) : Item → Str
  | .diag d =>
    match fmt with
    | .plain => formatPlain d
    | .color => formatColor d
    | .github => formatGithub (rel d.file) d
  | .text s =>
    match fmt with
    | .github => githubText s
    | _ => s

def joinLines : List Str → Str
  | [] => []
  | [l] => l
  | l :: ls => l ++ '\n' :: joinLines ls

def hint : Str :=
  "\n\nRun `refurb --explain ERR` to further explain an error. Use `--quiet` to silence this message".toList

def hintShown (quiet : Bool) (items : List Item) : Bool := !quiet && items.any Item.isDiag

/-- `format_errors` -/
def formatErrors (fmt : Format) (rel : Str → Str) (quiet : Bool) (items : List Item) : Str :=
  joinLines (items.map (formatItem fmt rel)) ++ (if hintShown quiet items then hint else [])

/-- `return 1 if errors else 0` -/
def exitStatus (items : List Item) : Nat := if items.isEmpty then 0 else 1

/-! ### Sorting (`sort_errors`) -/

inductive SortBy where
  | filename | error
  deriving DecidableEq, Repr

/-- lexicographic `≤` on pairs, built from `≤` on the components (Python's tuple comparison) -/
def lexLe {α β : Type} [DecidableEq α] (le₁ : α → α → Bool) (le₂ : β → β → Bool) (a b : α × β) : Bool :=
  if a.1 = b.1 then le₂ a.2 b.2 else le₁ a.1 b.1

def leInt (a b : Int) : Bool := decide (a ≤ b)
def leNat (a b : Nat) : Bool := decide (a ≤ b)

/-- the key tuple of `sort_errors` for a diagnostic -/
def keyFilename (d : Diag) : Str × Int × Int × Str × Nat := (d.file, d.line, d.col, d.pfx, d.code)
def keyError (d : Diag) : Str × Nat × Str × Int × Int := (d.pfx, d.code, d.file, d.line, d.col)

def leKeyFilename : (Str × Int × Int × Str × Nat) → (Str × Int × Int × Str × Nat) → Bool :=
  lexLe leChars (lexLe leInt (lexLe leInt (lexLe leChars leNat)))
def leKeyError : (Str × Nat × Str × Int × Int) → (Str × Nat × Str × Int × Int) → Bool :=
  lexLe leChars (lexLe leNat (lexLe leChars (lexLe leInt leInt)))

/-- comparison of the key tuples; plain strings sort first (their key is `("", s)`) -/
def leItem (by_ : SortBy) : Item → Item → Bool
  | .text a, .text b => leChars a b
  | .text _, .diag _ => true
  | .diag _, .text _ => false
  | .diag a, .diag b =>
    match by_ with
    | .filename => leKeyFilename (keyFilename a) (keyFilename b)
    | .error => leKeyError (keyError a) (keyError b)

/-- the tail of `run_refurb`: drop what is ignored, then sort -/
def report (by_ : SortBy) (keep : Item → Bool) (items : List Item) : List Item :=
  ssort (leItem by_) (items.filter keep)

end RefurbVerif
