import RefurbVerif.Model.History
import RefurbVerif.Lemmas.Run
/-! Helper lemmas for C11 on the whole-run model: the stable sort of a concatenation of sorted blocks, the
    left-biased merge as that sort, the `# noqa`/amend filter over a concatenation, look-ups in a sub-list of the
    files.  Core Lean only. -/
namespace RefurbVerif

/-! ### sort of sorted blocks, merge -/

section
variable {α : Type} (le : α → α → Bool)
variable (total : ∀ a b, le a b = true ∨ le b a = true)
variable (trans : ∀ a b c, le a b = true → le b c = true → le a c = true)

include total trans in
/-- sorting the blocks first changes nothing: ties keep their order inside a block, and the blocks keep theirs -/
theorem ssort_append_ssort (a b : List α) : ssort le (ssort le a ++ ssort le b) = ssort le (a ++ b) := by
  apply ssort_congr le total trans
  · exact List.Perm.append (ssort_perm le a) (ssort_perm le b)
  · intro x
    rw [List.filter_append, List.filter_append, filter_class_ssort le total trans, filter_class_ssort le total trans]

include total trans in
theorem ssort_idem (a : List α) : ssort le (ssort le a) = ssort le a := by
  have := ssort_append_ssort le total trans a []
  simpa [ssort] using this

omit total trans in
/-- a sorted list is its own stable sort -/
theorem ssort_of_sorted : ∀ (l : List α), Sorted le l → ssort le l = l := by
  intro l
  induction l with
  | nil => intro _; rfl
  | cons a l ih =>
    intro h
    show ins le a (ssort le l) = a :: l
    rw [ih h.2]
    exact ins_head le a l h.1

include trans in
/-- **the left-biased merge of two sorted lists is the stable sort of their concatenation** -/
theorem merge_eq_ssort : ∀ (a b : List α), Sorted le a → Sorted le b → List.merge a b le = ssort le (a ++ b) := by
  intro a
  induction a with
  | nil =>
    intro b _ hb
    rw [List.nil_merge, List.nil_append, ssort_of_sorted le b hb]
  | cons x a iha =>
    intro b hsa hb
    show _ = ins le x (ssort le (a ++ b))
    rw [← iha b hsa.2 hb]
    -- `ins x (merge a b) = merge (x :: a) b`, by induction on `b`
    clear iha
    induction b with
    | nil =>
      rw [List.merge_right, List.merge_right]
      exact (ins_head le x a hsa.1).symm
    | cons y b ihb =>
      rw [List.cons_merge_cons]
      by_cases hxy : le x y = true
      · simp only [hxy, ↓reduceIte]
        symm
        apply ins_head
        intro z hz
        have hz' : z ∈ a ++ (y :: b) := (List.merge_perm_append (le := le)).subset hz
        rcases List.mem_append.mp hz' with h | h
        · exact hsa.1 z h
        · rcases List.mem_cons.mp h with rfl | h
          · exact hxy
          · exact trans _ _ _ hxy (hb.1 z h)
      · simp only [hxy, Bool.false_eq_true, ↓reduceIte]
        have hhead : List.merge a (y :: b) le = y :: List.merge a b le := by
          cases a with
          | nil => rw [List.nil_merge, List.nil_merge]
          | cons z a' =>
            rw [List.cons_merge_cons]
            have hzy : ¬ le z y = true := fun h => hxy (trans _ _ _ (hsa.1 z (by simp)) h)
            simp [hzy]
        rw [hhead]
        show y :: List.merge (x :: a) b le = ins le x (y :: List.merge a b le)
        simp only [ins, hxy, Bool.false_eq_true, ↓reduceIte]
        rw [ihb hb.2]

end

/-! ### the report of a concatenation -/

namespace Run
open RefurbVerif

theorem noqaFilter_append (cfg : LineCfg) (src : Str → Str) (amend : Diag → Bool) (a b : List Item) :
    noqaFilter cfg src amend (a ++ b) =
      match noqaFilter cfg src amend a, noqaFilter cfg src amend b with
      | some ka, some kb => some (ka ++ kb)
      | _, _ => none := by
  simp only [noqaFilter_eq, List.all_append, List.filter_append]
  by_cases ha : a.all (definedB cfg src amend) = true <;> by_cases hb : b.all (definedB cfg src amend) = true <;>
    simp [ha, hb]

/-- the tail of `run_refurb` over `a ++ b`: it raises iff one of the halves does; otherwise it is the stable sort
    of the two reports put one after the other — no hypothesis on ties is needed, because the halves stay in
    their order -/
theorem runReport_append (cfg : LineCfg) (by_ : SortBy) (src : Str → Str) (amend : Diag → Bool) (a b : List Item) :
    runReport cfg by_ src amend (a ++ b) =
      match runReport cfg by_ src amend a, runReport cfg by_ src amend b with
      | some ra, some rb => some (ssort (leItem by_) (ra ++ rb))
      | _, _ => none := by
  unfold runReport
  rw [noqaFilter_append]
  cases noqaFilter cfg src amend a with
  | none => simp
  | some ka =>
    cases noqaFilter cfg src amend b with
    | none => simp
    | some kb =>
      simp only [Option.map_some, Option.some.injEq]
      exact (ssort_append_ssort (leItem by_) (leItem_total by_) (leItem_trans by_) ka kb).symm

/-! ### look-ups in part of the file list -/

theorem find_of_mem (files : List FileIn) (hid : PathsIdentify files) (f : FileIn) (hf : f ∈ files) :
    files.find? (fun g => g.path == f.path) = some f := by
  cases h : files.find? (fun g => g.path == f.path) with
  | none =>
    rw [List.find?_eq_none] at h
    exact absurd (by simp) (h f hf)
  | some a =>
    have ha := List.find?_some h
    simp only [beq_iff_eq] at ha
    rw [hid a (List.mem_of_find?_eq_some h) f hf ha]

theorem PathsIdentify.sub {files part : List FileIn} (hid : PathsIdentify files) (hsub : ∀ f ∈ part, f ∈ files) :
    PathsIdentify part :=
  fun f hf g hg h => hid f (hsub f hf) g (hsub g hg) h

/-- for a file of the part, the source text looked up in the whole list is the one looked up in the part -/
theorem srcOf_part (files part : List FileIn) (hid : PathsIdentify files) (hsub : ∀ f ∈ part, f ∈ files)
    (f : FileIn) (hf : f ∈ part) : srcOf files f.path = srcOf part f.path := by
  simp only [srcOf, find_of_mem files hid f (hsub f hf), find_of_mem part (hid.sub hsub) f hf]

theorem relOf_part (files part : List FileIn) (hid : PathsIdentify files) (hsub : ∀ f ∈ part, f ∈ files)
    (f : FileIn) (hf : f ∈ part) : relOf files f.path = relOf part f.path := by
  simp only [relOf, find_of_mem files hid f (hsub f hf), find_of_mem part (hid.sub hsub) f hf]

/-- every diagnostic the visiting loop collects carries the path of one of the files -/
theorem collected_file (s : Settings) (cat : List CheckSel) (files : List FileIn) (d : Diag)
    (h : Item.diag d ∈ collected s cat files) : ∃ f ∈ files, d.file = f.path := by
  unfold collected at h
  obtain ⟨f, hf, hd⟩ := List.mem_flatMap.mp h
  refine ⟨f, hf, ?_⟩
  unfold fileItems at hd
  rcases List.mem_append.mp hd with h1 | h1
  · split at h1
    · simp at h1
    · simp at h1
  · obtain ⟨r, _, hr⟩ := List.mem_map.mp h1
    cases hr
    rfl

/-- the tail of `run_refurb` over the items of a part of the files may look the source texts up in the part -/
theorem runReport_part (cfg : LineCfg) (by_ : SortBy) (amend : Diag → Bool) (s : Settings) (cat : List CheckSel)
    (files part : List FileIn) (hid : PathsIdentify files) (hsub : ∀ f ∈ part, f ∈ files) :
    runReport cfg by_ (srcOf files) amend (collected s cat part)
      = runReport cfg by_ (srcOf part) amend (collected s cat part) := by
  apply runReport_congr
  · intro d hd
    obtain ⟨f, hf, hp⟩ := collected_file s cat part d hd
    rw [hp]
    exact srcOf_part files part hid hsub f hf
  · intro _ _; rfl

theorem collected_append (s : Settings) (cat : List CheckSel) (a b : List FileIn) :
    collected s cat (a ++ b) = collected s cat a ++ collected s cat b := by
  simp [collected, List.flatMap_append]

/-! ### merging reports -/

theorem sorted_mergeAll (by_ : SortBy) (rs : List (List Item)) (h : ∀ r ∈ rs, Sorted (leItem by_) r) :
    mergeAll by_ rs = ssort (leItem by_) rs.flatten ∧ Sorted (leItem by_) (mergeAll by_ rs) := by
  induction rs with
  | nil => exact ⟨rfl, trivial⟩
  | cons r rs ih =>
    have ih' := ih (fun r' hr' => h r' (List.mem_cons_of_mem _ hr'))
    have heq : mergeAll by_ (r :: rs) = ssort (leItem by_) (r :: rs).flatten := by
      show List.merge r (mergeAll by_ rs) (leItem by_) = _
      rw [merge_eq_ssort (leItem by_) (leItem_trans by_) r _ (h r (by simp)) ih'.2, ih'.1,
        List.flatten_cons]
      have hr := ssort_of_sorted (leItem by_) r (h r (by simp))
      conv => lhs; rw [← hr]
      rw [ssort_append_ssort (leItem by_) (leItem_total by_) (leItem_trans by_)]
    refine ⟨heq, ?_⟩
    rw [heq]
    exact sorted_ssort _ (leItem_total by_) (leItem_trans by_) _

theorem isSortedB_iff (by_ : SortBy) (l : List Item) : isSortedB by_ l = true ↔ Sorted (leItem by_) l := by
  induction l with
  | nil => simp [isSortedB, Sorted]
  | cons a l ih => simp [isSortedB, Sorted, ih, List.all_eq_true]

end Run
end RefurbVerif

/-! ## History: the classification of Model/History.lean is sound -/

namespace RefurbVerif.History

/-- the two executions of a run — at stamp `r` after some history, at stamp `0` in a fresh interpreter — hold the
    same value under every key of kind `kk` -/
def agree (r : Nat) (m m₀ : Map) (kk : KeyKind) : Prop := ∀ n, m (resolve r kk n) = m₀ (resolve 0 kk n)

theorem resolve_eq_iff (r r' : Nat) (k kk : KeyKind) (n n' : Nat) :
    resolve r kk n' = resolve r k n ↔ resolve r' kk n' = resolve r' k n := by
  cases k <;> cases kk <;> simp [resolve]

theorem resolve_ne_of_kind (r : Nat) (k kk : KeyKind) (n n' : Nat) (h : kk ≠ k) : resolve r kk n' ≠ resolve r k n := by
  cases k <;> cases kk <;> simp_all [resolve]

theorem resolve_cell_iff (r r' : Nat) (kk : KeyKind) (n' : Nat) :
    resolve r kk n' = Key.cell ↔ resolve r' kk n' = Key.cell := by
  cases kk <;> simp [resolve]

/-- an access of kind `k` leaves the agreement on every other kind alone -/
theorem applyOp_pres (r : Nat) (val : Nat → Int) (o : Op) (n : Nat) (m m₀ : Map) (k kk : KeyKind)
    (hk : kindOf o = some k) (hne : kk ≠ k) (h : agree r m m₀ kk) :
    agree r (applyOp r val o n m).1 (applyOp 0 val o n m₀).1 kk := by
  have hcell : ∀ (n' : Nat), k = .cell → resolve r kk n' ≠ Key.cell ∧ resolve 0 kk n' ≠ Key.cell := by
    intro n' hk'; subst hk'
    exact ⟨resolve_ne_of_kind r .cell kk 0 n' hne, resolve_ne_of_kind 0 .cell kk 0 n' hne⟩
  intro n'
  cases o with
  | clear => simp [kindOf] at hk
  | put k' =>
    simp only [kindOf, Option.some.injEq] at hk; subst hk
    simp only [applyOp, Map.set, resolve_ne_of_kind r k' kk n n' hne, resolve_ne_of_kind 0 k' kk n n' hne, ↓reduceIte]
    exact h n'
  | putConst v =>
    simp only [kindOf, Option.some.injEq] at hk
    simp only [applyOp, Map.set, (hcell n' hk.symm).1, (hcell n' hk.symm).2, ↓reduceIte]
    exact h n'
  | bump d =>
    simp only [kindOf, Option.some.injEq] at hk
    simp only [applyOp, Map.set, (hcell n' hk.symm).1, (hcell n' hk.symm).2, ↓reduceIte]
    exact h n'
  | get k' => simp only [applyOp]; exact h n'
  | refresh =>
    simp only [kindOf, Option.some.injEq] at hk
    simp only [applyOp, Map.set, (hcell n' hk.symm).1, (hcell n' hk.symm).2, ↓reduceIte]
    exact h n'
  | memo k' =>
    simp only [kindOf, Option.some.injEq] at hk; subst hk
    have h1 := resolve_ne_of_kind r k' kk n n' hne
    have h2 := resolve_ne_of_kind 0 k' kk n n' hne
    simp only [applyOp]
    cases m (resolve r k' n) <;> cases m₀ (resolve 0 k' n) <;> simp [Map.set, h1, h2, h n']

/-- an access of kind `k`, when the executions agree on kind `k`: they read the same and still agree -/
theorem applyOp_same (r : Nat) (val : Nat → Int) (o : Op) (n : Nat) (m m₀ : Map) (k : KeyKind)
    (hk : kindOf o = some k) (h : agree r m m₀ k) :
    (applyOp r val o n m).2 = (applyOp 0 val o n m₀).2 ∧
      agree r (applyOp r val o n m).1 (applyOp 0 val o n m₀).1 k := by
  cases o with
  | clear => simp [kindOf] at hk
  | put k' =>
    simp only [kindOf, Option.some.injEq] at hk; subst hk
    refine ⟨rfl, fun n' => ?_⟩
    simp only [applyOp, Map.set]
    by_cases he : resolve r k' n' = resolve r k' n
    · simp [he, (resolve_eq_iff r 0 k' k' n n').mp he]
    · have he' : ¬ resolve 0 k' n' = resolve 0 k' n := fun e => he ((resolve_eq_iff r 0 k' k' n n').mpr e)
      simp [he, he', h n']
  | putConst v =>
    simp only [kindOf, Option.some.injEq] at hk; subst hk
    refine ⟨rfl, fun n' => ?_⟩
    simp [applyOp, Map.set, resolve]
  | bump d =>
    simp only [kindOf, Option.some.injEq] at hk; subst hk
    have h0 : m Key.cell = m₀ Key.cell := h 0
    refine ⟨rfl, fun n' => ?_⟩
    simp [applyOp, Map.set, resolve, h0]
  | get k' =>
    simp only [kindOf, Option.some.injEq] at hk; subst hk
    exact ⟨by simp [applyOp, h n], by simpa [applyOp] using h⟩
  | refresh =>
    simp only [kindOf, Option.some.injEq] at hk; subst hk
    refine ⟨rfl, fun n' => ?_⟩
    simp [applyOp, Map.set, resolve]
  | memo k' =>
    simp only [kindOf, Option.some.injEq] at hk; subst hk
    have hn := h n
    simp only [applyOp]
    rw [hn]
    cases hm : m₀ (resolve 0 k' n) with
    | some v => exact ⟨rfl, h⟩
    | none =>
      refine ⟨rfl, fun n' => ?_⟩
      simp only [Map.set]
      by_cases he : resolve r k' n' = resolve r k' n
      · simp [he, (resolve_eq_iff r 0 k' k' n n').mp he]
      · have he' : ¬ resolve 0 k' n' = resolve 0 k' n := fun e => he ((resolve_eq_iff r 0 k' k' n n').mpr e)
        simp [he, he', h n']

/-- an unconditional store into the cell makes the executions agree on the cell, whatever was there -/
theorem applyOp_cellWrite (r : Nat) (val : Nat → Int) (o : Op) (n : Nat) (m m₀ : Map) (h : isCellWrite o = true) :
    (applyOp r val o n m).2 = (applyOp 0 val o n m₀).2 ∧
      agree r (applyOp r val o n m).1 (applyOp 0 val o n m₀).1 .cell := by
  cases o with
  | put k' =>
    cases k' <;> simp only [isCellWrite, Bool.false_eq_true] at h
    exact ⟨rfl, fun n' => by simp [applyOp, Map.set, resolve]⟩
  | putConst v => exact ⟨rfl, fun n' => by simp [applyOp, Map.set, resolve]⟩
  | refresh => exact ⟨rfl, fun n' => by simp [applyOp, Map.set, resolve]⟩
  | clear => simp [isCellWrite] at h
  | bump d => simp [isCellWrite] at h
  | get k' => simp [isCellWrite] at h
  | memo k' => simp [isCellWrite] at h

/-! ### per component: what must agree, which accesses are admissible -/

/-- the kinds on which the two executions must agree for a component of discipline `d` whose reset (if the
    discipline has one) has (`b`) or has not yet happened in this run -/
def need (d : Discipline) (b : Bool) (kk : KeyKind) : Bool :=
  match d with
  | .constant => true
  | .resetAtRunStart => b
  | .overwrittenBeforeRead => b && kk == .cell
  | .keyedByLiveNodeIdentity => kk == .liveNode
  | .leaks => true

def RelC (d : Discipline) (b : Bool) (r : Nat) (m m₀ : Map) : Prop := ∀ kk, need d b kk = true → agree r m m₀ kk

/-- the access is one the discipline allows at this point -/
def okOp (d : Discipline) (b : Bool) (o : Op) : Bool :=
  match d with
  | .constant => isGet o
  | .resetAtRunStart => b || o == .clear
  | .overwrittenBeforeRead => isCellOp o && (b || isCellWrite o)
  | .keyedByLiveNodeIdentity => isLiveOp o
  | .leaks => false

theorem okOp_mono (d : Discipline) (b b' : Bool) (o : Op) (hb : b = true → b' = true) (h : okOp d b o = true) :
    okOp d b' o = true := by
  cases d <;> cases b <;> cases b' <;> simp_all [okOp]

theorem RelC_weaken (d : Discipline) (b : Bool) (r : Nat) (m m₀ : Map) (h : RelC d true r m m₀) : RelC d b r m m₀ := by
  intro kk hn
  apply h kk
  cases d <;> cases b <;> simp_all [need]

theorem isGet_kind (o : Op) (h : isGet o = true) : ∃ k, o = .get k := by
  cases o <;> simp_all [isGet]

/-- **one admissible access**: the two executions read the same, and afterwards agree as if the reset had happened -/
theorem applyOp_rel (d : Discipline) (b : Bool) (r : Nat) (val : Nat → Int) (o : Op) (n : Nat) (m m₀ : Map)
    (hok : okOp d b o = true) (h : RelC d b r m m₀) :
    (applyOp r val o n m).2 = (applyOp 0 val o n m₀).2 ∧
      RelC d true r (applyOp r val o n m).1 (applyOp 0 val o n m₀).1 := by
  -- the generic step: an access with a kind on which the executions already agree
  have generic : ∀ k, kindOf o = some k → (∀ kk, need d true kk = true → agree r m m₀ kk) → need d true k = true →
      (applyOp r val o n m).2 = (applyOp 0 val o n m₀).2 ∧
        RelC d true r (applyOp r val o n m).1 (applyOp 0 val o n m₀).1 := by
    intro k hk hall hneed
    have hs := applyOp_same r val o n m m₀ k hk (hall k hneed)
    refine ⟨hs.1, fun kk hkk => ?_⟩
    by_cases he : kk = k
    · subst he; exact hs.2
    · exact applyOp_pres r val o n m m₀ k kk hk he (hall kk hkk)
  have clear_case : o = .clear →
      (applyOp r val o n m).2 = (applyOp 0 val o n m₀).2 ∧
        RelC d true r (applyOp r val o n m).1 (applyOp 0 val o n m₀).1 := by
    intro ho; subst ho
    exact ⟨rfl, fun kk _ n' => rfl⟩
  cases d with
  | constant =>
    obtain ⟨k, rfl⟩ := isGet_kind o (by simpa [okOp] using hok)
    exact generic k rfl (fun kk _ => h kk rfl) rfl
  | resetAtRunStart =>
    by_cases ho : o = .clear
    · exact clear_case ho
    · have hb : b = true := by
        simp only [okOp, Bool.or_eq_true, beq_iff_eq] at hok
        rcases hok with hb | hc
        · exact hb
        · exact absurd hc ho
      subst hb
      cases hk : kindOf o with
      | none => cases o <;> simp_all [kindOf]
      | some k => exact generic k hk h rfl
  | overwrittenBeforeRead =>
    simp only [okOp, Bool.and_eq_true, Bool.or_eq_true] at hok
    have hk : kindOf o = some .cell := by simpa [isCellOp] using hok.1
    cases b with
    | true => exact generic .cell hk h (by simp [need])
    | false =>
      have hw : isCellWrite o = true := by simpa using hok.2
      have hs := applyOp_cellWrite r val o n m m₀ hw
      refine ⟨hs.1, fun kk hkk => ?_⟩
      have : kk = .cell := by simpa [need] using hkk
      subst this; exact hs.2
  | keyedByLiveNodeIdentity =>
    have hk : kindOf o = some .liveNode := by simpa [okOp, isLiveOp] using hok
    exact generic .liveNode hk (fun kk hkk => h kk (by simpa [need] using hkk)) (by simp [need])
  | leaks => simp [okOp] at hok

/-! ### the whole state -/

/-- the flags after an access of component `c` -/
def touch (F : Nat → Bool) (c : Nat) : Nat → Bool := fun x => if x = c then true else F x

theorem touch_ge (F : Nat → Bool) (c x : Nat) (h : F x = true) : touch F c x = true := by
  unfold touch; split <;> simp [h]

/-- one access on the global state, in both executions -/
theorem perform_sim (D : Nat → Discipline) (F : Nat → Bool) (r : Nat) (val : Nat → Nat → Int) (c : Nat) (o : Op) (n : Nat)
    (g g₀ : Nat → Map) (obs : List (Option Int)) (hok : okOp (D c) (F c) o = true)
    (hrel : ∀ c', RelC (D c') (F c') r (g c') (g₀ c')) :
    (perform r val c o n (g, obs)).2 = (perform 0 val c o n (g₀, obs)).2 ∧
      (perform r val c o n (g, obs)).1.2 = (perform 0 val c o n (g₀, obs)).1.2 ∧
      ∀ c', RelC (D c') (touch F c c') r ((perform r val c o n (g, obs)).1.1 c') ((perform 0 val c o n (g₀, obs)).1.1 c') := by
  have ha := applyOp_rel (D c) (F c) r (val c) o n (g c) (g₀ c) hok (hrel c)
  simp only [perform]
  refine ⟨by rw [ha.1], by rw [ha.1], ?_⟩
  intro c'
  by_cases hc : c' = c
  · subst hc
    simp only [setComp, touch, ↓reduceIte]
    exact ha.2
  · simp only [setComp, touch, hc, ↓reduceIte]
    exact hrel c'

/-- every listed access is admissible at this point -/
def ListOK (D : Nat → Discipline) (F : Nat → Bool) (l : List (Nat × Op)) : Prop :=
  ∀ p ∈ l, okOp (D p.1) (F p.1) p.2 = true

theorem ListOK.mono {D : Nat → Discipline} {F F' : Nat → Bool} {l : List (Nat × Op)} (h : ListOK D F l)
    (hF : ∀ x, F x = true → F' x = true) : ListOK D F' l :=
  fun p hp => okOp_mono _ _ _ _ (hF p.1) (h p hp)

theorem ListOK.touch {D : Nat → Discipline} {F : Nat → Bool} {l : List (Nat × Op)} (h : ListOK D F l) (c : Nat) :
    ListOK D (History.touch F c) l := h.mono (touch_ge F c)

/-- a phase: the same requests are made, the same answers given, the executions still agree -/
theorem runProg_sim (D : Nat → Discipline) (r : Nat) (val : Nat → Nat → Int) (al : List (Nat × Op)) :
    ∀ (P : Prog) (F : Nat → Bool) (g g₀ : Nat → Map) (obs : List (Option Int)),
      ListOK D F al → (∀ c, RelC (D c) (F c) r (g c) (g₀ c)) →
      ∃ F' : Nat → Bool, (∀ x, F x = true → F' x = true) ∧
        (runProg al r val P (g, obs)).2 = (runProg al 0 val P (g₀, obs)).2 ∧
        ∀ c, RelC (D c) (F' c) r ((runProg al r val P (g, obs)).1 c) ((runProg al 0 val P (g₀, obs)).1 c) := by
  intro P
  induction P with
  | done => intro F g g₀ obs _ hrel; exact ⟨F, fun _ h => h, rfl, hrel⟩
  | act c o n k ih =>
    intro F g g₀ obs hal hrel
    simp only [runProg]
    by_cases hin : al.contains (c, o) = true
    · simp only [hin, ↓reduceIte]
      have hmem : (c, o) ∈ al := by simpa using hin
      have hp := hal (c, o) hmem
      have hs := perform_sim D F r val c o n g g₀ obs hp hrel
      rw [hs.1]
      have hobs : (perform r val c o n (g, obs)).1 = ((perform r val c o n (g, obs)).1.1, (perform 0 val c o n (g₀, obs)).1.2) := by
        rw [← hs.2.1]
      have h0 : (perform 0 val c o n (g₀, obs)).1 = ((perform 0 val c o n (g₀, obs)).1.1, (perform 0 val c o n (g₀, obs)).1.2) := rfl
      rw [hobs, h0]
      obtain ⟨F', hF', h2, h3⟩ := ih ((perform 0 val c o n (g₀, obs)).2) (touch F c) _ _ _ (hal.touch c) hs.2.2
      exact ⟨F', fun x hx => hF' x (touch_ge F c x hx), h2, h3⟩
    · simp only [hin, Bool.false_eq_true, ↓reduceIte]
      exact ih none F g g₀ obs hal hrel

/-! ### the script -/

theorem RelC_mono (d : Discipline) (b b' : Bool) (r : Nat) (m m₀ : Map) (hb : b = true → b' = true)
    (h : RelC d b' r m m₀) : RelC d b r m m₀ := by
  intro kk hn
  apply h kk
  cases d <;> cases b <;> cases b' <;> simp_all [need]

/-- the flag of component `c` after an instruction: only an unconditional access of `run_refurb` itself counts as
    the reset -/
def nextFlag (b : Bool) (c : Nat) : Instr → Bool
  | .op c' _ => if c = c' then true else b
  | _ => b

def instrOK (d : Discipline) (c : Nat) (b : Bool) : Instr → Bool
  | .op _ o => okOp d b o
  | .free al => (instrOps c (.free al)).all (okOp d b)
  | .defer _ o => okOp d b o

/-- the rest of the script only makes admissible accesses of `c` -/
def sufOK (d : Discipline) (c : Nat) : Bool → Script → Bool
  | _, [] => true
  | b, ins :: rest => (!(mentions c ins) || instrOK d c b ins) && sufOK d c (nextFlag b c ins) rest

theorem mentions_op (c c' : Nat) (o : Op) : mentions c (.op c' o) = true ↔ c' = c := by
  simp only [mentions, instrOps]
  by_cases h : c' = c <;> simp [h]

theorem mentions_defer (c c' : Nat) (o : Op) : mentions c (.defer c' o) = true ↔ c' = c := by
  simp only [mentions, instrOps]
  by_cases h : c' = c <;> simp [h]

theorem mem_instrOps_free (al : List (Nat × Op)) (p : Nat × Op) (hp : p ∈ al) : p.2 ∈ instrOps p.1 (.free al) := by
  simp only [instrOps, List.mem_map, List.mem_filter]
  exact ⟨p, ⟨hp, by simp⟩, rfl⟩

theorem mentions_free (al : List (Nat × Op)) (p : Nat × Op) (hp : p ∈ al) : mentions p.1 (.free al) = true := by
  have := mem_instrOps_free al p hp
  simp only [mentions, Bool.not_eq_true', List.isEmpty_eq_false_iff]
  exact List.ne_nil_of_mem this

/-- one instruction, in both executions -/
theorem execInstr_sim (D : Nat → Discipline) (r : Nat) (val : Nat → Nat → Int) (prog : Nat → Prog) (idx : Nat)
    (ins : Instr) (F : Nat → Bool) (x x₀ : Ex)
    (hok : ∀ c, mentions c ins = true → instrOK (D c) c (F c) ins = true)
    (hobs : x.1.2 = x₀.1.2) (hstk : x.2 = x₀.2)
    (hrel : ∀ c, RelC (D c) (F c) r (x.1.1 c) (x₀.1.1 c)) (hl : ListOK D F x.2) :
    (execInstr r val prog idx ins x).1.2 = (execInstr 0 val prog idx ins x₀).1.2 ∧
      (execInstr r val prog idx ins x).2 = (execInstr 0 val prog idx ins x₀).2 ∧
      (∀ c, RelC (D c) (nextFlag (F c) c ins) r ((execInstr r val prog idx ins x).1.1 c)
        ((execInstr 0 val prog idx ins x₀).1.1 c)) ∧
      ListOK D (fun c => nextFlag (F c) c ins) (execInstr r val prog idx ins x).2 := by
  obtain ⟨⟨g, obs⟩, stk⟩ := x
  obtain ⟨⟨g₀, obs₀⟩, stk₀⟩ := x₀
  simp only at hobs hstk hrel hl
  subst hobs hstk
  have hmono : ∀ c, F c = true → nextFlag (F c) c ins = true := by
    intro c hc; cases ins <;> simp [nextFlag, hc]
  cases ins with
  | op c₀ o =>
    have h1 : okOp (D c₀) (F c₀) o = true := hok c₀ ((mentions_op c₀ c₀ o).mpr rfl)
    have hs := perform_sim D F r val c₀ o 0 g g₀ obs h1 hrel
    refine ⟨hs.2.1, rfl, ?_, hl.mono hmono⟩
    intro c
    have : nextFlag (F c) c (.op c₀ o) = touch F c₀ c := by simp [nextFlag, touch]
    rw [this]
    exact hs.2.2 c
  | free al =>
    have hal : ListOK D F al := by
      intro p hp
      have := hok p.1 (mentions_free al p hp)
      simp only [instrOK, List.all_eq_true] at this
      exact this p.2 (mem_instrOps_free al p hp)
    obtain ⟨F', hF', h2, h3⟩ := runProg_sim D r val al (prog idx) F g g₀ obs hal hrel
    refine ⟨h2, rfl, ?_, hl.mono hmono⟩
    intro c
    exact RelC_mono _ _ _ _ _ _ (hF' c) (h3 c)
  | defer c₀ o =>
    refine ⟨rfl, rfl, hrel, ?_⟩
    intro p hp
    rcases List.mem_cons.mp hp with rfl | hp'
    · have := hok c₀ ((mentions_defer c₀ c₀ o).mpr rfl)
      simpa [instrOK, nextFlag] using this
    · exact hl p hp'

/-- the script, in both executions -/
theorem execFrom_sim (D : Nat → Discipline) (r : Nat) (val : Nat → Nat → Int) (prog : Nat → Prog) :
    ∀ (S : Script) (idx : Nat) (F : Nat → Bool) (x x₀ : Ex),
      (∀ c, sufOK (D c) c (F c) S = true) → x.1.2 = x₀.1.2 → x.2 = x₀.2 →
      (∀ c, RelC (D c) (F c) r (x.1.1 c) (x₀.1.1 c)) → ListOK D F x.2 →
      ∃ F' : Nat → Bool,
        (execFrom r val prog idx S x).1.2 = (execFrom 0 val prog idx S x₀).1.2 ∧
        (execFrom r val prog idx S x).2 = (execFrom 0 val prog idx S x₀).2 ∧
        (∀ c, RelC (D c) (F' c) r ((execFrom r val prog idx S x).1.1 c) ((execFrom 0 val prog idx S x₀).1.1 c)) ∧
        ListOK D F' (execFrom r val prog idx S x).2 := by
  intro S
  induction S with
  | nil => intro idx F x x₀ _ h1 h2 h3 h4; exact ⟨F, h1, h2, h3, h4⟩
  | cons ins rest ih =>
    intro idx F x x₀ hsuf h1 h2 h3 h4
    simp only [execFrom]
    have hok : ∀ c, mentions c ins = true → instrOK (D c) c (F c) ins = true := by
      intro c hm
      have := hsuf c
      simp only [sufOK, Bool.and_eq_true, Bool.or_eq_true, Bool.not_eq_true'] at this
      rcases this.1 with h | h
      · rw [hm] at h; cases h
      · exact h
    have hs := execInstr_sim D r val prog idx ins F x x₀ hok h1 h2 h3 h4
    apply ih (idx + 1) (fun c => nextFlag (F c) c ins) _ _ _ hs.1 hs.2.1 hs.2.2.1 hs.2.2.2
    intro c
    have := hsuf c
    simp only [sufOK, Bool.and_eq_true] at this
    exact this.2

/-- the `finally` accesses, in both executions -/
theorem runDefers_sim (D : Nat → Discipline) (r : Nat) (val : Nat → Nat → Int) :
    ∀ (stk : List (Nat × Op)) (F : Nat → Bool) (σ σ₀ : St),
      ListOK D F stk → σ.2 = σ₀.2 → (∀ c, RelC (D c) (F c) r (σ.1 c) (σ₀.1 c)) →
      (runDefers r val stk σ).2 = (runDefers 0 val stk σ₀).2 := by
  intro stk
  induction stk with
  | nil => intro F σ σ₀ _ h _; exact h
  | cons p rest ih =>
    intro F σ σ₀ hl hobs hrel
    obtain ⟨c, o⟩ := p
    obtain ⟨g, obs⟩ := σ
    obtain ⟨g₀, obs₀⟩ := σ₀
    simp only at hobs hrel
    subst hobs
    simp only [runDefers]
    have hp := hl (c, o) (by simp)
    have hs := perform_sim D F r val c o 0 g g₀ obs hp hrel
    exact ih (touch F c) _ _ ((ListOK.mono (fun q hq => hl q (List.mem_cons_of_mem _ hq))) (touch_ge F c)) hs.2.1 hs.2.2

/-! ### the classification implies admissibility -/

theorem nextFlag_ge (b : Bool) (c : Nat) (ins : Instr) (h : b = true) : nextFlag b c ins = true := by
  cases ins <;> simp [nextFlag, h]

theorem mem_opsOf_cons_left (c : Nat) (ins : Instr) (rest : Script) (o : Op) (h : o ∈ instrOps c ins) :
    o ∈ opsOf c (ins :: rest) := by
  simp only [opsOf, List.flatMap_cons, List.mem_append]; exact Or.inl h

theorem mem_opsOf_cons_right (c : Nat) (ins : Instr) (rest : Script) (o : Op) (h : o ∈ opsOf c rest) :
    o ∈ opsOf c (ins :: rest) := by
  simp only [opsOf, List.flatMap_cons, List.mem_append]; exact Or.inr h

/-- a script all of whose accesses of `c` are admissible already now -/
theorem sufOK_of_all (d : Discipline) (c : Nat) : ∀ (S : Script) (b : Bool),
    (∀ o ∈ opsOf c S, okOp d b o = true) → sufOK d c b S = true := by
  intro S
  induction S with
  | nil => intro _ _; rfl
  | cons ins rest ih =>
    intro b hall
    simp only [sufOK, Bool.and_eq_true, Bool.or_eq_true, Bool.not_eq_true']
    refine ⟨?_, ih _ (fun o ho => okOp_mono d b _ o (nextFlag_ge b c ins) (hall o (mem_opsOf_cons_right c ins rest o ho)))⟩
    by_cases hm : mentions c ins = true
    · right
      have hin : ∀ o ∈ instrOps c ins, okOp d b o = true := fun o ho => hall o (mem_opsOf_cons_left c ins rest o ho)
      cases ins with
      | op c' o =>
        have hc := (mentions_op c c' o).mp hm
        exact hin o (by simp [instrOps, hc])
      | free al =>
        simp only [instrOK, List.all_eq_true]
        exact hin
      | defer c' o =>
        have hc := (mentions_defer c c' o).mp hm
        exact hin o (by simp [instrOps, hc])
    · left; simpa using hm

/-- a script whose first access of `c` is the discipline's reset -/
theorem sufOK_first (d : Discipline) (c : Nat) : ∀ (S : Script) (c' : Nat) (o : Op),
    firstTouch c S = some (.op c' o) → okOp d false o = true →
    (∀ S' : Script, (∀ o' ∈ opsOf c S', o' ∈ opsOf c S) → sufOK d c true S' = true) → sufOK d c false S = true := by
  intro S
  induction S with
  | nil => intro c' o h; simp [firstTouch] at h
  | cons ins rest ih =>
    intro c' o hft hok htrue
    simp only [sufOK, Bool.and_eq_true, Bool.or_eq_true, Bool.not_eq_true']
    by_cases hm : mentions c ins = true
    · have hins : ins = .op c' o := by
        simp only [firstTouch, List.find?_cons, hm, Option.some.injEq] at hft
        exact hft
      subst hins
      have hc := (mentions_op c c' o).mp hm
      refine ⟨Or.inr hok, ?_⟩
      have : nextFlag false c (.op c' o) = true := by simp [nextFlag, hc]
      rw [this]
      exact htrue rest (fun o' ho' => mem_opsOf_cons_right c _ rest o' ho')
    · have hm' : mentions c ins = false := by simpa using hm
      refine ⟨Or.inl hm', ?_⟩
      have hnf : nextFlag false c ins = false := by
        cases ins with
        | op c'' o'' =>
          have : ¬ c'' = c := fun e => hm ((mentions_op c c'' o'').mpr e)
          have : ¬ c = c'' := fun e => this e.symm
          simp [nextFlag, this]
        | free al => rfl
        | defer c'' o'' => rfl
      rw [hnf]
      apply ih c' o
      · simpa [firstTouch, List.find?_cons, hm'] using hft
      · exact hok
      · intro S' hS'
        exact htrue S' (fun o' ho' => mem_opsOf_cons_right c ins rest o' (hS' o' ho'))

theorem sufOK_untouched (d : Discipline) (c : Nat) : ∀ (S : Script) (b : Bool), firstTouch c S = none →
    sufOK d c b S = true := by
  intro S
  induction S with
  | nil => intro _ _; rfl
  | cons ins rest ih =>
    intro b hft
    simp only [firstTouch, List.find?_cons] at hft
    cases hm : mentions c ins with
    | true => simp [hm] at hft
    | false =>
      simp only [hm] at hft
      simp only [sufOK, hm, Bool.not_false, Bool.true_or, Bool.true_and]
      exact ih _ hft

theorem opsOf_take (c : Nat) : ∀ (T : Script) (k : Nat) (o : Op), o ∈ opsOf c (T.take k) → o ∈ opsOf c T := by
  intro T k o h
  simp only [opsOf, List.mem_flatMap] at h ⊢
  obtain ⟨ins, hins, ho⟩ := h
  exact ⟨ins, List.mem_of_mem_take hins, ho⟩

theorem firstTouch_take (c : Nat) : ∀ (T : Script) (k : Nat),
    firstTouch c (T.take k) = none ∨ firstTouch c (T.take k) = firstTouch c T := by
  intro T
  induction T with
  | nil => intro k; simp [firstTouch]
  | cons ins rest ih =>
    intro k
    cases k with
    | zero => left; simp [firstTouch]
    | succ k =>
      simp only [List.take_succ_cons, firstTouch, List.find?_cons]
      cases mentions c ins with
      | true => right; rfl
      | false => exact ih k

theorem classify_constant (T : Script) (c : Nat) (h : classify T c = .constant) : (opsOf c T).all isGet = true := by
  unfold classify at h
  by_cases h1 : (opsOf c T).all isGet = true
  · exact h1
  · simp only [h1, Bool.false_eq_true, ↓reduceIte] at h
    split at h
    · cases h
    · split at h
      · cases h
      · split at h <;> cases h

theorem classify_keyed (T : Script) (c : Nat) (h : classify T c = .keyedByLiveNodeIdentity) :
    (opsOf c T).all isLiveOp = true := by
  unfold classify at h
  split at h
  · cases h
  · split at h
    · cases h
    · split at h
      · cases h
      · split at h
        · assumption
        · cases h

/-- **the classification is a certificate**: a component that is not classified `leaks` only receives accesses
    its discipline admits — in the whole script and in every prefix of it (a run that ends early) -/
theorem classify_sufOK (T : Script) (c : Nat) (S : Script) (hsub : ∀ o ∈ opsOf c S, o ∈ opsOf c T)
    (hft : firstTouch c S = none ∨ firstTouch c S = firstTouch c T) (hd : classify T c ≠ .leaks) :
    sufOK (classify T c) c false S = true := by
  rcases hft with hnone | hsame
  · exact sufOK_untouched _ c S false hnone
  · unfold classify at hd ⊢
    by_cases h1 : (opsOf c T).all isGet = true
    · simp only [h1, ↓reduceIte]
      apply sufOK_of_all _ c S false
      intro o ho
      exact (List.all_eq_true.mp h1) o (hsub o ho)
    · simp only [h1, Bool.false_eq_true, ↓reduceIte] at hd ⊢
      by_cases h2 : isClearFirst c T = true
      · simp only [h2, ↓reduceIte]
        unfold isClearFirst at h2
        split at h2
        · rename_i c' heq
          apply sufOK_first _ c S c' .clear (hsame.trans heq) rfl
          intro S' _
          exact sufOK_of_all _ c S' true (fun o _ => rfl)
        · cases h2
      · simp only [h2, Bool.false_eq_true, ↓reduceIte] at hd ⊢
        by_cases h3 : ((isWriteFirst c T && (opsOf c T).all isCellOp) || (opsOf c T).all isCellWrite) = true
        · simp only [h3, ↓reduceIte]
          rw [Bool.or_eq_true] at h3
          rcases h3 with h3 | h3
          · rw [Bool.and_eq_true] at h3
            have hw := h3.1
            unfold isWriteFirst at hw
            split at hw
            · rename_i c' o heq
              have hcell : ∀ o' ∈ opsOf c T, isCellOp o' = true := List.all_eq_true.mp h3.2
              have ho : o ∈ opsOf c T := by
                have hmem := List.mem_of_find?_eq_some heq
                have hmen := List.find?_some heq
                have hc := (mentions_op c c' o).mp hmen
                simp only [opsOf, List.mem_flatMap]
                exact ⟨_, hmem, by simp [instrOps, hc]⟩
              apply sufOK_first _ c S c' o (hsame.trans heq)
              · simp [okOp, hcell o ho, hw]
              · intro S' hS'
                apply sufOK_of_all _ c S' true
                intro o' ho'
                simp [okOp, hcell o' (hsub o' (hS' o' ho'))]
            · cases hw
          · apply sufOK_of_all _ c S false
            intro o ho
            have hw : isCellWrite o = true := (List.all_eq_true.mp h3) o (hsub o ho)
            have hc : isCellOp o = true := by
              clear h3 h1 h2 ho
              cases o with
              | put k => cases k <;> simp_all [isCellWrite, isCellOp, kindOf]
              | putConst v => rfl
              | refresh => rfl
              | clear => simp [isCellWrite] at hw
              | bump d => simp [isCellWrite] at hw
              | get k => simp [isCellWrite] at hw
              | memo k => simp [isCellWrite] at hw
            simp [okOp, hw, hc]
        · simp only [h3, Bool.false_eq_true, ↓reduceIte] at hd ⊢
          by_cases h4 : (opsOf c T).all isLiveOp = true
          · simp only [h4, ↓reduceIte]
            apply sufOK_of_all _ c S false
            intro o ho
            exact (List.all_eq_true.mp h4) o (hsub o ho)
          · simp [h4] at hd

/-! ### what every history leaves behind -/

/-- access `o` of component `c` keeps the property `Q c` of that component's map -/
def Keeps (Q : Nat → Map → Prop) (r : Nat) (val : Nat → Nat → Int) (c : Nat) (o : Op) : Prop :=
  ∀ n m, Q c m → Q c (applyOp r (val c) o n m).1

theorem perform_keeps (Q : Nat → Map → Prop) (r : Nat) (val : Nat → Nat → Int) (c : Nat) (o : Op) (n : Nat) (σ : St)
    (hk : Keeps Q r val c o) (h : ∀ c', Q c' (σ.1 c')) : ∀ c', Q c' ((perform r val c o n σ).1.1 c') := by
  intro c'
  simp only [perform, setComp]
  by_cases hc : c' = c
  · subst hc; simp only [↓reduceIte]; exact hk n _ (h c')
  · simp only [hc, ↓reduceIte]; exact h c'

theorem runProg_keeps (Q : Nat → Map → Prop) (r : Nat) (val : Nat → Nat → Int) (al : List (Nat × Op))
    (hal : ∀ p ∈ al, Keeps Q r val p.1 p.2) :
    ∀ (P : Prog) (σ : St), (∀ c, Q c (σ.1 c)) → ∀ c, Q c ((runProg al r val P σ).1 c) := by
  intro P
  induction P with
  | done => intro σ h; exact h
  | act c o n k ih =>
    intro σ h
    simp only [runProg]
    by_cases hin : al.contains (c, o) = true
    · simp only [hin, ↓reduceIte]
      exact ih _ _ (perform_keeps Q r val c o n σ (hal (c, o) (by simpa using hin)) h)
    · simp only [hin, Bool.false_eq_true, ↓reduceIte]
      exact ih none σ h

theorem execFrom_keeps (Q : Nat → Map → Prop) (r : Nat) (val : Nat → Nat → Int) (prog : Nat → Prog) :
    ∀ (S : Script) (idx : Nat) (x : Ex), (∀ c o, o ∈ opsOf c S → Keeps Q r val c o) →
      (∀ p ∈ x.2, Keeps Q r val p.1 p.2) → (∀ c, Q c (x.1.1 c)) →
      (∀ c, Q c ((execFrom r val prog idx S x).1.1 c)) ∧ ∀ p ∈ (execFrom r val prog idx S x).2, Keeps Q r val p.1 p.2 := by
  intro S
  induction S with
  | nil => intro idx x _ h2 h3; exact ⟨h3, h2⟩
  | cons ins rest ih =>
    intro idx x hops hstk hq
    simp only [execFrom]
    have hrest : ∀ c o, o ∈ opsOf c rest → Keeps Q r val c o :=
      fun c o ho => hops c o (mem_opsOf_cons_right c ins rest o ho)
    cases ins with
    | op c o =>
      refine ih (idx + 1) ((perform r val c o 0 x.1).1, x.2) hrest hstk ?_
      exact perform_keeps Q r val c o 0 x.1 (hops c o (mem_opsOf_cons_left c _ rest o (by simp [instrOps]))) hq
    | free al =>
      refine ih (idx + 1) (runProg al r val (prog idx) x.1, x.2) hrest hstk ?_
      apply runProg_keeps Q r val al _ (prog idx) x.1 hq
      intro p hp
      exact hops p.1 p.2 (mem_opsOf_cons_left p.1 _ rest p.2 (mem_instrOps_free al p hp))
    | defer c o =>
      refine ih (idx + 1) (x.1, (c, o) :: x.2) hrest ?_ hq
      intro p hp
      rcases List.mem_cons.mp hp with rfl | hp'
      · exact hops c o (mem_opsOf_cons_left c _ rest o (by simp [instrOps]))
      · exact hstk p hp'

theorem runDefers_keeps (Q : Nat → Map → Prop) (r : Nat) (val : Nat → Nat → Int) :
    ∀ (stk : List (Nat × Op)) (σ : St), (∀ p ∈ stk, Keeps Q r val p.1 p.2) → (∀ c, Q c (σ.1 c)) →
      ∀ c, Q c ((runDefers r val stk σ).1 c) := by
  intro stk
  induction stk with
  | nil => intro σ _ h; exact h
  | cons p rest ih =>
    intro σ hk h
    obtain ⟨c, o⟩ := p
    simp only [runDefers]
    exact ih _ (fun q hq => hk q (List.mem_cons_of_mem _ hq)) (perform_keeps Q r val c o 0 σ (hk (c, o) (by simp)) h)

/-- what is known of a component's map after any history: a `constant` component is as the interpreter started it;
    an identity-keyed table holds nothing under the keys of runs that have not happened yet (`FreshIds`) -/
def InvC (d : Discipline) (runs : Nat) (m : Map) : Prop :=
  match d with
  | .constant => m = Map.empty
  | .keyedByLiveNodeIdentity => ∀ r' n, runs ≤ r' → m (.live r' n) = none
  | _ => True

def Inv (T : Script) (G : Globals) : Prop := ∀ c, InvC (classify T c) G.runs (G.g c)

theorem inv_init (T : Script) : Inv T init := by
  intro c
  unfold InvC
  split
  · rfl
  · intro _ _ _; rfl
  · trivial

theorem reached_ops (T : Script) (i : Input) (c : Nat) (o : Op) (h : o ∈ opsOf c (reached T i)) : o ∈ opsOf c T := by
  unfold reached at h
  split at h
  · exact h
  · exact opsOf_take c T _ o h

theorem reached_first (T : Script) (i : Input) (c : Nat) :
    firstTouch c (reached T i) = none ∨ firstTouch c (reached T i) = firstTouch c T := by
  unfold reached
  split
  · exact Or.inr rfl
  · exact firstTouch_take c T _

/-- any run — finished or cut short, whatever it does — keeps the invariant -/
theorem inv_runIn (T : Script) (G : Globals) (i : Input) (h : Inv T G) : Inv T (runIn T G i).2 := by
  let Q : Nat → Map → Prop := fun c m => InvC (classify T c) (G.runs + 1) m
  have hkeeps : ∀ c o, o ∈ opsOf c (reached T i) → Keeps Q G.runs i.val c o := by
    intro c o ho n m hq
    have hoT := reached_ops T i c o ho
    show InvC (classify T c) (G.runs + 1) _
    have hq' : InvC (classify T c) (G.runs + 1) m := hq
    cases hcl : classify T c with
    | constant =>
      rw [hcl] at hq'
      obtain ⟨k, rfl⟩ := isGet_kind o ((List.all_eq_true.mp (classify_constant T c hcl)) o hoT)
      exact hq'
    | keyedByLiveNodeIdentity =>
      rw [hcl] at hq'
      have hlive : kindOf o = some .liveNode := by
        simpa [isLiveOp] using (List.all_eq_true.mp (classify_keyed T c hcl)) o hoT
      intro r' n' hr'
      have hne : ∀ n'', Key.live r' n' ≠ Key.live G.runs n'' := by
        intro n'' e; injection e with e1 _; omega
      have hold := hq' r' n' hr'
      cases o with
      | clear => simp [kindOf] at hlive
      | putConst v => simp [kindOf] at hlive
      | bump d => simp [kindOf] at hlive
      | refresh => simp [kindOf] at hlive
      | put k =>
        simp only [kindOf, Option.some.injEq] at hlive; subst hlive
        simp [applyOp, Map.set, resolve, hne, hold]
      | get k => simpa [applyOp] using hold
      | memo k =>
        simp only [kindOf, Option.some.injEq] at hlive; subst hlive
        simp only [applyOp, resolve]
        cases m (Key.live G.runs n) <;> simp [Map.set, hne, hold]
    | resetAtRunStart => trivial
    | overwrittenBeforeRead => trivial
    | leaks => trivial
  have hstart : ∀ c, Q c (G.g c) := by
    intro c
    have := h c
    show InvC (classify T c) (G.runs + 1) (G.g c)
    cases hcl : classify T c with
    | constant => rw [hcl] at this; exact this
    | keyedByLiveNodeIdentity =>
      rw [hcl] at this
      intro r' n hr'; exact this r' n (by omega)
    | resetAtRunStart => trivial
    | overwrittenBeforeRead => trivial
    | leaks => trivial
  have h1 := execFrom_keeps Q G.runs i.val i.prog (reached T i) 0 ((G.g, []), []) hkeeps (by simp) hstart
  exact runDefers_keeps Q G.runs i.val _ _ h1.2 h1.1

theorem inv_after (T : Script) : ∀ (hist : List Input) (G : Globals), Inv T G → Inv T (after T G hist) := by
  intro hist
  induction hist with
  | nil => intro G h; exact h
  | cons i rest ih => intro G h; exact ih _ (inv_runIn T G i h)

/-- **a run from globals that satisfy the invariant reads what it would read in a fresh interpreter** -/
theorem runIn_sim (T : Script) (hnl : ∀ c, classify T c ≠ .leaks) (G : Globals) (h : Inv T G) (i : Input) :
    (runIn T G i).1 = (runIn T init i).1 := by
  have hsuf : ∀ c, sufOK (classify T c) c false (reached T i) = true :=
    fun c => classify_sufOK T c _ (reached_ops T i c) (reached_first T i c) (hnl c)
  have hrel : ∀ c, RelC (classify T c) false G.runs (G.g c) (init.g c) := by
    intro c kk hn
    have hc := h c
    cases hcl : classify T c with
    | constant =>
      rw [hcl] at hc
      have : G.g c = Map.empty := hc
      intro n; rw [this]; rfl
    | keyedByLiveNodeIdentity =>
      rw [hcl] at hc hn
      have : kk = .liveNode := by simpa [need] using hn
      subst this
      intro n
      exact hc G.runs n (Nat.le_refl _)
    | resetAtRunStart => rw [hcl] at hn; simp [need] at hn
    | overwrittenBeforeRead => rw [hcl] at hn; simp [need] at hn
    | leaks => exact absurd hcl (hnl c)
  obtain ⟨F', h1, h2, h3, h4⟩ := execFrom_sim (classify T) G.runs i.val i.prog (reached T i) 0 (fun _ => false)
    ((G.g, []), []) ((init.g, []), []) hsuf rfl rfl hrel (by intro p hp; cases hp)
  simp only [runIn]
  rw [show init.runs = 0 from rfl, ← h2]
  exact runDefers_sim (classify T) G.runs i.val _ F' _ _ h4 h1 h3

theorem opsOf_untouched (c : Nat) : ∀ (T : Script), c ∉ comps T → opsOf c T = [] := by
  intro T
  induction T with
  | nil => intro _; rfl
  | cons ins rest ih =>
    intro h
    simp only [comps, List.flatMap_cons, List.mem_append, not_or] at h
    simp only [opsOf, List.flatMap_cons, List.append_eq_nil_iff]
    refine ⟨?_, ih h.2⟩
    cases ins with
    | op c' o =>
      have : ¬ c' = c := fun e => h.1 (by simp [instrComps, e])
      simp [instrOps, this]
    | free al =>
      simp only [instrOps, List.map_eq_nil_iff, List.filter_eq_nil_iff]
      intro p hp hpc
      apply h.1
      simp only [instrComps, List.mem_map]
      exact ⟨p, hp, by simpa using hpc⟩
    | defer c' o =>
      have : ¬ c' = c := fun e => h.1 (by simp [instrComps, e])
      simp [instrOps, this]

/-- the executable test `noLeaks` covers every component number: one the script never touches is `constant` -/
theorem noLeaks_all (T : Script) (h : noLeaks T = true) : ∀ c, classify T c ≠ .leaks := by
  intro c
  by_cases hc : c ∈ comps T
  · have := (List.all_eq_true.mp h) c hc
    simpa using this
  · have : classify T c = .constant := by
      unfold classify
      simp [opsOf_untouched c T hc]
    rw [this]; intro e; cases e

end RefurbVerif.History
