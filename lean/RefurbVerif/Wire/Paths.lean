import RefurbVerif.Wire.Basic
import RefurbVerif.Wire.Settings
import RefurbVerif.Model.Paths
open Lean

namespace RefurbVerif.Wire
open RefurbVerif.Paths

def ppathJ (p : PPath) : Json := Json.mkObj [("abs", p.abs), ("parts", toJson p.parts)]

def toPPath (j : Json) : PPath := { abs := bool j "abs", parts := strs j "parts" }

/-- `[[link components], "readlink text"]` pairs; the target is parsed like any other path -/
def toLinks (j : Json) (k : String) : Links :=
  (arr j k).filterMap (fun kv =>
    match kv with
    | .arr #[.arr ks, .str tgt] => some (ks.toList.filterMap (fun x => x.getStr?.toOption), parsePath tgt)
    | _ => none)

def optPartsJ : Option (List String) → Json
  | some r => toJson r
  | none => Json.null

def optBoolJ : Option Bool → Json
  | some b => Json.bool b
  | none => Json.null

def toAmendDiag (j : Json) : AmendDiag :=
  { file := str j "file", pfx := str j "prefix", code := nat j "code", categories := strs j "categories" }

/-- verbs: parse_path, config_root, path_join, resolve, relative, amend -/
def handlePaths (verb : String) (j : Json) : Option Json :=
  match verb with
  | "parse_path" => some (ppathJ (parsePath (str j "s")))
  | "config_root" => some (ppathJ (configRoot (optStr j "config_file")))
  | "path_join" => some (ppathJ ((parsePath (str j "a")).join (parsePath (str j "b"))))
  | "resolve" =>
    let fs := toLinks j "links"
    some (Json.mkObj [("r", Json.arr ((strs j "paths").map (fun s =>
      optPartsJ (resolvePy fs (nat j "fuel") (strs j "cwd") (parsePath s)))).toArray)])
  | "relative" => some (Json.mkObj [("r", isRelativeTo (strs j "p") (strs j "q"))])
  | "amend" =>
    -- one settings (config_file + ignore entries), one environment, many diagnostics
    let fs := toLinks j "links"
    let R : Resolver := resolvePy fs (nat j "fuel") (strs j "cwd")
    let s : Settings := { ignore := (arr j "ignore").map toClsf, configFile := optStr j "config_file" }
    some (Json.mkObj [("r", Json.arr ((arr j "diags").map (fun d =>
      optBoolJ (ignoredViaAmend R s (toAmendDiag d)))).toArray)])
  | _ => none

end RefurbVerif.Wire
