import RefurbVerif.Wire.Basic
import RefurbVerif.Model.Settings
open Lean

namespace RefurbVerif.Wire

partial def toToml (j : Json) : Toml :=
  match str j "t" with
  | "str" => .str (str j "v")
  | "int" => .int (int j "v")
  | "float" => .float (str j "py") (bool j "truthy")
  | "bool" => .bool (bool j "v")
  | "datetime" => .datetime (str j "py")
  | "arr" => .arr ((arr j "items").map toToml) (str j "py")
  | _ => .tbl ((arr j "items").filterMap (fun kv =>
      match kv with
      | .arr #[.str k, v] => some (k, toToml v)
      | _ => none)) (str j "py")

def tomlTable (j : Json) : Table :=
  match toToml j with
  | .tbl items _ => items
  | _ => []

def clsfJ (c : Clsf) : Json :=
  match c.cls with
  | .code p i => Json.mkObj [("k", "code"), ("p", p), ("i", i), ("path", optJ Json.str c.path)]
  | .cat n => Json.mkObj [("k", "cat"), ("n", n), ("path", optJ Json.str c.path)]

def toClsf (j : Json) : Clsf :=
  let path := optStr j "path"
  if str j "k" == "code" then { cls := .code (str j "p") (nat j "i"), path := path }
  else { cls := .cat (str j "n"), path := path }

def pairJ (p : Nat × Nat) : Json := Json.arr #[p.1, p.2]

def settingsJ (s : Settings) : Json := Json.mkObj [
  ("files", toJson s.files),
  ("explain", optJ (fun (c : String × Nat) => Json.arr #[Json.str c.1, c.2]) s.explain),
  ("ignore", Json.arr (s.ignore.map clsfJ).toArray),
  ("load", toJson s.load),
  ("enable", Json.arr (s.enable.map clsfJ).toArray),
  ("disable", Json.arr (s.disable.map clsfJ).toArray),
  ("debug", s.debug), ("generate", s.generate), ("help", s.help), ("version", s.version),
  ("quiet", s.quiet), ("enable_all", s.enableAll), ("disable_all", s.disableAll),
  ("config_file", optJ Json.str s.configFile),
  ("python_version", optJ pairJ s.pythonVersion),
  ("mypy_args", toJson s.mypyArgs),
  ("format", optJ Json.str s.format),
  ("sort_by", optJ Json.str s.sortBy),
  ("verbose", s.verbose),
  ("timing_stats", optJ Json.str s.timingStats),
  ("color", s.color)]

def toSettings (j : Json) : Settings := {
  ignore := (arr j "ignore").map toClsf
  enable := (arr j "enable").map toClsf
  disable := (arr j "disable").map toClsf
  enableAll := bool j "enable_all"
  disableAll := bool j "disable_all" }

def outcomeJ {α} (f : α → Json) : Except Err α → Json
  | .ok a => Json.mkObj [("r", "ok"), ("v", f a)]
  | .error (.refurb m) => Json.mkObj [("r", "refurb"), ("msg", m)]
  | .error (.foreign k) => Json.mkObj [("r", "foreign"), ("kind", k)]
  | .error (.crash k) => Json.mkObj [("r", "crash"), ("kind", k)]

def toFileOutcome (j : Json) : FileOutcome :=
  match str j "r" with
  | "ok" => .ok (tomlTable (obj j "doc"))
  | "notFound" => .notFound
  | "isDir" => .isDir
  | "invalid" => .invalid (str j "msg")
  | _ => .crash (str j "kind")

def toCheckSel (j : Json) : CheckSel :=
  { pfx := str j "prefix", code := nat j "code", categories := strs j "categories", enabled := bool j "enabled" }

/-- verbs: load_settings, parse_cli, parse_config, should_load -/
def handleSettings (verb : String) (j : Json) : Option Json :=
  match verb with
  | "load_settings" =>
    some (outcomeJ settingsJ (loadSettings (bool j "env_color") (strs j "args") (toFileOutcome (obj j "file"))))
  | "parse_cli" => some (outcomeJ settingsJ (parseCli (bool j "env_color") (strs j "args")))
  | "parse_config" => some (outcomeJ settingsJ (parseConfig (bool j "env_color") (tomlTable (obj j "doc"))))
  | "should_load" => some (Json.mkObj [("r", shouldLoad (toSettings (obj j "settings")) (toCheckSel (obj j "check")))])
  | "select" =>
    -- full pipeline: argv + config -> which of the given checks load
    match loadSettings (bool j "env_color") (strs j "args") (toFileOutcome (obj j "file")) with
    | .ok s => some (Json.mkObj [("r", "ok"),
        ("loaded", Json.arr (((arr j "checks").map toCheckSel).map (fun c => Json.bool (shouldLoad s c))).toArray)])
    | .error e => some (outcomeJ (fun (_ : Unit) => Json.null) (.error e))
  | _ => none

end RefurbVerif.Wire
