/-
C19 — `refurb gen` output is a loadable, working check for any node selection.

Model: Model/Gen.lean (gen.py's `build_imports`, `get_next_error_id … or 100`, `FILE_TEMPLATE.format`, `main`;
a token-level reading of the written file; loader.py's `extract_function_types` / `get_error_class` on that
reading; how often RefurbVisitor hands a node to the check).  Table: Generated/NodeTypes.lean (one row per
entry of `gen.NODES`), Generated/Catalogue.lean (codes in use).

All theorems hold for selections of any length, any catalogue of codes and any prefix; text is `List Char`.
`FiresOnce` (one diagnostic per node) is false of the current code and is kept as a refuted definition next
to the guarded version that holds.
-/
import RefurbVerif.Generated.NodeTypes
import RefurbVerif.Generated.Catalogue
import RefurbVerif.Lemmas.Gen
namespace RefurbVerif.C19
open RefurbVerif RefurbVerif.Gen RefurbVerif.Generated

/-! ### The table of offered node types -/

def isIdent (w : Str) : Bool :=
  match w with
  | [] => false
  | c :: _ => (c.isAlpha || c == '_') && w.all (fun c => c.isAlphanum || c == '_')

/-- names the template itself binds or mentions -/
def reserved : List String := ["dataclass", "Error", "ErrorInfo", "check", "node", "errors", "list", "None"]

/-- what the proofs need of one row: the name is an identifier that the template does not use itself, the
    module is a dotted name, the class is a valid node type and `from module import name` yields it -/
def rowOk (r : NodeType) : Bool :=
  isIdent r.name.toList && !r.module.toList.isEmpty && r.module.toList.all isWordChar
    && r.valid && r.importable && !reserved.contains r.name

def tableOk (tbl : Table) : Bool := tbl.all rowOk

def names (tbl : Table) : List Str := tbl.map (·.name.toList)

theorem isIdent_isWord (w : Str) (h : isIdent w = true) : IsWord w := by
  cases w with
  | nil => simp [isIdent] at h
  | cons c cs =>
    simp only [isIdent, Bool.and_eq_true, List.all_eq_true] at h
    refine ⟨by simp, fun x hx => ?_⟩
    have := h.2 x hx
    simp only [isWordChar, Bool.or_eq_true] at this ⊢
    rcases this with h1 | h1
    · exact Or.inl (Or.inl h1)
    · exact Or.inl (Or.inr h1)

theorem lookup_of_mem (tbl : Table) (n : Str) (h : n ∈ names tbl) :
    ∃ r, r ∈ tbl ∧ lookup tbl n = some r ∧ r.name.toList = n := by
  unfold lookup
  cases hf : tbl.find? (fun r => r.name.toList == n) with
  | none =>
    obtain ⟨r, hr, e⟩ := List.mem_map.mp h
    have := List.find?_eq_none.mp hf r hr
    simp [e] at this
  | some r =>
    exact ⟨r, List.mem_of_find?_eq_some hf, rfl, by simpa using List.find?_some hf⟩

structure RowFacts (tbl : Table) (n : Str) : Prop where
  word : IsWord n
  modWord : IsWord (moduleOf tbl n)
  valid : ∃ r, lookup tbl n = some r ∧ r.valid = true ∧ r.importable = true ∧ r.module.toList = moduleOf tbl n
  notReserved : ∀ s ∈ reserved, n ≠ s.toList

theorem rowFacts (tbl : Table) (hok : tableOk tbl = true) (n : Str) (h : n ∈ names tbl) : RowFacts tbl n := by
  obtain ⟨r, hr, hl, hn⟩ := lookup_of_mem tbl n h
  have hrow : rowOk r = true := by
    simp only [tableOk, List.all_eq_true] at hok; exact hok r hr
  simp only [rowOk, Bool.and_eq_true, Bool.not_eq_true', List.all_eq_true] at hrow
  obtain ⟨⟨⟨⟨⟨h1, h2⟩, h3⟩, h4⟩, h5⟩, h6⟩ := hrow
  have hm : moduleOf tbl n = r.module.toList := by simp [moduleOf, moduleOf?, hl]
  refine ⟨hn ▸ isIdent_isWord _ h1, ?_, ⟨r, hl, h4, h5, hm.symm⟩, ?_⟩
  · rw [hm]
    refine ⟨?_, h3⟩
    intro e; simp [e] at h2
  · intro s hs e
    have : r.name = s := by
      have := hn.trans e
      exact String.toList_inj.mp this
    rw [this] at h6
    simp [hs] at h6

/-- the hypotheses of the property: a non-empty, duplicate-free selection of offered node types -/
structure Sel (tbl : Table) (sel : List Str) : Prop where
  nonempty : sel ≠ []
  nodup : sel.Nodup
  offered : ∀ n ∈ sel, n ∈ names tbl

/-- a prefix as the documentation asks for it: 3–4 upper-case ASCII letters -/
def validPrefix (p : Str) : Bool := (p.length == 3 || p.length == 4) && p.all Char.isUpper

theorem validPrefix_isWord (p : Str) (h : validPrefix p = true) : IsWord p := by
  simp only [validPrefix, Bool.and_eq_true, List.all_eq_true] at h
  refine ⟨?_, fun c hc => ?_⟩
  · intro e; simp [e] at h
  · have := h.2 c hc
    simp only [isWordChar, Char.isAlphanum, Char.isAlpha, Bool.or_eq_true]
    exact Or.inl (Or.inl (Or.inl (Or.inl this)))

/-! ### What a generated file reads back as -/

/-- what a rendered file reads back as -/
def expectedReading (modOf : Str → Str) (sel : List Str) (pfx : Str) (id : Nat) : Reading :=
  { imports := ("dataclasses".toList, "dataclass".toList) :: pairsOf (sortedGroups modOf sel)
      ++ [("refurb.error".toList, "Error".toList)]
    classes := [("ErrorInfo".toList, "Error".toList)]
    pfx := some pfx
    code := some (natChars id)
    params := some [("node".toList, sepToks '|' sel), ("errors".toList, errorAnn)]
    pattern := some sel }

/-- **The reading of a rendered file**: its imports, class header, prefix, code, `check` signature and
    `case` arm are exactly what the template was filled with — for a selection of any length. -/
theorem read_render (modOf : Str → Str) (sel : List Str) (pfx : Str) (id : Nat)
    (hn : ∀ n ∈ sel, IsWord n) (hm : ∀ n ∈ sel, IsWord (modOf n)) (hp : IsWord pfx) (hne : sel ≠ []) :
    Gen.read (render modOf sel pfx id) = expectedReading modOf sel pfx id := by
  unfold Gen.read render
  rw [splitOn_unlines _ (fileLines_no_nl modOf sel pfx id hn hm hp)]
  have e : fileLines modOf sel pfx id ++ [[]] =
      headLines ++ (importLines modOf sel ++ (classLines ++ ([prefixLine pfx] ++ ([codeLine id] ++ (msgLines
        ++ ([defLine sel] ++ ([matchLine] ++ ([caseLine sel] ++ [appendLine, []])))))))) := by
    simp [fileLines]
  rw [e]
  simp only [readLines_append, readLines_head, readLines_importLines modOf sel hn hm, readLines_class,
    readLines_prefixLine pfx hp, readLines_codeLine, readLines_msg, readLines_defLine sel hn, readLines_match,
    readLines_caseLine sel hn hne, readLines_tail]
  simp [Reading.append, Reading.empty, expectedReading]


theorem read_gen (tbl : Table) (hok : tableOk tbl = true) (sel : List Str) (hs : Sel tbl sel) (pfx : Str)
    (hp : IsWord pfx) (id : Nat) :
    Gen.read (render (moduleOf tbl) sel pfx id) = expectedReading (moduleOf tbl) sel pfx id :=
  read_render _ sel pfx id (fun n hn => (rowFacts tbl hok n (hs.offered n hn)).word)
    (fun n hn => (rowFacts tbl hok n (hs.offered n hn)).modWord) hp hs.nonempty

/-! ### Imports -/

/-- the names bound by the import lines, as a multiset -/
theorem importNames_perm (modOf : Str → Str) (sel : List Str) (pfx : Str) (id : Nat) :
    ((expectedReading modOf sel pfx id).imports.map (·.2)).Perm ("dataclass".toList :: sel ++ ["Error".toList]) := by
  have h := (pairsOf_sortedGroups modOf sel).map (·.2)
  simp only [List.map_map] at h
  have e : (List.map ((fun x => x.2) ∘ fun n => (modOf n, n)) sel) = sel := by simp [Function.comp_def]
  rw [e] at h
  simp only [expectedReading, List.map_cons, List.map_append, List.map_nil, List.cons_append]
  exact List.Perm.cons _ (h.append_right _)

theorem eq_of_nodup_map {α β} {f : α → β} {l : List α} (h : (l.map f).Nodup) {x y : α} (hx : x ∈ l) (hy : y ∈ l)
    (e : f x = f y) : x = y := by
  induction l with
  | nil => simp at hx
  | cons a l ih =>
    simp only [List.map_cons, List.nodup_cons, List.mem_map, not_exists, not_and] at h
    rcases List.mem_cons.mp hx with h1 | h1 <;> rcases List.mem_cons.mp hy with h2 | h2
    · rw [h1, h2]
    · subst h1; exact absurd e.symm (h.1 y h2)
    · subst h2; exact absurd e (h.1 x h1)
    · exact ih h.2 h1 h2

theorem find_unique {α} (p : α → Bool) (l : List α) (a : α) (ha : a ∈ l) (hp : p a = true)
    (hu : ∀ x ∈ l, p x = true → x = a) : l.find? p = some a := by
  cases h : l.find? p with
  | none => exact absurd hp (List.find?_eq_none.mp h a ha)
  | some b => rw [hu b (List.mem_of_find?_eq_some h) (List.find?_some h)]

/-- **Every selected name is imported, from the module that defines it, exactly once**: the file's
    import lines bind `dataclass`, `Error` and the selected names and nothing else; no name is bound
    twice; and each selected name is bound to the class its defining module exports. -/
theorem imports_cover_selection (tbl : Table) (hok : tableOk tbl = true) (sel : List Str) (hs : Sel tbl sel)
    (pfx : Str) (hp : IsWord pfx) (id : Nat) :
    let r := Gen.read (render (moduleOf tbl) sel pfx id)
    (r.imports.map (·.2)).Perm ("dataclass".toList :: sel ++ ["Error".toList])
      ∧ (r.imports.map (·.2)).Nodup
      ∧ ∀ n ∈ sel, (moduleOf tbl n, n) ∈ r.imports ∧ r.resolve n = some (moduleOf tbl n) := by
  intro r
  have hr : r = expectedReading (moduleOf tbl) sel pfx id := read_gen tbl hok sel hs pfx hp id
  have hperm := importNames_perm (moduleOf tbl) sel pfx id
  have hnd : ("dataclass".toList :: sel ++ ["Error".toList]).Nodup := by
    have h1 : "dataclass".toList ∉ sel := fun h =>
      (rowFacts tbl hok _ (hs.offered _ h)).notReserved "dataclass" (by decide) rfl
    have h2 : "Error".toList ∉ sel := fun h =>
      (rowFacts tbl hok _ (hs.offered _ h)).notReserved "Error" (by decide) rfl
    simp only [List.cons_append, List.nodup_cons, List.mem_append, List.mem_singleton, not_or]
    refine ⟨⟨h1, by decide⟩, ?_⟩
    exact List.nodup_append.mpr ⟨hs.nodup, by simp, by
      intro a ha b hb; simp only [List.mem_singleton] at hb; subst hb; intro e; subst e; exact h2 ha⟩
  have hnd' : (r.imports.map (·.2)).Nodup := by rw [hr]; exact hperm.nodup_iff.mpr hnd
  refine ⟨by rw [hr]; exact hperm, hnd', fun n hn => ?_⟩
  have hmem : (moduleOf tbl n, n) ∈ r.imports := by
    rw [hr]
    have : (moduleOf tbl n, n) ∈ pairsOf (sortedGroups (moduleOf tbl) sel) :=
      (pairsOf_sortedGroups (moduleOf tbl) sel).mem_iff.mpr (List.mem_map.mpr ⟨n, hn, rfl⟩)
    simp [expectedReading, this]
  refine ⟨hmem, ?_⟩
  unfold Reading.resolve
  have : r.imports.reverse.find? (fun p => p.2 = n) = some (moduleOf tbl n, n) := by
    apply find_unique
    · simpa using hmem
    · simp
    · intro x hx hpx
      have hx' : x ∈ r.imports := by simpa using hx
      have hx2 : x.2 = n := by simpa using hpx
      -- two imports of the same name would contradict `hnd'`
      have := eq_of_nodup_map hnd' hx' hmem (by simpa using hx2)
      exact this
  simp [this]


/-- **One import line per module, modules in ascending order, names in ascending order**: what
    `build_imports` emits for the sorted selection. -/
theorem import_lines_ordered (modOf : Str → Str) (raw : List Str) :
    ((sortedGroups modOf (selected raw)).map (·.1)).Nodup
      ∧ Sorted (fun a b => leChars a.1 b.1) (sortedGroups modOf (selected raw))
      ∧ Sorted leChars (selected raw) :=
  ⟨(sortedGroups_keys modOf _).1, (sortedGroups_keys modOf _).2, sorted_ssort _ leChars_total leChars_trans _⟩

/-! ### The loader accepts the signature -/

theorem eraseDups_of_nodup (l : List Str) (h : l.Nodup) : l.eraseDups = l := by
  induction l with
  | nil => simp
  | cons a l ih =>
    have ha : a ∉ l := (List.nodup_cons.mp h).1
    have hl : l.Nodup := (List.nodup_cons.mp h).2
    rw [List.eraseDups_cons]
    have : l.filter (fun b => !b == a) = l := by
      apply List.filter_eq_self.mpr
      intro b hb
      have : b ≠ a := fun e => ha (e ▸ hb)
      simp [this]
    rw [this, ih hl]

/-- `extract_function_types` on a two-parameter signature whose first annotation is a union of bound, valid names -/
theorem extract_ok (bound valid : Str → Bool) (a b : Str) (ann : List Tok) (names : List Str)
    (hparse : parseSep '|' ann = some names) (hb : names.find? (fun n => !bound n) = none)
    (hv : names.eraseDups.find? (fun n => !valid n) = none) :
    extractFunctionTypes bound valid (some [(a, ann), (b, errorAnn)]) = .ok names.eraseDups := by
  unfold extractFunctionTypes
  simp only [hparse, hb, hv]
  simp only [List.length_nil, gt_iff_lt, Nat.not_lt_zero, if_false, ne_eq, not_true_eq_false, List.find?_nil]

/-- **The loader accepts the generated signature**: `node:` is annotated `A | B | …` with exactly the
    selected names, each bound to a valid node class, the second parameter is `list[Error]`, there are
    two parameters — so `extract_function_types` raises nothing and registers the check under
    exactly the selected node types. -/
theorem accept_type_valid (tbl : Table) (hok : tableOk tbl = true) (sel : List Str) (hs : Sel tbl sel)
    (pfx : Str) (hp : IsWord pfx) (id : Nat) :
    let r := Gen.read (render (moduleOf tbl) sel pfx id)
    r.params = some [("node".toList, sepToks '|' sel), ("errors".toList, errorAnn)]
      ∧ parseSep '|' (sepToks '|' sel) = some sel
      ∧ loadTypes tbl r = .ok sel := by
  intro r
  have hr : r = expectedReading (moduleOf tbl) sel pfx id := read_gen tbl hok sel hs pfx hp id
  have himp := (imports_cover_selection tbl hok sel hs pfx hp id).2.2
  have hparse := parseSep_sepToks '|' sel hs.nonempty
  have hpar : r.params = some [("node".toList, sepToks '|' sel), ("errors".toList, errorAnn)] := by
    rw [hr]; simp [expectedReading]
  refine ⟨hpar, hparse, ?_⟩
  have hbound : sel.find? (fun n => !r.bound n) = none := by
    apply List.find?_eq_none.mpr
    intro n hn
    have := (himp n hn).2
    simp [Reading.bound, show r.resolve n = some (moduleOf tbl n) from this]
  have hvalid : sel.find? (fun n => !validIn tbl r n) = none := by
    apply List.find?_eq_none.mpr
    intro n hn
    obtain ⟨row, hl, hv, _, hm⟩ := (rowFacts tbl hok n (hs.offered n hn)).valid
    have := (himp n hn).2
    simp [validIn, hl, hv, hm, show r.resolve n = some (moduleOf tbl n) from this]
  unfold loadTypes
  rw [hpar, extract_ok _ _ _ _ _ sel hparse hbound (by rw [eraseDups_of_nodup sel hs.nodup]; exact hvalid),
    eraseDups_of_nodup sel hs.nodup]

/-! ### The `case` arm -/

/-- **The match arm lists exactly the selected classes**, so it matches a node iff the node's class is
    one of them or a subclass of one of them (`isinstance`). -/
theorem pattern_matches_exactly (tbl : Table) (hok : tableOk tbl = true) (sel : List Str) (hs : Sel tbl sel)
    (pfx : Str) (hp : IsWord pfx) (id : Nat) :
    (Gen.read (render (moduleOf tbl) sel pfx id)).pattern = some sel
      ∧ ∀ k, patternMatches tbl sel k = true ↔ ∃ n ∈ sel, isSub tbl k n = true := by
  refine ⟨by rw [read_gen tbl hok sel hs pfx hp id]; rfl, fun k => ?_⟩
  simp [patternMatches, List.any_eq_true]

/-! ### When the check fires -/

/-- the visitor chains exactly to the visit methods of the offered superclasses -/
def chainsOk (tbl : Table) : Bool := tbl.all (fun r => r.chainsTo == r.supers)

theorem chainOf_eq_supersOf (tbl : Table) (h : chainsOk tbl = true) (k : Str) : chainOf tbl k = supersOf tbl k := by
  unfold chainOf supersOf
  cases hl : lookup tbl k with
  | none => rfl
  | some r =>
    have hr : r ∈ tbl := List.mem_of_find?_eq_some hl
    simp only [chainsOk, List.all_eq_true] at h
    have := h r hr
    simp only [beq_iff_eq] at this
    simp [this]

/-- **The check fires on nodes of exactly the selected types**: a node of class `k` gets at least one
    diagnostic iff `k` is a selected class or a subclass of one. -/
theorem fires_exactly_selected (tbl : Table) (hc : chainsOk tbl = true) (sel : List Str) (k : Str) :
    0 < fireCount tbl sel sel k ↔ ∃ n ∈ sel, isSub tbl k n = true := by
  unfold fireCount
  constructor
  · intro h
    split at h
    · rename_i hm; simpa [patternMatches, List.any_eq_true] using hm
    · omega
  · rintro ⟨n, hn, hsub⟩
    have hm : patternMatches tbl sel k = true := by
      simp only [patternMatches, List.any_eq_true]; exact ⟨n, hn, hsub⟩
    simp only [hm, if_true]
    apply List.length_pos_iff.mpr
    have hmem : n ∈ (handedTo tbl k).filter (sel.contains ·) := by
      apply List.mem_filter.mpr
      refine ⟨?_, by simpa using hn⟩
      simp only [isSub, Bool.or_eq_true, beq_iff_eq, List.contains_iff_mem] at hsub
      rcases hsub with rfl | hsub
      · simp [handedTo]
      · simp [handedTo, chainOf_eq_supersOf tbl hc, hsub]
    exact List.ne_nil_of_mem hmem

/-- The stronger reading — every node of a selected type gets exactly one diagnostic. -/
def FiresOnce (tbl : Table) : Prop :=
  ∀ sel k, Sel tbl sel → fireCount tbl sel sel k ≤ 1

/-- It is false of the current code: with `FuncItem` and `FuncDef` both selected, `visit_func_def` runs the
    check and then chains to `visit_func`, which runs it again — every function definition is
    reported twice. -/
theorem fires_once_refuted : ¬ FiresOnce nodeTypes := by
  intro h
  have := h ["FuncDef".toList, "FuncItem".toList] "FuncDef".toList
    ⟨by simp, by decide, by decide +kernel⟩
  revert this
  decide +kernel

/-- every offered class is visited by its own method only, except the listed ones, which chain to one more -/
def chainsOnly (tbl : Table) (subs : List String) (sup : String) : Bool :=
  tbl.all (fun r => r.chainsTo == [] || (subs.contains r.name && r.chainsTo == [sup]))

/-- **Exactly once, unless a class is selected together with its base class**: if the only chained visit
    is `subs → sup` and the selection does not contain `sup` together with one of `subs`, no node is
    reported twice. -/
theorem fires_once_partial (tbl : Table) (subs : List String) (sup : String) (h : chainsOnly tbl subs sup = true)
    (sel : List Str) (hguard : sup.toList ∈ sel → ∀ s ∈ subs, s.toList ∉ sel) (k : Str) :
    fireCount tbl sel sel k ≤ 1 := by
  unfold fireCount
  split
  · unfold handedTo chainOf
    cases hl : lookup tbl k with
    | none => simp only [List.filter_cons]; split <;> simp
    | some r =>
      have hr : r ∈ tbl := List.mem_of_find?_eq_some hl
      have hk : r.name.toList = k := by simpa [lookup] using List.find?_some hl
      simp only [chainsOnly, List.all_eq_true, Bool.or_eq_true, Bool.and_eq_true, beq_iff_eq] at h
      rcases h r hr with h1 | ⟨h1, h2⟩
      · simp only [h1, List.map_nil, List.filter_cons]; split <;> simp
      · simp only [h2, List.map_cons, List.map_nil, List.filter_cons, List.filter_nil]
        by_cases hs : sup.toList ∈ sel
        · have : k ∉ sel := hk ▸ hguard hs r.name (by simpa using h1)
          simp [this, hs]
        · simp only [List.contains_iff_mem, hs]; split <;> simp
  · omega


/-! ### The error class the loader finds -/

/-- **The loader finds `ErrorInfo`, with the chosen prefix and code**: among the module's names only
    `ErrorInfo` derives from `Error`, so `get_error_class` returns it whatever was selected. -/
theorem error_class_found (tbl : Table) (hok : tableOk tbl = true) (sel : List Str) (hs : Sel tbl sel)
    (pfx : Str) (hp : IsWord pfx) (id : Nat) :
    let r := Gen.read (render (moduleOf tbl) sel pfx id)
    getErrorClass r = some "ErrorInfo".toList ∧ r.pfx = some pfx ∧ r.code = some (natChars id) := by
  intro r
  have hr : r = expectedReading (moduleOf tbl) sel pfx id := read_gen tbl hok sel hs pfx hp id
  refine ⟨?_, by rw [hr]; rfl, by rw [hr]; rfl⟩
  unfold getErrorClass
  have hc : r.classes = [("ErrorInfo".toList, "Error".toList)] := by rw [hr]; rfl
  apply find_unique
  · apply (mem_ssort _ _ _).mpr
    simp [hc]
  · rw [hc]; decide
  · intro x _ hx
    rw [hc] at hx
    simp only [Bool.and_eq_true, List.contains_iff_mem, List.mem_singleton, Prod.mk.injEq] at hx
    exact hx.2.1

/-! ### The next free code -/

/-- the `highest = max(highest, id + 1)` loop: never decreases, exceeds every matching id, and is attained -/
theorem highest_foldl (ids : List (Str × Nat)) (pfx : Str) (h0 : Nat) :
    let h := ids.foldl (fun h e => if e.1 = pfx then max h (e.2 + 1) else h) h0
    h0 ≤ h ∧ (∀ e ∈ ids, e.1 = pfx → e.2 < h) ∧ (h = h0 ∨ ∃ e ∈ ids, e.1 = pfx ∧ h = e.2 + 1) := by
  induction ids generalizing h0 with
  | nil => simp
  | cons e ids ih =>
    simp only [List.foldl_cons]
    by_cases he : e.1 = pfx
    · simp only [he, if_true]
      obtain ⟨h1, h2, h3⟩ := ih (max h0 (e.2 + 1))
      refine ⟨by omega, ?_, ?_⟩
      · intro x hx hxp
        rcases List.mem_cons.mp hx with rfl | hx
        · omega
        · exact h2 x hx hxp
      · rcases h3 with h3 | ⟨x, hx, hxp, hx2⟩
        · by_cases hm : h0 ≤ e.2 + 1
          · right; exact ⟨e, by simp, he, by omega⟩
          · left; omega
        · right; exact ⟨x, by simp [hx], hxp, hx2⟩
    · simp only [he, if_false]
      obtain ⟨h1, h2, h3⟩ := ih h0
      refine ⟨h1, ?_, ?_⟩
      · intro x hx hxp
        rcases List.mem_cons.mp hx with rfl | hx
        · exact absurd hxp he
        · exact h2 x hx hxp
      · rcases h3 with h3 | ⟨x, hx, hxp, hx2⟩
        · exact Or.inl h3
        · right; exact ⟨x, by simp [hx], hxp, hx2⟩

/-- **The generated code is free and above every code of that prefix**; it is 100 exactly when the
    prefix is new, and otherwise one more than a code in use (the largest). -/
theorem next_id_fresh (ids : List (Str × Nat)) (pfx : Str) :
    (pfx, nextId ids pfx) ∉ ids
      ∧ (∀ e ∈ ids, e.1 = pfx → e.2 < nextId ids pfx)
      ∧ ((∀ e ∈ ids, e.1 ≠ pfx) → nextId ids pfx = 100)
      ∧ ((∃ e ∈ ids, e.1 = pfx) → ∃ e ∈ ids, e.1 = pfx ∧ nextId ids pfx = e.2 + 1) := by
  obtain ⟨_, h2, h3⟩ := highest_foldl ids pfx 0
  have hgt : ∀ e ∈ ids, e.1 = pfx → e.2 < nextId ids pfx := by
    intro e he hp
    have := h2 e he hp
    unfold nextId highest
    split <;> omega
  refine ⟨fun hmem => ?_, hgt, ?_, ?_⟩
  · exact Nat.lt_irrefl _ (hgt _ hmem rfl)
  · intro hnone
    rcases h3 with h3 | ⟨x, hx, hxp, _⟩
    · simp [nextId, highest, h3]
    · exact absurd hxp (hnone x hx)
  · rintro ⟨e, he, hp⟩
    have hpos : 0 < highest ids pfx := by have := h2 e he hp; unfold highest; omega
    rcases h3 with h3 | ⟨x, hx, hxp, hx2⟩
    · unfold highest at hpos; omega
    · refine ⟨x, hx, hxp, ?_⟩
      unfold nextId
      have : highest ids pfx = x.2 + 1 := hx2
      simp [this]

/-! ### Rendering determines its inputs -/

theorem natChars_inj (a b : Nat) (h : natChars a = natChars b) : a = b := by
  have ha := Nat.ofDigitChars_ten_toDigits (n := a)
  have hb := Nat.ofDigitChars_ten_toDigits (n := b)
  unfold natChars at h
  rw [h] at ha
  omega

/-- **Different selections, prefixes or codes never produce the same file.** -/
theorem render_injective (tbl : Table) (hok : tableOk tbl = true) (sel sel' : List Str) (hs : Sel tbl sel)
    (hs' : Sel tbl sel') (pfx pfx' : Str) (hp : IsWord pfx) (hp' : IsWord pfx') (id id' : Nat)
    (h : render (moduleOf tbl) sel pfx id = render (moduleOf tbl) sel' pfx' id') :
    sel = sel' ∧ pfx = pfx' ∧ id = id' := by
  have h1 := read_gen tbl hok sel hs pfx hp id
  have h2 := read_gen tbl hok sel' hs' pfx' hp' id'
  rw [h, h2] at h1
  have hpat := congrArg Reading.pattern h1
  have hpf := congrArg Reading.pfx h1
  have hcode := congrArg Reading.code h1
  simp only [expectedReading, Option.some.injEq] at hpat hpf hcode
  exact ⟨hpat.symm, hpf.symm, (natChars_inj _ _ hcode).symm⟩

/-! ### `main`: what gets written, where `__init__.py` goes -/

/-- **`gen.main()` writes the rendered check** for any non-empty duplicate-free multi-selection of
    offered node types (in whatever order the prompt returned them) and a target that ends in `.py`;
    the selection it renders is the sorted one and still satisfies the hypotheses above. -/
theorem gen_main_written (tbl : Table) (ids : List (Str × Nat)) (raw : List Str) (hs : Sel tbl raw) (file pfx : Str)
    (hf : suffix file = ".py".toList) :
    genMain tbl ids raw file pfx =
        .written (render (moduleOf tbl) (selected raw) pfx (nextId ids pfx)) (nextId ids pfx)
      ∧ Sel tbl (selected raw) := by
  have hperm : (selected raw).Perm raw := ssort_perm _ _
  have hsel : Sel tbl (selected raw) :=
    ⟨fun e => hs.nonempty (by simpa [e] using hperm.symm), hperm.nodup_iff.mpr hs.nodup,
      fun n hn => hs.offered n (hperm.mem_iff.mp hn)⟩
  refine ⟨?_, hsel⟩
  have hfind : (selected raw).find? (fun n => (lookup tbl n).isNone) = none := by
    apply List.find?_eq_none.mpr
    intro n hn
    obtain ⟨r, _, hl, _⟩ := lookup_of_mem tbl n (hsel.offered n hn)
    simp [hl]
  simp [genMain, hf, hfind]

/-- a target without the `.py` suffix is refused before anything is written -/
theorem gen_main_bad_suffix (tbl : Table) (ids : List (Str × Nat)) (raw : List Str) (file pfx : Str)
    (hf : suffix file ≠ ".py".toList) : genMain tbl ids raw file pfx = .badSuffix := by
  unfold genMain
  simp only [hf, ne_eq, not_false_eq_true, if_true]

/-- **Every package on the dotted path gets an `__init__.py`**: for a target `a/b/c.py` inside the
    working directory, each of `a`, `a/b` is in the list of folders `main` touches. -/
theorem init_covers_packages (ps : List Str) (k : Nat) (h1 : 0 < k) (h2 : k ≤ ps.length) :
    ps.take k ∈ initFolders ps := by
  cases ps with
  | nil => simp at h2; omega
  | cons p ps =>
    simp only [initFolders, List.mem_map, List.mem_range]
    simp only [List.length_cons] at h2
    exact ⟨ps.length + 1 - k, by omega, by congr 1; omega⟩

/-- … and nothing but prefixes of the target's folder (so nothing outside it) -/
theorem init_only_prefixes (ps : List Str) : ∀ f ∈ initFolders ps, ∃ k, f = ps.take k := by
  cases ps with
  | nil => intro f hf; simp [initFolders] at hf; exact ⟨0, by simp [hf]⟩
  | cons p ps =>
    intro f hf
    simp only [initFolders, List.mem_map, List.mem_range] at hf
    obtain ⟨j, _, rfl⟩ := hf
    exact ⟨_, rfl⟩

/-- a target placed directly in the working directory makes `main` create `__init__.py` in the working
    directory itself (`folders_needing_init_file(cwd) = [cwd]`) -/
theorem init_in_cwd : initFolders [] = [[]] := rfl

/-! ### The generated tables -/

/-- every offered node type has an identifier name the template does not use itself, a dotted defining
    module from which the name can be imported, and is a valid node type for the loader -/
theorem generated_table_ok : tableOk nodeTypes = true := by decide +kernel

/-- the base visit methods chain exactly to the offered superclasses' visit methods -/
theorem generated_chains_ok : chainsOk nodeTypes = true := by decide +kernel

/-- … and the only such chains are `FuncDef`/`LambdaExpr` → `FuncItem` -/
theorem generated_chains_only : chainsOnly nodeTypes ["FuncDef", "LambdaExpr"] "FuncItem" = true := by
  decide +kernel

theorem generated_names_nodup : (nodeTypes.map (·.name)).Nodup := by decide +kernel

/-- every offered node type is defined in `mypy.nodes` or `mypy.patterns` -/
theorem generated_modules : ∀ r ∈ nodeTypes, r.module = "mypy.nodes" ∨ r.module = "mypy.patterns" := by
  decide +kernel

/-- every offered superclass is itself offered -/
theorem generated_supers_offered : ∀ r ∈ nodeTypes, ∀ s ∈ r.supers, s ∈ nodeTypes.map (·.name) := by
  decide +kernel

/-- ids of the built-in catalogue as `get_next_error_id` sees them -/
def catalogueIds : List (Str × Nat) := catalogue.map (fun c => (c.pfx.toList, c.code))

/-- **For the current tree**: whatever non-empty duplicate-free set of offered node types is picked and
    whatever 3–4 letter prefix is typed, the file `refurb gen` writes imports every picked class from
    its defining module, is registered by the loader under exactly the picked types, matches exactly
    their instances, carries a code no built-in check of that prefix uses, and fires on a node iff
    its class is one of the picked ones or a subclass. -/
theorem gen_output_works (raw : List Str) (hs : Sel nodeTypes raw) (file pfx : Str)
    (hf : suffix file = ".py".toList) (hp : validPrefix pfx = true) :
    ∃ text id, genMain nodeTypes catalogueIds raw file pfx = .written text id
      ∧ (pfx, id) ∉ catalogueIds
      ∧ ((∀ e ∈ catalogueIds, e.1 ≠ pfx) → id = 100)
      ∧ loadTypes nodeTypes (Gen.read text) = .ok (selected raw)
      ∧ (Gen.read text).pattern = some (selected raw)
      ∧ getErrorClass (Gen.read text) = some "ErrorInfo".toList
      ∧ (Gen.read text).pfx = some pfx ∧ (Gen.read text).code = some (natChars id)
      ∧ (∀ n ∈ raw, (Gen.read text).resolve n = some (moduleOf nodeTypes n))
      ∧ ∀ k, 0 < fireCount nodeTypes (selected raw) (selected raw) k ↔ ∃ n ∈ raw, isSub nodeTypes k n = true := by
  obtain ⟨hw, hsel⟩ := gen_main_written nodeTypes catalogueIds raw hs file pfx hf
  have hpw := validPrefix_isWord pfx hp
  have hok := generated_table_ok
  have hid := next_id_fresh catalogueIds pfx
  have hperm : (selected raw).Perm raw := ssort_perm _ _
  refine ⟨_, _, hw, hid.1, hid.2.2.1, (accept_type_valid _ hok _ hsel pfx hpw _).2.2,
    (pattern_matches_exactly _ hok _ hsel pfx hpw _).1, (error_class_found _ hok _ hsel pfx hpw _).1,
    (error_class_found _ hok _ hsel pfx hpw _).2.1, (error_class_found _ hok _ hsel pfx hpw _).2.2, ?_, ?_⟩
  · intro n hn
    exact ((imports_cover_selection _ hok _ hsel pfx hpw _).2.2 n (hperm.mem_iff.mpr hn)).2
  · intro k
    rw [fires_exactly_selected _ generated_chains_ok]
    constructor
    · rintro ⟨n, hn, h⟩; exact ⟨n, hperm.mem_iff.mp hn, h⟩
    · rintro ⟨n, hn, h⟩; exact ⟨n, hperm.mem_iff.mpr hn, h⟩

/-- … and no node is reported twice unless `FuncItem` is picked together with `FuncDef` or `LambdaExpr`. -/
theorem gen_output_fires_once (sel : List Str)
    (hg : "FuncItem".toList ∈ sel → "FuncDef".toList ∉ sel ∧ "LambdaExpr".toList ∉ sel) (k : Str) :
    fireCount nodeTypes sel sel k ≤ 1 := by
  apply fires_once_partial nodeTypes ["FuncDef", "LambdaExpr"] "FuncItem" generated_chains_only sel
  intro h s hs
  simp only [List.mem_cons, List.mem_nil_iff, or_false] at hs
  rcases hs with rfl | rfl
  · exact (hg h).1
  · exact (hg h).2

/-! ### Non-vacuity -/

example : Sel nodeTypes ["CallExpr".toList, "AsPattern".toList] := ⟨by simp, by decide, by decide +kernel⟩
example : validPrefix "FURB".toList = true ∧ validPrefix "XYZ".toList = true := by decide
example : suffix "plugins/a/my_check.py".toList = ".py".toList := by decide
example : nextId catalogueIds "XYZ".toList = 100 := by decide +kernel
example : 100 < nextId catalogueIds "FURB".toList := by decide +kernel
example : sortedGroups (moduleOf nodeTypes) ["AsPattern".toList, "CallExpr".toList]
    = [("mypy.nodes".toList, ["CallExpr".toList]), ("mypy.patterns".toList, ["AsPattern".toList])] := by decide +kernel
example : fireCount nodeTypes ["FuncItem".toList] ["FuncItem".toList] "LambdaExpr".toList = 1 := by decide +kernel
example : fireCount nodeTypes ["FuncItem".toList] ["FuncItem".toList] "CallExpr".toList = 0 := by decide +kernel
example : initFolders ["a".toList, "b".toList] = [["a".toList, "b".toList], ["a".toList]] := by decide

/-! ### The written code is a Python literal -/

/-- Python's decimal integer literal (no underscores): digits only, and no leading zero unless every digit is zero
    (`008` is a SyntaxError: "leading zeros in decimal integer literals are not permitted") -/
def pyDecimal (cs : Str) : Bool :=
  !cs.isEmpty && cs.all Char.isDigit && (cs.head? != some '0' || cs.all (· == '0'))

theorem natChars_head (n : Nat) (h : 0 < n) : (natChars n).head? ≠ some '0' := by
  induction n using Nat.strongRecOn with
  | _ n ih =>
    unfold natChars
    rw [Nat.toDigits_eq_if (by omega : 1 < 10)]
    split
    · rename_i hlt
      have : n = 1 ∨ n = 2 ∨ n = 3 ∨ n = 4 ∨ n = 5 ∨ n = 6 ∨ n = 7 ∨ n = 8 ∨ n = 9 := by omega
      rcases this with h | h | h | h | h | h | h | h | h <;> subst h <;> decide
    · rename_i hge
      have hpos : 0 < n / 10 := Nat.div_pos (by omega) (by omega)
      have := ih (n / 10) (Nat.div_lt_self h (by omega)) hpos
      unfold natChars at this
      have hne : Nat.toDigits 10 (n / 10) ≠ [] := Nat.toDigits_ne_nil
      cases hd : Nat.toDigits 10 (n / 10) with
      | nil => exact absurd hd hne
      | cons a r => rw [hd] at this; simpa using this

/-- **The code written into the generated file is a Python integer literal**, whatever the next id is (also below 100) -/
theorem code_literal_valid (id : Nat) : pyDecimal (natChars id) = true := by
  unfold pyDecimal
  have hne : natChars id ≠ [] := Nat.toDigits_ne_nil
  have hdig : (natChars id).all Char.isDigit = true := by
    rw [List.all_eq_true]; intro c hc
    exact Nat.isDigit_of_mem_toDigits (by omega) (by omega) hc
  rcases Nat.eq_zero_or_pos id with h | h
  · subst h; decide
  · have := natChars_head id h
    simp [hne, hdig, this]

/-- a zero-padded rendering (`{id:03}`) is not: the generated check would not even compile -/
theorem padded_code_invalid : pyDecimal "008".toList = false := by decide

example : natChars 8 = ['8'] ∧ pyDecimal (natChars 8) = true := by decide
end RefurbVerif.C19
