/-
C11 — output is deterministic: independent of file order, grouping and history.

`report` = stable sort (by the `sort_errors` key) of the kept diagnostics of all files
(Model/Report.lean).  The theorems are for any number of files and diagnostics.

Further down, on the WHOLE-RUN model (Model/Run.lean, `runRefurb` = what `run_refurb` returns):
  * grouping — `run_grouping_two[_merge]`, `run_grouping_partition[_merge]`, `run_grouping_any_partition`,
    `run_grouping_lines_plain`, `run_one_by_one` (+ `grouping_needs_paths`: the hypothesis cannot be dropped);
  * history — `history_independent` over the machine of Model/History.lean (process-global components, runs that may
    end after any instruction), the witnesses `leak_breaks_independence`, `position_keyed_set_leaks`,
    `unrestored_limit_leaks`, and `today_no_component_leaks` & co. over Generated/Globals.lean (regenerated from /repo
    by harness/extract_c11.py).  Helper lemmas: Lemmas/RunC11.lean.
-/
import RefurbVerif.Model.Report
import RefurbVerif.Lemmas.Sort
import RefurbVerif.Lemmas.Order
import RefurbVerif.Generated.History
import RefurbVerif.Generated.Globals
import RefurbVerif.Lemmas.RunC11
import RefurbVerif.Props.C13

namespace RefurbVerif.C11
open RefurbVerif

/-! ### The report is always in the documented order -/

/-- **Documented order**: whatever the input order, the report is sorted by the `sort_errors` key —
    (file, line, column, code) by default, (code, file, line, column) with `--sort error`; plain
    error lines first. -/
theorem documented_order (by_ : SortBy) (keep : Item → Bool) (items : List Item) :
    Sorted (leItem by_) (report by_ keep items) :=
  sorted_ssort _ (leItem_total by_) (leItem_trans by_) _

/-- nothing is lost or invented by sorting: the report is a permutation of the kept items -/
theorem report_perm (by_ : SortBy) (keep : Item → Bool) (items : List Item) :
    (report by_ keep items).Perm (items.filter keep) := ssort_perm _ _

/-! ### Two sorted lists with the same elements are equal (when keys identify items) -/

/-- no two *different* items of the list compare as equal under the key:
    (file, line, column, code) identifies a diagnostic -/
def KeyInjective (by_ : SortBy) (l : List Item) : Prop :=
  ∀ a ∈ l, ∀ b ∈ l, leItem by_ a b = true → leItem by_ b a = true → a = b

theorem sorted_perm_unique (le : Item → Item → Bool) :
    ∀ (l₁ l₂ : List Item), Sorted le l₁ → Sorted le l₂ → l₁.Perm l₂ →
      (∀ a ∈ l₁, ∀ b ∈ l₁, le a b = true → le b a = true → a = b) → l₁ = l₂ := by
  intro l₁
  induction l₁ with
  | nil => intro l₂ _ _ hp _; exact (List.Perm.nil_eq hp)
  | cons a r ih =>
    intro l₂ hs₁ hs₂ hp hinj
    cases l₂ with
    | nil => exact absurd hp.symm (by simp)
    | cons b r₂ =>
      have hab : a = b := by
        have hb_mem : b ∈ a :: r := hp.symm.subset (by simp)
        have ha_mem : a ∈ b :: r₂ := hp.subset (by simp)
        rcases List.mem_cons.mp hb_mem with h | h
        · exact h.symm
        · rcases List.mem_cons.mp ha_mem with h' | h'
          · exact h'
          · exact hinj a (by simp) b hb_mem (hs₁.1 b h) (hs₂.1 a h')
      subst hab
      congr 1
      exact ih r₂ hs₁.2 hs₂.2 (List.Perm.cons_inv hp)
        (fun x hx y hy => hinj x (List.mem_cons_of_mem _ hx) y (List.mem_cons_of_mem _ hy))

theorem keyInjective_perm (by_ : SortBy) {l₁ l₂ : List Item} (hp : l₁.Perm l₂) (h : KeyInjective by_ l₁) :
    KeyInjective by_ l₂ :=
  fun a ha b hb => h a (hp.symm.subset ha) b (hp.symm.subset hb)

/-- **Order independence.** If two runs collect the same diagnostics in any order (permuted file
    arguments, different traversal interleaving), the reports are identical. -/
theorem report_order_independent (by_ : SortBy) (keep : Item → Bool) (items₁ items₂ : List Item)
    (hp : items₁.Perm items₂) (hinj : KeyInjective by_ (items₁.filter keep)) :
    report by_ keep items₁ = report by_ keep items₂ := by
  unfold report
  have hf : (items₁.filter keep).Perm (items₂.filter keep) := hp.filter keep
  apply sorted_perm_unique (leItem by_)
  · exact sorted_ssort _ (leItem_total by_) (leItem_trans by_) _
  · exact sorted_ssort _ (leItem_total by_) (leItem_trans by_) _
  · exact (ssort_perm _ _).trans (hf.trans (ssort_perm _ _).symm)
  · exact keyInjective_perm by_ (ssort_perm _ _).symm hinj

theorem flatMap_perm {α β : Type} (f : α → List β) {l₁ l₂ : List α} (hp : l₁.Perm l₂) :
    (l₁.flatMap f).Perm (l₂.flatMap f) := by
  induction hp with
  | nil => exact List.Perm.refl _
  | cons x _ ih => simp only [List.flatMap_cons]; exact List.Perm.append_left _ ih
  | swap x y l =>
    simp only [List.flatMap_cons, ← List.append_assoc]
    exact List.Perm.append_right _ List.perm_append_comm
  | trans _ _ ih₁ ih₂ => exact ih₁.trans ih₂

/-- **Permuting the file arguments does not change the report** (each file contributes its own
    block of diagnostics, whatever its position on the command line). -/
theorem perm_files_same (by_ : SortBy) (keep : Item → Bool) (diagsOf : String → List Item)
    (files₁ files₂ : List String) (hp : files₁.Perm files₂)
    (hinj : KeyInjective by_ ((files₁.flatMap diagsOf).filter keep)) :
    report by_ keep (files₁.flatMap diagsOf) = report by_ keep (files₂.flatMap diagsOf) :=
  report_order_independent by_ keep _ _ (flatMap_perm diagsOf hp) hinj

/-- **Permuting the file arguments, without the key-injectivity guard.**  Diagnostics that tie on the
    sort key (same file, line, column and code but different messages) keep their traversal order by
    stability, and a tie never spans two files — so the report is the same for every order of the
    file arguments, for any number of files and diagnostics. -/
theorem perm_files_same_general (by_ : SortBy) (keep : Item → Bool) (diagsOf : String → List Item)
    (files₁ files₂ : List String) (hp : files₁.Perm files₂)
    (hsep : ∀ f ∈ files₁, ∀ g ∈ files₁, f ≠ g → ∀ a ∈ diagsOf f, ∀ b ∈ diagsOf g, eqv (leItem by_) a b = false) :
    report by_ keep (files₁.flatMap diagsOf) = report by_ keep (files₂.flatMap diagsOf) := by
  unfold report
  apply ssort_congr (leItem by_) (leItem_total by_) (leItem_trans by_)
  · exact (flatMap_perm diagsOf hp).filter keep
  · intro a
    simp only [List.filter_flatMap]
    apply flatMap_perm_sparse _ hp
    intro f hf g hg hfg
    by_cases h1 : ((diagsOf f).filter keep).filter (eqv (leItem by_) a) = []
    · exact Or.inl h1
    · by_cases h2 : ((diagsOf g).filter keep).filter (eqv (leItem by_) a) = []
      · exact Or.inr h2
      · exfalso
        obtain ⟨b, hb⟩ := List.exists_mem_of_ne_nil _ h1
        obtain ⟨c, hc⟩ := List.exists_mem_of_ne_nil _ h2
        have hb' := List.mem_filter.mp hb
        have hc' := List.mem_filter.mp hc
        have hbm : b ∈ diagsOf f := (List.mem_filter.mp hb'.1).1
        have hcm : c ∈ diagsOf g := (List.mem_filter.mp hc'.1).1
        have hab := hb'.2
        have hac := hc'.2
        simp only [eqv, Bool.and_eq_true] at hab hac
        have hbc : eqv (leItem by_) b c = true := by
          simp only [eqv, Bool.and_eq_true]
          exact ⟨leItem_trans by_ b a c hab.2 hac.1, leItem_trans by_ c a b hac.2 hab.1⟩
        rw [hsep f hf g hg hfg b hbm c hcm] at hbc
        cases hbc

/-- **Checking files together or one by one**: merging the separately produced (sorted) reports
    and sorting again gives the report of the joint run. -/
theorem regroup_same (by_ : SortBy) (keep : Item → Bool) (a b : List Item)
    (hinj : KeyInjective by_ ((a ++ b).filter keep)) :
    ssort (leItem by_) (report by_ keep a ++ report by_ keep b) = report by_ keep (a ++ b) := by
  unfold report
  apply sorted_perm_unique (leItem by_)
  · exact sorted_ssort _ (leItem_total by_) (leItem_trans by_) _
  · exact sorted_ssort _ (leItem_total by_) (leItem_trans by_) _
  · refine (ssort_perm _ _).trans ?_
    refine (List.Perm.append (ssort_perm _ _) (ssort_perm _ _)).trans ?_
    rw [← List.filter_append]
    exact (ssort_perm _ _).symm
  · apply keyInjective_perm by_ _ hinj
    refine List.Perm.symm ((ssort_perm _ _).trans ?_)
    refine (List.Perm.append (ssort_perm _ _) (ssort_perm _ _)).trans ?_
    rw [← List.filter_append]

/-- the file name is part of both sort keys: diagnostics of different files never tie -/
theorem key_separates_files (by_ : SortBy) (a b : Diag) (h : a.file ≠ b.file) :
    ¬ (leItem by_ (.diag a) (.diag b) = true ∧ leItem by_ (.diag b) (.diag a) = true) := by
  intro ⟨h1, h2⟩
  cases by_
  · have := leKeyFilename_linear.antisymm _ _ h1 h2
    simp [keyFilename] at this; exact h this.1
  · have := leKeyError_linear.antisymm _ _ h1 h2
    simp [keyError] at this; exact h this.2.2.1

/-- diagnostics tie only if file, line, column, prefix and code all coincide -/
theorem key_ties_iff (by_ : SortBy) (a b : Diag) :
    (leItem by_ (.diag a) (.diag b) = true ∧ leItem by_ (.diag b) (.diag a) = true) ↔
      (a.file = b.file ∧ a.line = b.line ∧ a.col = b.col ∧ a.pfx = b.pfx ∧ a.code = b.code) := by
  constructor
  · intro ⟨h1, h2⟩
    cases by_
    · have := leKeyFilename_linear.antisymm _ _ h1 h2
      simpa [keyFilename] using this
    · have := leKeyError_linear.antisymm _ _ h1 h2
      simp [keyError] at this
      exact ⟨this.2.2.1, this.2.2.2.1, this.2.2.2.2, this.1, this.2.1⟩
  · rintro ⟨h1, h2, h3, h4, h5⟩
    have hk1 : keyFilename a = keyFilename b := by simp [keyFilename, h1, h2, h3, h4, h5]
    have hk2 : keyError a = keyError b := by simp [keyError, h1, h2, h3, h4, h5]
    cases by_
    · simp only [leItem, hk1]
      exact ⟨(leKeyFilename_linear.total _ _).elim id id, (leKeyFilename_linear.total _ _).elim id id⟩
    · simp only [leItem, hk2]
      exact ⟨(leKeyError_linear.total _ _).elim id id, (leKeyError_linear.total _ _).elim id id⟩

/-! ### History: the process-global line cache -/

/-- the part of the process state that outlives a run: `get_source_lines` is `@cache`d by path -/
structure Globals where
  lineCache : List (String × List Str)

def Globals.lookup (g : Globals) (path : String) : Option (List Str) :=
  (g.lineCache.find? (·.1 == path)).map (·.2)

/-- one run: for each file the lines used for `# noqa` are the cached ones if the path was read
    before in this process, otherwise the file's current content (which is then cached) -/
def linesUsed (clearFirst : Bool) (g : Globals) (fs : String → List Str) (path : String) : List Str :=
  if clearFirst then fs path else (g.lookup path).getD (fs path)

/-- history independence of the source lines a run consults -/
def HistoryIndependent (clearFirst : Bool) : Prop :=
  ∀ (g : Globals) (fs : String → List Str) (path : String), linesUsed clearFirst g fs path = fs path

/-- with the cache cleared at the start of every run (the repaired code) a run only sees the files
    as they are now -/
theorem history_independent_when_cleared : HistoryIndependent true := by
  intro g fs path; rfl

/-- without that (the code before the repair) an earlier run in the same process leaks into the
    next one: edit the file after the first run and the stale lines are used -/
theorem history_refuted_without_clear : ¬ HistoryIndependent false := by
  intro h
  have := h ⟨[("f.py", [['x']])]⟩ (fun _ => [['x', ' ', '#']]) "f.py"
  simp [linesUsed, Globals.lookup] at this

/-- **Today's code**: the behaviour observed by executing it (Generated/History.lean) is the
    history-independent one. -/
theorem history_independent_today : HistoryIndependent Generated.runStartsWithFreshLines := by
  have : Generated.runStartsWithFreshLines = true := by decide
  rw [this]; exact history_independent_when_cleared

theorem history_partial_without_clear (g : Globals) (fs : String → List Str) (path : String)
    (hfresh : ∀ ls, g.lookup path = some ls → ls = fs path) : linesUsed false g fs path = fs path := by
  unfold linesUsed
  cases h : g.lookup path with
  | none => simp
  | some ls => simp [hfresh ls h]

/-! ### Non-vacuity -/

def d1 : Item := .diag { file := "a.py".toList, line := 2, col := 0, pfx := "FURB".toList, code := 123, msg := [] }
def d2 : Item := .diag { file := "b.py".toList, line := 1, col := 0, pfx := "FURB".toList, code := 105, msg := [] }

example : report .filename (fun _ => true) [d2, d1] = [d1, d2] := by decide +kernel
example : report .error (fun _ => true) [d1, d2] = [d2, d1] := by decide +kernel
example : KeyInjective .filename [d1, d2] := by
  intro a ha b hb h1 h2
  simp only [List.mem_cons, List.mem_nil_iff, or_false] at ha hb
  rcases ha with rfl | rfl <;> rcases hb with rfl | rfl <;> first | rfl | (revert h1 h2; decide +kernel)

end RefurbVerif.C11

/-! ## Grouping on the whole-run model (Model/Run.lean)

`runRefurb (i.withFiles files) s` is what `run_refurb` returns for the file list `files` (same settings, same
checks, same environment): the raw diagnostics of the loaded checks, stamped with the file's path, filtered by
`# noqa` comments and amend tables, stably sorted.  The theorems are for any number of files, diagnostics and
checks and for both sort orders.  `none` = the `# noqa` line lookup raised `IndexError` (main.py:89). -/

namespace RefurbVerif.C11
open RefurbVerif RefurbVerif.Run

/-- no two entries of the file list carry the same path -/
def DistinctPaths (files : List FileIn) : Prop := (files.map (·.path)).Nodup

theorem DistinctPaths.nodup {files : List FileIn} (h : DistinctPaths files) : files.Nodup := by
  unfold DistinctPaths List.Nodup at *
  rw [List.pairwise_map] at h
  exact h.imp (fun hne e => hne (by rw [e]))

theorem DistinctPaths.identify {files : List FileIn} (h : DistinctPaths files) : PathsIdentify files := by
  unfold DistinctPaths List.Nodup at h
  rw [List.pairwise_map] at h
  induction files with
  | nil => intro f hf; cases hf
  | cons a rest ih =>
    rw [List.pairwise_cons] at h
    intro f hf g hg hp
    rcases List.mem_cons.mp hf with rfl | hf' <;> rcases List.mem_cons.mp hg with rfl | hg'
    · rfl
    · exact absurd hp (h.1 g hg')
    · exact absurd hp.symm (h.1 f hf')
    · exact ih h.2 f hf' g hg' hp

/-- **The documented order, for the whole run**: whatever `run_refurb` returns for a list of files is sorted by
    the `sort_errors` key of the settings. -/
theorem run_documented_order (i : RunInput) (s : Settings) (files : List FileIn) (r : List Item)
    (h : runRefurb (i.withFiles files) s = some r) : Sorted (leItem (sortByOf s)) r := by
  simp only [runRefurb, RunInput.withFiles, runReport] at h
  cases hn : noqaFilter i.lineCfg (srcOf files) (amendB i.resolver s i.checks) (collected s i.checks files) with
  | none => simp [hn] at h
  | some k =>
    simp only [hn, Option.map_some, Option.some.injEq] at h
    subst h
    exact sorted_ssort _ (leItem_total _) (leItem_trans _) _

/-- **(a) Two groups.**  Checking the files `A ++ B` in one run gives the stable sort of the report of `A` followed
    by the report of `B` (and raises exactly when one of the two runs raises).  Needed: the paths identify the
    files (`PathsIdentify (A ++ B)`), so that a `# noqa` lookup reads the text of the file the diagnostic is
    about.  NOT needed: any condition on ties or on `--debug` — `A`'s items stay before `B`'s, and the sort is
    stable. -/
theorem run_grouping_two (i : RunInput) (s : Settings) (A B : List FileIn) (hid : PathsIdentify (A ++ B)) :
    runRefurb (i.withFiles (A ++ B)) s =
      match runRefurb (i.withFiles A) s, runRefurb (i.withFiles B) s with
      | some ra, some rb => some (ssort (leItem (sortByOf s)) (ra ++ rb))
      | _, _ => none := by
  simp only [runRefurb, RunInput.withFiles]
  rw [collected_append, runReport_append,
    runReport_part _ _ _ s i.checks (A ++ B) A hid (fun f hf => List.mem_append_left _ hf),
    runReport_part _ _ _ s i.checks (A ++ B) B hid (fun f hf => List.mem_append_right _ hf)]
  rfl

/-- **(a), as a merge.**  Both reports are sorted, so the joint report is their sorted merge (ties: `A` first): a
    user who checks two sets of independent files separately and merges the two listings by the sort key has the
    listing of the joint run. -/
theorem run_grouping_two_merge (i : RunInput) (s : Settings) (A B : List FileIn) (ra rb : List Item)
    (hid : PathsIdentify (A ++ B)) (ha : runRefurb (i.withFiles A) s = some ra)
    (hb : runRefurb (i.withFiles B) s = some rb) :
    runRefurb (i.withFiles (A ++ B)) s = some (List.merge ra rb (leItem (sortByOf s))) := by
  rw [run_grouping_two i s A B hid, ha, hb]
  simp only
  rw [merge_eq_ssort (leItem _) (leItem_trans _) ra rb (run_documented_order i s A ra ha)
    (run_documented_order i s B rb hb)]

theorem reportsOf_sorted (i : RunInput) (s : Settings) : ∀ (groups : List (List FileIn)) (rs : List (List Item)),
    reportsOf i s groups = some rs → ∀ r ∈ rs, Sorted (leItem (sortByOf s)) r := by
  intro groups
  induction groups with
  | nil => intro rs h; simp only [reportsOf, Option.some.injEq] at h; subst h; simp
  | cons g gs ih =>
    intro rs h r hr
    simp only [reportsOf] at h
    cases hg : runRefurb (i.withFiles g) s with
    | none => simp [hg] at h
    | some r₀ =>
      cases hgs : reportsOf i s gs with
      | none => simp [hg, hgs] at h
      | some rs₀ =>
        simp only [hg, hgs, Option.some.injEq] at h
        subst h
        rcases List.mem_cons.mp hr with rfl | hr
        · exact run_documented_order i s g _ hg
        · exact ih rs₀ hgs r hr

/-- **(b) Any number of groups** (induction over the groups): the run over all files, group after group, returns
    the stable sort of the group reports put one after the other; it raises exactly when one group's run raises. -/
theorem run_grouping_partition (i : RunInput) (s : Settings) : ∀ (groups : List (List FileIn)),
    PathsIdentify groups.flatten →
    runRefurb (i.withFiles groups.flatten) s
      = (reportsOf i s groups).map (fun rs => ssort (leItem (sortByOf s)) rs.flatten) := by
  intro groups
  induction groups with
  | nil => intro _; simp [reportsOf, runRefurb, RunInput.withFiles, collected, runReport, noqaFilter, ssort]
  | cons g gs ih =>
    intro hid
    rw [List.flatten_cons] at hid ⊢
    rw [run_grouping_two i s g gs.flatten hid, ih (hid.sub (fun f hf => List.mem_append_right _ hf))]
    simp only [reportsOf]
    cases hg : runRefurb (i.withFiles g) s with
    | none => simp
    | some r =>
      cases hgs : reportsOf i s gs with
      | none => simp
      | some rs =>
        simp only [Option.map_some, Option.some.injEq, List.flatten_cons]
        have hr := ssort_of_sorted (leItem (sortByOf s)) r (run_documented_order i s g r hg)
        conv => lhs; rw [← hr]
        rw [ssort_append_ssort _ (leItem_total _) (leItem_trans _)]

/-- **(b), as a k-way merge**: the joint report is the sorted merge of the k group reports. -/
theorem run_grouping_partition_merge (i : RunInput) (s : Settings) (groups : List (List FileIn))
    (rs : List (List Item)) (hid : PathsIdentify groups.flatten) (hrs : reportsOf i s groups = some rs) :
    runRefurb (i.withFiles groups.flatten) s = some (mergeAll (sortByOf s) rs) := by
  rw [run_grouping_partition i s groups hid, hrs, Option.map_some,
    (sorted_mergeAll (sortByOf s) rs (reportsOf_sorted i s groups rs hrs)).1]

/-- the order of the file arguments does not matter for what `run_refurb` returns (the `runRefurb` half of
    Props/C10 `run_files_perm`, which is stated after this file) -/
theorem runRefurb_perm (i : RunInput) (s : Settings) (files files' : List FileIn) (hp : files.Perm files')
    (hid : PathsIdentify files) (hd : s.debug = false) :
    runRefurb (i.withFiles files') s = runRefurb (i.withFiles files) s := by
  simp only [runRefurb, RunInput.withFiles, ← srcOf_perm files files' hp hid]
  unfold collected
  symm
  apply runReport_perm_blocks _ _ _ _ _ _ _ hp
  intro f hf g hg hfg a ha b hb'
  have hpath : f.path ≠ g.path := fun h => hfg (hid f hf g hg h)
  unfold fileItems at ha hb'
  simp only [hd, Bool.false_eq_true, ↓reduceIte, List.nil_append] at ha hb'
  obtain ⟨ra, _, rfl⟩ := List.mem_map.mp ha
  obtain ⟨rb, _, rfl⟩ := List.mem_map.mp hb'
  have hsep := key_separates_files (sortByOf s) (stamp f.path ra) (stamp g.path rb) hpath
  unfold eqv
  cases h1 : leItem (sortByOf s) (.diag (stamp f.path ra)) (.diag (stamp g.path rb)) with
  | false => rfl
  | true =>
    cases h2 : leItem (sortByOf s) (.diag (stamp g.path rb)) (.diag (stamp f.path ra)) with
    | false => rfl
    | true => exact absurd ⟨h1, h2⟩ hsep

/-- **(b), for a partition in the proper sense**: the files of the joint run, in ANY order on the command line,
    split into k groups in any way (`files` is a permutation of the groups put together).  Needed besides
    `PathsIdentify`: no `--debug` (the tree dumps are plain strings without a file name; two of them could tie). -/
theorem run_grouping_any_partition (i : RunInput) (s : Settings) (files : List FileIn) (groups : List (List FileIn))
    (rs : List (List Item)) (hp : files.Perm groups.flatten) (hid : PathsIdentify files) (hd : s.debug = false)
    (hrs : reportsOf i s groups = some rs) :
    runRefurb (i.withFiles files) s = some (mergeAll (sortByOf s) rs) := by
  have hid' : PathsIdentify groups.flatten :=
    fun f hf g hg h => hid f (hp.symm.subset hf) g (hp.symm.subset hg) h
  rw [runRefurb_perm i s groups.flatten files hp.symm hid' hd]
  exact run_grouping_partition_merge i s groups rs hid' hrs

theorem formatItem_plain_rel (rel rel' : Str → Str) (it : Item) :
    formatItem .plain rel it = formatItem .plain rel' it := by
  cases it <;> rfl

/-- **(c) The printed lines, plain format** (`--quiet`, every rendered item on one line): the lines the joint run
    prints are the renderings of the merged group reports, in that order — and every group's own run prints the
    renderings of its report, so the joint listing is the group listings merged by the sort key. -/
theorem run_grouping_lines_plain (i : RunInput) (s : Settings) (groups : List (List FileIn)) (rs : List (List Item))
    (joint : List Item) (rel : Str → Str) (hid : PathsIdentify groups.flatten)
    (hrs : reportsOf i s groups = some rs) (hj : runRefurb (i.withFiles groups.flatten) s = some joint)
    (hne : joint ≠ []) (hnl : ∀ it ∈ joint, C13.NoNl (formatItem .plain rel it)) :
    splitAt '\n' (formatErrors .plain rel true joint) = (mergeAll (sortByOf s) rs).map (formatItem .plain rel) ∧
      ∀ r ∈ rs, r ≠ [] → splitAt '\n' (formatErrors .plain rel true r) = r.map (formatItem .plain rel) := by
  have hjm := run_grouping_partition_merge i s groups rs hid hrs
  rw [hj, Option.some.injEq] at hjm
  refine ⟨?_, ?_⟩
  · rw [← hjm]; exact C13.same_items_same_order _ _ joint hne hnl
  · intro r hr hrne
    apply C13.same_items_same_order _ _ r hrne
    intro it hit
    apply hnl
    -- every item of a group report is an item of the joint report
    have hsort := (sorted_mergeAll (sortByOf s) rs (reportsOf_sorted i s groups rs hrs)).1
    rw [hjm, hsort, mem_ssort]
    exact List.mem_flatten.mpr ⟨r, hr, hit⟩

theorem flatMap_single {β : Type} (files : List FileIn) (F : FileIn) (X : List β) (hn : files.Nodup) (hF : F ∈ files) :
    files.flatMap (fun g => if g = F then X else []) = X := by
  induction files with
  | nil => cases hF
  | cons g rest ih =>
    rw [List.nodup_cons] at hn
    simp only [List.flatMap_cons]
    by_cases hg : g = F
    · subst hg
      have : rest.flatMap (fun g' => if g' = g then X else []) = [] := by
        rw [List.flatMap_eq_nil_iff]
        intro g' hg'
        have : g' ≠ g := fun e => hn.1 (e ▸ hg')
        simp [this]
      simp [this]
    · have hF' : F ∈ rest := by
        rcases List.mem_cons.mp hF with h | h
        · exact absurd h.symm hg
        · exact h
      simp [hg, ih hn.2 hF']

theorem flatMap_congr_mem {α β : Type} (l : List α) (f g : α → List β) (h : ∀ x ∈ l, f x = g x) :
    l.flatMap f = l.flatMap g := by
  induction l with
  | nil => rfl
  | cons a l ih =>
    simp only [List.flatMap_cons]
    rw [h a (by simp), ih (fun x hx => h x (List.mem_cons_of_mem _ hx))]

/-- **(d) One by one.**  In a joint run over files with pairwise different paths (no `--debug`), the diagnostics
    about file `F` are exactly — same items, same order — what a run on `F` alone returns: checking `F` together
    with other files neither adds, drops nor reorders anything said about `F`. -/
theorem run_one_by_one (i : RunInput) (s : Settings) (files : List FileIn) (F : FileIn) (joint : List Item)
    (hdist : DistinctPaths files) (hF : F ∈ files) (hd : s.debug = false)
    (hj : runRefurb (i.withFiles files) s = some joint) :
    runRefurb (i.withFiles [F]) s = some (joint.filter (Item.isAbout F.path)) := by
  simp only [runRefurb, RunInput.withFiles] at hj ⊢
  have hf := runReport_filter _ _ _ _ (Item.isAbout F.path) _ _ hj
  rw [← hf, ← runReport_part _ _ _ s i.checks files [F] hdist.identify (by simpa using hF)]
  congr 1
  unfold collected
  rw [List.filter_flatMap, List.flatMap_cons, List.flatMap_nil, List.append_nil]
  rw [flatMap_congr_mem files _ (fun g => if g = F then fileItems s i.checks F else [])]
  · exact (flatMap_single files F _ hdist.nodup hF).symm
  · intro g hgm
    unfold fileItems
    simp only [hd, Bool.false_eq_true, ↓reduceIte, List.nil_append]
    by_cases hg : g = F
    · subst hg
      simp only [↓reduceIte]
      apply List.filter_eq_self.mpr
      intro it hit
      obtain ⟨r, _, rfl⟩ := List.mem_map.mp hit
      simp [Item.isAbout, stamp]
    · simp only [hg, ↓reduceIte]
      rw [List.filter_eq_nil_iff]
      intro it hit
      obtain ⟨r, _, rfl⟩ := List.mem_map.mp hit
      have : g.path ≠ F.path := fun e => hg (hdist.identify g hgm F hF e)
      simp [Item.isAbout, stamp, this]

end RefurbVerif.C11

/-! ## History on the machine of Model/History.lean

A process may call `run_refurb` any number of times.  What one call can hand to the next is the process-global state
listed (and regenerated from /repo) in Generated/Globals.lean; `History.runIn` threads it through a run in main.py's
order and returns everything the run READ from it.  A run's report is a function of its own input and of that
trace (by the translator's scan the run reads no other process-global state of refurb), so a run whose trace does
not depend on the runs before it prints what a fresh process would print. -/

namespace RefurbVerif.C11
open RefurbVerif

/-- **History independence** (induction over the history; the runs are arbitrary: any requests in any phase,
    adaptively, any values, finished or ended early after any instruction).  If no component of the script is
    classified `leaks`, then after ANY sequence of earlier runs in the same process the next run reads from the
    process-global state exactly what it would read in a fresh interpreter — so it prints the same report.
    Residual assumption, built into the keys: `FreshIds` (`History.resolve`): `id()` of an object of an earlier run
    is not handed out again to an object of this run. -/
theorem history_independent (T : History.Script) (h : History.noLeaks T = true) (hist : List History.Input)
    (next : History.Input) :
    (History.runIn T (History.after T History.init hist) next).1 = (History.runIn T History.init next).1 :=
  History.runIn_sim T (History.noLeaks_all T h) _ (History.inv_after T hist _ (History.inv_init T)) next

/-- whatever the run computes from what it read (its report, its exit status) is therefore the same -/
theorem history_independent_output {β : Type} (T : History.Script) (h : History.noLeaks T = true)
    (hist : List History.Input) (next : History.Input) (report : List (Option Int) → β) :
    report (History.runIn T (History.after T History.init hist) next).1 = report (History.runIn T History.init next).1 := by
  rw [history_independent T h hist next]

/-- the same for a whole sequence: every run of a history reads what it would read as the first run of a process -/
theorem history_independent_every_run (T : History.Script) (h : History.noLeaks T = true) (before : List History.Input)
    (i : History.Input) (later : List History.Input) :
    (History.runIn T (History.after T History.init before) i).1 = (History.runIn T History.init i).1 ∧
      History.Inv T (History.after T History.init (before ++ i :: later)) :=
  ⟨history_independent T h before i, History.inv_after T _ _ (History.inv_init T)⟩

/-! ### a `leaks` component does break it: witnesses -/

/-- one request, then stop -/
def ask (c : Nat) (o : History.Op) (n : Nat) : History.Prog := .act c o n (fun _ => .done)

/-- a run that makes request `(c, o, n)` in phase `0` and computes `v` for every key -/
def oneRun (c : Nat) (o : History.Op) (n : Nat) (v : Int) (stop : Option Nat := none) : History.Input :=
  { val := fun _ _ => v, prog := fun idx => if idx = 0 then ask c o n else .done, stop := stop }

/-- a `@cache` that no statement of the run clears (refurb before commit 8dd0bf7; a new cached helper) -/
def leakyCache : History.Script := [.free [(0, .memo .stable)]]

/-- **The converse, by a witness**: with a never-cleared cache the script is classified `leaks`, and there are two
    histories — none, and one earlier run that read the file when it still had other contents — after which the
    same run reads different things. -/
theorem leak_breaks_independence :
    History.classify leakyCache 0 = .leaks ∧
      (History.runIn leakyCache (History.after leakyCache History.init [oneRun 0 (.memo .stable) 7 1]) (oneRun 0 (.memo .stable) 7 2)).1
        ≠ (History.runIn leakyCache (History.after leakyCache History.init []) (oneRun 0 (.memo .stable) 7 2)).1 := by
  decide +kernel

/-- a set keyed by POSITION (line, column) instead of `id(node)` (`ignore.add((node.line, node.column))`): a stable
    key, never cleared -/
def positionKeyedSet : History.Script := [.free [(0, .get .stable), (0, .put .stable)]]

/-- a position-keyed set leaks: a node at a position an earlier run marked is skipped by the next run.  (With
    `id(node)` keys the same script is `keyedByLiveNodeIdentity` — the difference is exactly `FreshIds`.) -/
theorem position_keyed_set_leaks :
    History.classify positionKeyedSet 0 = .leaks ∧
      History.classify [.free [(0, .get .liveNode), (0, .put .liveNode)]] 0 = .keyedByLiveNodeIdentity ∧
      (History.runIn positionKeyedSet (History.after positionKeyedSet History.init [oneRun 0 (.put .stable) 3 1]) (oneRun 0 (.get .stable) 3 1)).1
        ≠ (History.runIn positionKeyedSet History.init (oneRun 0 (.get .stable) 3 1)).1 := by
  decide +kernel

/-- the recursion limit raised for the build and put back by a statement AFTER it (not in a `finally`) -/
def limitRestoredOnSuccess : History.Script := [.op 0 (.bump 1000), .free [(0, .get .cell)], .op 0 (.bump (-1000))]

/-- such a limit leaks through a FAILED run: a run that ends inside the build leaves the limit raised, and the next
    run — whose traversals of deep files stop where the limit says — reads a different limit. -/
theorem unrestored_limit_leaks :
    History.classify limitRestoredOnSuccess 0 = .leaks ∧
      (History.runIn limitRestoredOnSuccess
          (History.after limitRestoredOnSuccess History.init [{ oneRun 0 (.get .cell) 0 0 with stop := some 2 }])
          { oneRun 0 (.get .cell) 0 0 with prog := fun idx => if idx = 1 then ask 0 (.get .cell) 0 else .done }).1
        ≠ (History.runIn limitRestoredOnSuccess History.init
          { oneRun 0 (.get .cell) 0 0 with prog := fun idx => if idx = 1 then ask 0 (.get .cell) 0 else .done }).1 := by
  decide +kernel

/-! ### today's components (Generated/Globals.lean, regenerated from /repo) -/

/-- **Today no component leaks**: every piece of process-global state the scan of /repo/refurb finds — module-level
    containers a function stores into, `functools` caches, module attributes assigned at run time, interpreter
    settings, the import path — is cleared at the start of a run, overwritten before it is read, never written, or
    keyed by the identity of live nodes.  Fails when a new never-cleared cache appears, when `cache_clear()` goes,
    when an interpreter setting is changed relative to its old value, when a table is keyed by something other
    than `id(...)`. -/
theorem today_no_component_leaks : History.noLeaks Generated.globalsTable.script = true := by decide +kernel

/-- the components whose soundness rests on `FreshIds`: the allow-list.  These five tables hold `id(node)` of nodes
    of the tree being visited — FURB179 (`use_chain_from_iterable.ignore`), FURB140 (`use_starmap.ignore`), FURB185
    (`no_copy_with_merge.ignored_nodes`), FURB123's `use_str_func.ignore`, FURB188
    (`remove_prefix_or_suffix.ignored_nodes`) — to keep a child node from being reported again after its parent was;
    a sixth table of this kind must be looked at by a person (is the key really the identity of an object that
    lives as long as the entry is looked up?) and added here. -/
def identityKeyedAllowList : List String :=
  ["refurb.checks.itertools.use_chain_from_iterable.ignore", "refurb.checks.itertools.use_starmap.ignore",
   "refurb.checks.readability.no_copy_with_merge.ignored_nodes", "refurb.checks.readability.use_str_func.ignore",
   "refurb.checks.string.remove_prefix_or_suffix.ignored_nodes"]

theorem today_identity_keyed_are_allowed :
    ((Generated.globalsTable.disciplines.filter (fun p => p.2 == .keyedByLiveNodeIdentity)).map (·.1)).all
      (identityKeyedAllowList.contains ·) = true := by decide +kernel

/-- what the by-execution probe saw agrees with the scan: every module-level container of `refurb.*` whose content
    changed over five runs (two good, one mypy refuses, one in which a check raises, one good) is a component of
    the table, is classified identity-keyed, and holds nothing but object addresses; the interpreter's recursion limit
    is the same after every run, failed ones included; `int_max_str_digits` is overwritten; the builtins handle is
    replaced by every run. -/
theorem today_probe_agrees_with_scan :
    Generated.dynamicMutated.all (fun n =>
        Generated.globalsTable.disciplines.contains (n, .keyedByLiveNodeIdentity) && Generated.dynamicOnlyInts.contains n) = true ∧
      Generated.probeLimitsKept = true ∧ Generated.probeDigitsOverwritten = true ∧ Generated.probeBuiltinsReplaced = true ∧
      Generated.probeFailingRunsSeen = 2 := by decide +kernel

/-- **History independence of today's refurb**: `history_independent` for the regenerated script. -/
theorem history_independent_globals_today (hist : List History.Input) (next : History.Input) :
    (History.runIn Generated.globalsScript (History.after Generated.globalsScript History.init hist) next).1
      = (History.runIn Generated.globalsScript History.init next).1 :=
  history_independent _ today_no_component_leaks hist next

end RefurbVerif.C11

/-! ### Non-vacuity of the whole-run grouping and history theorems -/

namespace RefurbVerif.C11
open RefurbVerif RefurbVerif.Run

def gCat : List CheckSel := [⟨"FURB", 123, ["readability"], true⟩, ⟨"FURB", 105, ["builtin"], true⟩]

/-- line 2 carries a bare `# noqa`; the check reports line 3 before line 1 (traversal order, not position order) -/
def gA : FileIn :=
  { path := "a.py".toList, rel := "a.py".toList, dump := "MypyFile:1(a.py)".toList
    source := "x = int(0)\nprint(\"\")  # noqa\ny = str(\"\")\n".toList
    raw := [⟨3, 4, "FURB".toList, 123, "m3".toList⟩, ⟨2, 0, "FURB".toList, 105, "m2".toList⟩, ⟨1, 4, "FURB".toList, 123, "m1".toList⟩] }

def gB : FileIn :=
  { path := "sub/b.py".toList, rel := "sub/b.py".toList, dump := "MypyFile:1(sub/b.py)".toList
    source := "print(\"\")\n".toList, raw := [⟨1, 0, "FURB".toList, 105, "m2".toList⟩] }

def gC : FileIn :=
  { path := "c.py".toList, rel := "c.py".toList, dump := "MypyFile:1(c.py)".toList
    source := "z = int(0)\nprint(\"\")\n".toList
    raw := [⟨1, 4, "FURB".toList, 123, "m1".toList⟩, ⟨2, 0, "FURB".toList, 105, "m2".toList⟩] }

def gIn : RunInput :=
  { envColor := false, argv := [], config := .notFound, lineCfg := nlCfg, checks := gCat, mypy := .built [],
    resolver := Paths.resolvePy [] 16 ["w"] }

def gS : Settings := { enableAll := true, quiet := true, color := false }
def gSE : Settings := { enableAll := true, quiet := true, color := false, sortBy := some "error" }

theorem g_distinct : DistinctPaths [gC, gA, gB] := by unfold DistinctPaths; decide
theorem g_paths : PathsIdentify ([gC] ++ [gA, gB]) := g_distinct.identify

/-- (a) at work, `--sort error`: the two reports interleave in the joint one -/
example : runRefurb (gIn.withFiles ([gC] ++ [gA, gB])) gSE =
    some (List.merge
      [.diag ⟨"c.py".toList, 2, 0, "FURB".toList, 105, "m2".toList⟩, .diag ⟨"c.py".toList, 1, 4, "FURB".toList, 123, "m1".toList⟩]
      [.diag ⟨"sub/b.py".toList, 1, 0, "FURB".toList, 105, "m2".toList⟩, .diag ⟨"a.py".toList, 1, 4, "FURB".toList, 123, "m1".toList⟩,
       .diag ⟨"a.py".toList, 3, 4, "FURB".toList, 123, "m3".toList⟩] (leItem .error)) :=
  run_grouping_two_merge gIn gSE [gC] [gA, gB] _ _ g_paths (by decide +kernel) (by decide +kernel)

example : runRefurb (gIn.withFiles ([gC] ++ [gA, gB])) gSE =
    some [.diag ⟨"c.py".toList, 2, 0, "FURB".toList, 105, "m2".toList⟩, .diag ⟨"sub/b.py".toList, 1, 0, "FURB".toList, 105, "m2".toList⟩,
          .diag ⟨"a.py".toList, 1, 4, "FURB".toList, 123, "m1".toList⟩, .diag ⟨"a.py".toList, 3, 4, "FURB".toList, 123, "m3".toList⟩,
          .diag ⟨"c.py".toList, 1, 4, "FURB".toList, 123, "m1".toList⟩] := by decide +kernel

/-- (b) at work: three groups of one file each, given in another order on the command line -/
def gReports : List (List Item) :=
  [[.diag ⟨"a.py".toList, 1, 4, "FURB".toList, 123, "m1".toList⟩, .diag ⟨"a.py".toList, 3, 4, "FURB".toList, 123, "m3".toList⟩],
   [.diag ⟨"sub/b.py".toList, 1, 0, "FURB".toList, 105, "m2".toList⟩],
   [.diag ⟨"c.py".toList, 1, 4, "FURB".toList, 123, "m1".toList⟩, .diag ⟨"c.py".toList, 2, 0, "FURB".toList, 105, "m2".toList⟩]]

example : reportsOf gIn gS [[gA], [gB], [gC]] = some gReports ∧
    runRefurb (gIn.withFiles [gC, gA, gB]) gS = some (mergeAll (sortByOf gS) gReports) :=
  ⟨by decide +kernel,
   run_grouping_any_partition gIn gS [gC, gA, gB] [[gA], [gB], [gC]] gReports (by decide) g_distinct.identify rfl (by decide +kernel)⟩

/-- (d) at work: what the joint run says about a.py is what the run on a.py alone says -/
example : runRefurb (gIn.withFiles [gA]) gS =
    some ((([.diag ⟨"a.py".toList, 1, 4, "FURB".toList, 123, "m1".toList⟩, .diag ⟨"a.py".toList, 3, 4, "FURB".toList, 123, "m3".toList⟩,
             .diag ⟨"c.py".toList, 1, 4, "FURB".toList, 123, "m1".toList⟩, .diag ⟨"c.py".toList, 2, 0, "FURB".toList, 105, "m2".toList⟩,
             .diag ⟨"sub/b.py".toList, 1, 0, "FURB".toList, 105, "m2".toList⟩] : List Item)).filter (Item.isAbout gA.path)) :=
  run_one_by_one gIn gS [gC, gA, gB] gA _ g_distinct (by decide) rfl (by decide +kernel)

/-- **`PathsIdentify` is needed** for (a): two entries with the same path but different texts (the second one without
    the `# noqa`) — the joint run looks every line up in the FIRST entry's text and suppresses both diagnostics,
    the run on the second entry alone reports its own. -/
def gA' : FileIn := { gA with source := "x = int(0)\nprint(\"\")\ny = str(\"\")\n".toList }

theorem grouping_needs_paths :
    ¬ PathsIdentify ([gA] ++ [gA']) ∧
      runRefurb (gIn.withFiles ([gA] ++ [gA'])) gS ≠
        (match runRefurb (gIn.withFiles [gA]) gS, runRefurb (gIn.withFiles [gA']) gS with
          | some ra, some rb => some (ssort (leItem (sortByOf gS)) (ra ++ rb))
          | _, _ => none) := by
  refine ⟨fun h => ?_, by decide +kernel⟩
  have := h gA (by simp) gA' (by simp) rfl
  revert this; decide

/-- **no `--debug` is needed for (d) to be meaningful**: with `--debug` the solo run also returns the tree dump, which
    is not a diagnostic about the file -/
example : runRefurb (gIn.withFiles [gB]) { gS with debug := true } =
    some [.text "MypyFile:1(sub/b.py)".toList, .diag ⟨"sub/b.py".toList, 1, 0, "FURB".toList, 105, "m2".toList⟩] := by
  decide +kernel

/-- a script of today's shape (fixed here, so that the example does not move with the regenerated table): component 0
    a cache cleared first, 1 an interpreter setting overwritten, 2 a module attribute assigned before the visit, 3 an
    identity-keyed table, 4 a constant table -/
def hScript : History.Script :=
  [.op 0 .clear, .op 1 (.putConst 0), .free [], .op 2 (.put .cell),
   .free [(2, .get .cell), (3, .get .liveNode), (3, .put .liveNode), (4, .get .stable)], .free [(0, .memo .stable)]]

example : History.noLeaks hScript = true ∧
    (List.range 5).map (History.classify hScript) =
      [.resetAtRunStart, .overwrittenBeforeRead, .overwrittenBeforeRead, .keyedByLiveNodeIdentity, .constant] := by
  decide +kernel

/-- a good run: it looks node 4 up in the identity-keyed table, marks it if it is not there (ADAPTIVELY), then reads a
    line of file 1 through the cache -/
def hRun (v : Int) : History.Input :=
  { val := fun c _ => if c = 0 then v else 1
    prog := fun idx =>
      if idx = 4 then .act 3 (.get .liveNode) 4 (fun seen => if seen.isNone then ask 3 (.put .liveNode) 4 else .done)
      else if idx = 5 then ask 0 (.memo .stable) 1 else .done }

/-- the hypotheses of `history_independent` at work: after a good run (file 1 holds 11, node 4 gets marked), a run
    that ends after three instructions, and nothing else, the good run with the file changed to 22 reads the NEW line
    and finds its own node 4 unmarked — what it reads in a fresh interpreter -/
example : (History.runIn hScript (History.after hScript History.init [hRun 11, { hRun 11 with stop := some 3 }]) (hRun 22)).1
    = [none, some 22] := by decide +kernel

example : (History.runIn hScript History.init (hRun 22)).1 = [none, some 22] := by decide +kernel

example : (History.runIn hScript (History.after hScript History.init [hRun 11, { hRun 11 with stop := some 3 }]) (hRun 22)).1
    = (History.runIn hScript History.init (hRun 22)).1 :=
  history_independent hScript (by decide +kernel) _ _

end RefurbVerif.C11
