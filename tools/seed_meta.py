#!/usr/bin/env python3
"""tools/seed_meta.py [ID ...] — write /verif/seeded/<ID>/meta.json from what tools/eval_seed.sh left there.

meta.json says: which property the seeded change breaks, what it needs to manifest (taken from the seeder's own
notes.md), what was run to confirm it (demo on HEAD / with the patch, the unedited test-suite with the patch) and
what the property's check said when pointed at a worktree carrying the patch.
"""
import json
import re
import sys
from pathlib import Path

SEEDED = Path(__file__).resolve().parent.parent / "seeded"

# property checked per seed id (ids are <property>[suffix])
HISTORY = SEEDED / "history.json"  # {id: {"first": "missed"|"caught", "strengthening": "..."}} kept by hand


def section(notes: str, pat: str) -> str:
    out, on = [], False
    for line in notes.splitlines():
        if line.startswith("## "):
            on = bool(re.search(pat, line, re.I))
            continue
        if on:
            out.append(line)
    return "\n".join(out).strip()


def main() -> int:
    ids = sys.argv[1:] or sorted(p.name for p in SEEDED.iterdir() if p.is_dir())
    hist = json.loads(HISTORY.read_text()) if HISTORY.exists() else {}
    for sid in ids:
        d = SEEDED / sid
        if not (d / "patch.diff").exists() or not (d / ".result").exists():
            print(f"{sid}: not evaluated yet")
            continue
        prop = re.match(r"C\d\d", sid).group(0)
        d0, d1, c = (d / ".result").read_text().split()
        notes = (d / "notes.md").read_text() if (d / "notes.md").exists() else ""
        title = next((l.lstrip("# ").strip() for l in notes.splitlines() if l.startswith("# ")), "")
        patch = (d / "patch.diff").read_text()
        files = re.findall(r"^\+\+\+ b/(\S+)", patch, re.M)
        log = (d / "check_quick.log").read_text() if (d / "check_quick.log").exists() else ""
        viol = [l for l in log.splitlines() if l.startswith("VIOLATION")]
        first_what = ""
        lines = log.splitlines()
        for i, l in enumerate(lines):
            if l.startswith("VIOLATION") and i + 1 < len(lines):
                first_what = lines[i + 1].strip()[:400]
                break
        tests = (d / "pytest_changed.log").read_text().strip().splitlines()[-1:] if (d / "pytest_changed.log").exists() else []
        demo = "demo.sh" if (d / "demo.sh").exists() else "demo.py"
        meta = {
            "id": sid,
            "property": prop,
            "change": title,
            "files_touched": files,
            "needs_to_manifest": section(notes, r"need|manifest")[:3000],
            "sentence_broken": section(notes, r"sentence|breaks")[:2000],
            "confirmed_by": {
                "worktree": "scratch `git worktree add /tmp/ev-<id> HEAD` of /repo + `git apply patch.diff`, removed afterwards (tools/eval_seed.sh)",
                "demo": f"PYTHONPATH=<checkout> {'sh' if demo.endswith('.sh') else '/venv/bin/python'} {demo}",
                "demo_rc_unchanged_tree": int(d0),
                "demo_rc_with_patch": int(d1),
                "test_suite_with_patch": f"/venv/bin/python -m pytest -q -p no:cacheprovider --no-cov -> {tests[0] if tests else '?'}",
                "builds": "pure Python; `python -m refurb` runs in the demo",
            },
            "check": {
                "command": f"VERIF_REPO=<worktree> bin/check {prop} --tier quick",
                "exit": int(c),
                "violation_lines": len(viol),
                "with_failing_input": sum(1 for l in viol if not l.rstrip().endswith("no-failing-input-found")),
                "first": first_what,
                "detected": int(c) == 1 and bool(viol),
            },
            "history": hist.get(sid, {}),
            "apply": f"git -C /repo apply /verif/seeded/{sid}/patch.diff ; bin/check {prop} ; git -C /repo checkout -- .",
        }
        (d / "meta.json").write_text(json.dumps(meta, indent=1, ensure_ascii=False) + "\n")
        print(f"{sid}: demo {d0}->{d1}, tests '{tests[0] if tests else '?'}', check rc={c} ({len(viol)} violation lines)")
    return 0


if __name__ == "__main__":
    sys.exit(main())
