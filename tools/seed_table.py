#!/usr/bin/env python3
"""tools/seed_table.py — print the markdown table of seeded changes for DESIGN.md §12 from seeded/*/meta.json + history.json."""
import json
from pathlib import Path

S = Path(__file__).resolve().parent.parent / "seeded"
hist = json.loads((S / "history.json").read_text())
print("| seed | change (files) | needs to manifest | first result | strengthening | now |")
print("|---|---|---|---|---|---|")
for d in sorted(p for p in S.iterdir() if (p / "meta.json").exists()):
    m = json.loads((d / "meta.json").read_text())
    h = hist.get(m["id"], {})
    change = (m["change"] or "").replace("|", "/")
    change = change.split("—", 1)[-1].split(":", 1)[-1].strip() if len(change) > 90 else change
    needs = " ".join((m.get("needs_to_manifest") or "").split())[:170].replace("|", "/")
    c = m["check"]
    now = "retired (no longer manifests after a fix:)" if h.get("retired") else (
        f"caught, {c['with_failing_input']} concrete input(s)" if c["detected"] and c["with_failing_input"] else ("caught (no-failing-input-found)" if c["detected"] else "MISSED"))
    print(f"| {m['id']} | {change[:110]} ({', '.join(Path(f).name for f in m['files_touched'])}) | {needs} | {h.get('first', '?')} | {h.get('strengthening', '–')} | {now} |")
