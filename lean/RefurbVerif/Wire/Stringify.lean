import RefurbVerif.Wire.Basic
import RefurbVerif.Model.Stringify
open Lean

namespace RefurbVerif.Wire
open RefurbVerif.Sfy

namespace SfyW

/-- text travels as arrays of code points (answers must stay free of line separators, requests of surrogates) -/
def cps (j : Json) (k : String) : Sfy.Str :=
  match j.getObjVal? k with
  | .ok (.arr a) => a.toList.filterMap (fun x => (x.getNat?.toOption).map Char.ofNat)
  | .ok (.str s) => s.toList
  | _ => []

def cpJ (l : Sfy.Str) : Json := Json.arr (l.map (fun c => (c.toNat : Json))).toArray

def binOp? : String → Option BinOp
  | "or" => some .or_ | "and" => some .and_ | "|" => some .bitor | "^" => some .bitxor | "&" => some .bitand
  | "<<" => some .lshift | ">>" => some .rshift | "+" => some .add | "-" => some .sub | "*" => some .mul
  | "/" => some .div | "//" => some .floordiv | "%" => some .mod | "@" => some .matmul | "**" => some .pow
  | _ => none

def cmpOp? : String → Option CmpOp
  | "==" => some .eq | "!=" => some .ne | "<" => some .lt | "<=" => some .le | ">" => some .gt | ">=" => some .ge
  | "is" => some .is_ | "is not" => some .isNot | "in" => some .in_ | "not in" => some .notIn
  | _ => none

def unOp? : String → Option UnOp
  | "-" => some .neg | "+" => some .pos | "~" => some .inv | "not" => some .not_
  | _ => none

def argKind? : String → Option ArgKind
  | "ARG_POS" => some .pos | "ARG_OPT" => some .opt | "ARG_STAR" => some .star | "ARG_NAMED" => some .named
  | "ARG_STAR2" => some .star2 | "ARG_NAMED_OPT" => some .namedOpt
  | _ => none

def argKindS : ArgKind → String
  | .pos => "ARG_POS" | .opt => "ARG_OPT" | .star => "ARG_STAR" | .named => "ARG_NAMED" | .star2 => "ARG_STAR2"
  | .namedOpt => "ARG_NAMED_OPT"

def intOf (j : Json) (k : String) : Option Int :=
  match j.getObjVal? k with
  | .ok (.str s) => s.toInt?
  | .ok (.num n) => if n.exponent = 0 then some n.mantissa else none
  | _ => none

/-- JSON → `Node` (`none`: a shape outside the model) -/
partial def node (j : Json) : Option Node :=
  let sub (k : String) : Option Node := node (obj j k)
  let subO (k : String) : Option (Option Node) :=
    match j.getObjVal? k with
    | .ok .null | .error _ => some none
    | .ok v => (node v).map some
  let items (k : String) : Option (List Node) := (arr j k).mapM node
  match str j "k" with
  | "name" => some (.name (cps j "s"))
  | "member" => do some (.member (← sub "e") (cps j "a"))
  | "int" => (intOf j "v").map .int
  | "float" => some (.float (cps j "s"))
  | "complex" => some (.complex (cps j "s"))
  | "str" => some (.str (cps j "v"))
  | "bytes" => some (.bytes (cps j "v"))
  | "ellipsis" => some .ellipsis
  | "dict" => do
    let its ← (arr j "items").mapM (fun kv => match kv with
      | .arr #[.null, v] => (node v).map (fun v => (none, v))
      | .arr #[k, v] => do some (some (← node k), ← node v)
      | _ => none)
    some (.dict its)
  | "tuple" => (items "items").map .tuple
  | "list" => (items "items").map .list
  | "set" => (items "items").map .set
  | "call" => do
    let args ← (arr j "args").mapM (fun a => match a with
      | .arr #[.str k, nm, v] => do
        let nm' : Sfy.Str := match nm with
          | .str s => s.toList
          | .arr a => a.toList.filterMap (fun x => (x.getNat?.toOption).map Char.ofNat)
          | _ => "None".toList
        some (← argKind? k, nm', ← node v)
      | _ => none)
    some (.call (← sub "f") args)
  | "index" => do some (.index (← sub "b") (← sub "i"))
  | "slice" => do some (.slice (← subO "b") (← subO "e") (← subO "s"))
  | "op" => do some (.op (← binOp? (str j "o")) (← sub "l") (← sub "r"))
  | "cmp" => do
    let rest ← (arr j "rest").mapM (fun a => match a with
      | .arr #[.str o, v] => do some (← cmpOp? o, ← node v)
      | _ => none)
    some (.cmp (← sub "first") rest)
  | "unary" => do some (.unary (← unOp? (str j "o")) (← sub "e"))
  | "lambda" => do
    let ps ← (arr j "params").mapM (fun a => match a with
      | .arr #[nm, .str k] => do
        let nm' : Sfy.Str := match nm with
          | .str s => s.toList
          | _ => []
        some (nm', ← argKind? k)
      | _ => none)
    some (.lambda ps (← subO "body"))
  | "cond" => do some (.cond (← sub "t") (← sub "c") (← sub "e"))
  | "await" => do some (.await (← sub "e"))
  | "walrus" => do some (.walrus (← sub "l") (← sub "r"))
  | "star" => do some (.star (← sub "e"))
  | "fstr" => (items "parts").map .fstr
  | "ffield" => do
    let conv : Option Char := match (str j "conv").toList with
      | [c] => some c
      | _ => none
    some (.ffield (← sub "e") conv (cps j "spec"))
  | "other" => some (.other (nat j "i"))
  | _ => none

partial def stmt (j : Json) : Option Stmt :=
  match str j "k" with
  | "assign" => do some (.assign (← (arr j "lvalues").mapM node) (← node (obj j "r")))
  | "if" => do
    let bodies ← (arr j "bodies").mapM (fun b => match b with
      | .arr a => a.toList.mapM stmt
      | _ => none)
    some (.ifS (← (arr j "conds").mapM node) bodies (bool j "else"))
  | "for" => do
    some (.forS (← node (obj j "idx")) (← node (obj j "e")) (← (arr j "body").mapM stmt) (bool j "else") (bool j "async"))
  | "del" => do some (.del (← node (obj j "e")))
  | "expr" => do some (.expr (← node (obj j "e")))
  | "otherstmt" => some .other
  | _ => none

def kv (k : String) (fields : List (String × Json)) : Json := Json.mkObj (("k", (k : Json)) :: fields)

/-- `Node` → JSON (same shape as `node` reads) -/
partial def nodeJ : Node → Json
  | .name s => kv "name" [("s", cpJ s)]
  | .member e a => kv "member" [("e", nodeJ e), ("a", cpJ a)]
  | .int v => kv "int" [("v", (toString v : Json))]
  | .float s => kv "float" [("s", cpJ s)]
  | .complex s => kv "complex" [("s", cpJ s)]
  | .str v => kv "str" [("v", cpJ v)]
  | .bytes v => kv "bytes" [("v", cpJ v)]
  | .ellipsis => kv "ellipsis" []
  | .dict items => kv "dict" [("items", Json.arr (items.map (fun (k, v) => Json.arr #[optJ nodeJ k, nodeJ v])).toArray)]
  | .tuple items => kv "tuple" [("items", Json.arr (items.map nodeJ).toArray)]
  | .list items => kv "list" [("items", Json.arr (items.map nodeJ).toArray)]
  | .set items => kv "set" [("items", Json.arr (items.map nodeJ).toArray)]
  | .call f args => kv "call" [("f", nodeJ f),
      ("args", Json.arr (args.map (fun (k, nm, a) => Json.arr #[(argKindS k : Json), cpJ nm, nodeJ a])).toArray)]
  | .index b i => kv "index" [("b", nodeJ b), ("i", nodeJ i)]
  | .slice b e s => kv "slice" [("b", optJ nodeJ b), ("e", optJ nodeJ e), ("s", optJ nodeJ s)]
  | .op o l r => kv "op" [("o", (o.text : Json)), ("l", nodeJ l), ("r", nodeJ r)]
  | .cmp f rest => kv "cmp" [("first", nodeJ f),
      ("rest", Json.arr (rest.map (fun (o, e) => Json.arr #[(o.text : Json), nodeJ e])).toArray)]
  | .unary o e => kv "unary" [("o", (o.text : Json)), ("e", nodeJ e)]
  | .lambda ps b => kv "lambda" [
      ("params", Json.arr (ps.map (fun (nm, k) => Json.arr #[(String.ofList nm : Json), (argKindS k : Json)])).toArray),
      ("body", optJ nodeJ b)]
  | .cond t c e => kv "cond" [("t", nodeJ t), ("c", nodeJ c), ("e", nodeJ e)]
  | .await e => kv "await" [("e", nodeJ e)]
  | .walrus l r => kv "walrus" [("l", nodeJ l), ("r", nodeJ r)]
  | .star e => kv "star" [("e", nodeJ e)]
  | .fstr parts => kv "fstr" [("parts", Json.arr (parts.map nodeJ).toArray)]
  | .ffield e conv spec => kv "ffield" [("e", nodeJ e),
      ("conv", match conv with | some c => (String.ofList [c] : Json) | none => Json.null), ("spec", cpJ spec)]
  | .other i => kv "other" [("i", (i : Json))]

def toksJ (t : Toks) : Json := cpJ (render t)

end SfyW

open SfyW in
/-- driver verbs of C02 -/
def handleStringify (verb : String) (j : Json) : Option Json :=
  match verb with
  | "sfy" =>
    -- `_stringify(n)` (null = ValueError) and `stringify(n)`
    some (match node (obj j "n") with
      | none => Json.mkObj [("unmodelled", true)]
      | some n => Json.mkObj [("r", optJ toksJ (sfy n)), ("x", toksJ (stringify n))])
  | "sfy_stmt" =>
    some (match stmt (obj j "n") with
      | none => Json.mkObj [("unmodelled", true)]
      | some n => Json.mkObj [("r", optJ toksJ (sfyStmt n))])
  | "slice_call" =>
    some (match node (obj j "n") with
      | some (.slice b e s) => Json.mkObj [("r", toksJ (sliceCall b e s))]
      | _ => Json.mkObj [("unmodelled", true)])
  | "ppref" =>
    -- a tree as the user wrote it: reference text, what mypy makes of it, what `stringify` prints for that
    some (match node (obj j "n") with
      | none => Json.mkObj [("unmodelled", true)]
      | some n => Json.mkObj [("wf", wf n), ("safe", safe n && decide (1 ≤ n.prec)), ("ppref", toksJ (ppRef n)),
          ("desugar", nodeJ (desugar n)), ("sfy", optJ toksJ (sfy (desugar n))), ("x", toksJ (stringify (desugar n)))])
  | "templates" =>
    -- the committed table: shape, text with `{i}` holes, demands of the holes
    some (Json.arr (templates.map (fun t => Json.mkObj [("check", t.check), ("role", t.role), ("shape", nodeJ t.shape),
      ("text", toksJ (ppRef t.shape)),
      ("reqs", Json.arr ((reqs 1 false false t.shape).map (fun r => Json.mkObj [("hole", r.hole), ("level", r.level),
        ("notInt", r.notInt), ("noBrace", r.noBrace)])).toArray)])).toArray)
  | "template_fill" =>
    -- what a check prints for template number `id` when the operands are `sigma` (each through `stringify`), and
    -- whether every operand meets the demand of its hole (then the text is faithful: `template_faithful`)
    some (match templates[nat j "id"]?, (arr j "sigma").mapM node with
      | some t, some sg =>
        let σ : Nat → Node := fun i => sg.getD i dummy
        let f : Nat → Toks := fun i => stringify (desugar (σ i))
        Json.mkObj [("text", toksJ (fillT f (wrap 1 t.shape.prec (pr t.shape)))),
          ("meets", (reqs 1 false false t.shape).all (fun r => meetsB r (σ r.hole))),
          ("printable", (reqs 1 false false t.shape).all (fun r => (sfy (desugar (σ r.hole))).isSome)),
          ("whole_wf", wf (fillN σ t.shape))]
      | _, _ => Json.mkObj [("unmodelled", true)])
  | _ => none

end RefurbVerif.Wire
