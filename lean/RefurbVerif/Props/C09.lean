/-
C09 — which checks run follows the documented enable/disable/ignore precedence.

All statements are over option lists / settings of any size.  `Arg` lists are what `lex` makes
of argv (Model/Settings.lean); `applyArgs` is the loop of `parse_command_line_args`; `merge` and
`shouldLoad` mirror `Settings.merge` and `should_load_check`.
-/
import RefurbVerif.Model.Settings

namespace RefurbVerif.C09
open RefurbVerif

/-! ### The command-line fold: last mention wins -/

/-- the option names `c` in an `--enable` list -/
def mentionsEnable (c : Clsf) : Arg → Bool
  | .enable cs => cs.contains c
  | _ => false

/-- the option removes `c` from the enable set: a later `--disable c` or `--disable-all` -/
def killsEnable (c : Clsf) : Arg → Bool
  | .disable cs => cs.contains c
  | .disableAll => true
  | _ => false

def mentionsDisable (c : Clsf) : Arg → Bool
  | .disable cs => cs.contains c
  | _ => false

def killsDisable (c : Clsf) : Arg → Bool
  | .enable cs => cs.contains c
  | .enableAll => true
  | _ => false

theorem step_enable (s : Settings) (a : Arg) (c : Clsf) :
    c ∈ (step s a).enable ↔ mentionsEnable c a = true ∨ (c ∈ s.enable ∧ killsEnable c a = false) := by
  cases a <;> simp [step, mentionsEnable, killsEnable, List.mem_filter] <;> grind

theorem step_disable (s : Settings) (a : Arg) (c : Clsf) :
    c ∈ (step s a).disable ↔ mentionsDisable c a = true ∨ (c ∈ s.disable ∧ killsDisable c a = false) := by
  cases a <;> simp [step, mentionsDisable, killsDisable, List.mem_filter] <;> grind

theorem applyArgs_append (xs ys : List Arg) (s : Settings) :
    applyArgs (xs ++ ys) s = applyArgs ys (applyArgs xs s) := by
  simp [applyArgs, List.foldl_append]

theorem applyArgs_cons (a : Arg) (r : List Arg) (s : Settings) :
    applyArgs (a :: r) s = applyArgs r (step s a) := rfl

/-- what survives: a member of the enable set stays as long as nothing later kills it -/
theorem enable_persists (post : List Arg) (s : Settings) (c : Clsf)
    (h : c ∈ s.enable) (hk : ∀ b ∈ post, killsEnable c b = false) : c ∈ (applyArgs post s).enable := by
  induction post generalizing s with
  | nil => simpa [applyArgs] using h
  | cons a r ih =>
    rw [applyArgs_cons]
    apply ih
    · exact (step_enable s a c).mpr (Or.inr ⟨h, hk a (by simp)⟩)
    · intro b hb; exact hk b (by simp [hb])

theorem disable_persists (post : List Arg) (s : Settings) (c : Clsf)
    (h : c ∈ s.disable) (hk : ∀ b ∈ post, killsDisable c b = false) : c ∈ (applyArgs post s).disable := by
  induction post generalizing s with
  | nil => simpa [applyArgs] using h
  | cons a r ih =>
    rw [applyArgs_cons]
    apply ih
    · exact (step_disable s a c).mpr (Or.inr ⟨h, hk a (by simp)⟩)
    · intro b hb; exact hk b (by simp [hb])

/-- **Last mention wins (enable), complete characterisation.**  After any option list, `c` is in
    the enable set iff some `--enable` naming it is followed by no `--disable` naming it and no
    `--disable-all` (or it was there to begin with and nothing removed it). -/
theorem mem_enable_iff (as : List Arg) (s : Settings) (c : Clsf) :
    c ∈ (applyArgs as s).enable ↔
      (c ∈ s.enable ∧ ∀ b ∈ as, killsEnable c b = false) ∨
      (∃ pre a post, as = pre ++ a :: post ∧ mentionsEnable c a = true ∧ ∀ b ∈ post, killsEnable c b = false) := by
  constructor
  · induction as generalizing s with
    | nil => intro h; exact Or.inl ⟨by simpa [applyArgs] using h, by simp⟩
    | cons a r ih =>
      intro h
      rw [applyArgs_cons] at h
      rcases ih (step s a) h with ⟨hmem, hk⟩ | ⟨pre, a', post, rfl, hm, hk⟩
      · rcases (step_enable s a c).mp hmem with hm | ⟨hs, hka⟩
        · exact Or.inr ⟨[], a, r, rfl, hm, hk⟩
        · refine Or.inl ⟨hs, ?_⟩
          intro b hb
          rcases List.mem_cons.mp hb with rfl | hb
          · exact hka
          · exact hk b hb
      · exact Or.inr ⟨a :: pre, a', post, rfl, hm, hk⟩
  · rintro (⟨hs, hk⟩ | ⟨pre, a, post, rfl, hm, hk⟩)
    · exact enable_persists as s c hs hk
    · rw [applyArgs_append, applyArgs_cons]
      exact enable_persists post _ c ((step_enable _ a c).mpr (Or.inl hm)) hk

/-- **Last mention wins (disable), complete characterisation.** -/
theorem mem_disable_iff (as : List Arg) (s : Settings) (c : Clsf) :
    c ∈ (applyArgs as s).disable ↔
      (c ∈ s.disable ∧ ∀ b ∈ as, killsDisable c b = false) ∨
      (∃ pre a post, as = pre ++ a :: post ∧ mentionsDisable c a = true ∧ ∀ b ∈ post, killsDisable c b = false) := by
  constructor
  · induction as generalizing s with
    | nil => intro h; exact Or.inl ⟨by simpa [applyArgs] using h, by simp⟩
    | cons a r ih =>
      intro h
      rw [applyArgs_cons] at h
      rcases ih (step s a) h with ⟨hmem, hk⟩ | ⟨pre, a', post, rfl, hm, hk⟩
      · rcases (step_disable s a c).mp hmem with hm | ⟨hs, hka⟩
        · exact Or.inr ⟨[], a, r, rfl, hm, hk⟩
        · refine Or.inl ⟨hs, ?_⟩
          intro b hb
          rcases List.mem_cons.mp hb with rfl | hb
          · exact hka
          · exact hk b hb
      · exact Or.inr ⟨a :: pre, a', post, rfl, hm, hk⟩
  · rintro (⟨hs, hk⟩ | ⟨pre, a, post, rfl, hm, hk⟩)
    · exact disable_persists as s c hs hk
    · rw [applyArgs_append, applyArgs_cons]
      exact disable_persists post _ c ((step_disable _ a c).mpr (Or.inl hm)) hk

/-- the command line never leaves a classifier both enabled and disabled -/
theorem enable_disable_disjoint (as : List Arg) (s : Settings)
    (h : ∀ x, ¬ (x ∈ s.enable ∧ x ∈ s.disable)) :
    ∀ x, ¬ (x ∈ (applyArgs as s).enable ∧ x ∈ (applyArgs as s).disable) := by
  induction as generalizing s with
  | nil => simpa [applyArgs] using h
  | cons a r ih =>
    rw [applyArgs_cons]
    apply ih
    intro x ⟨he, hd⟩
    rcases (step_enable s a x).mp he with hm | ⟨hs, hk⟩ <;>
      rcases (step_disable s a x).mp hd with hm' | ⟨hs', hk'⟩
    · cases a <;> simp_all [mentionsEnable, mentionsDisable]
    · cases a <;> simp_all [mentionsEnable, killsDisable]
    · cases a <;> simp_all [mentionsDisable, killsEnable]
    · exact h x ⟨hs, hs'⟩

/-- ignore only ever grows: every `--ignore` on the command line is remembered -/
theorem ignore_accumulates (as : List Arg) (s : Settings) (c : Clsf) :
    c ∈ (applyArgs as s).ignore ↔ c ∈ s.ignore ∨ ∃ cs, Arg.ignore cs ∈ as ∧ c ∈ cs := by
  induction as generalizing s with
  | nil => simp [applyArgs]
  | cons a r ih =>
    rw [applyArgs_cons, ih]
    cases a <;> simp [step] <;> grind

/-! ### The ladder: explicit code beats category, ignore silences -/

/-- the check's code, or one of its categories, is named by a (pathless) ignore -/
def Ignored (s : Settings) (c : CheckSel) : Prop :=
  c.cls ∈ s.ignore ∨ ∃ n ∈ c.categories, ({ cls := .cat n } : Clsf) ∈ s.ignore

theorem catIn_iff (l : List Clsf) (c : CheckSel) :
    catIn l c = true ↔ ∃ n ∈ c.categories, ({ cls := .cat n } : Clsf) ∈ l := by
  simp only [catIn, CheckSel.catClsfs, List.any_eq_true, List.mem_map, List.contains_iff_mem]
  constructor
  · rintro ⟨x, ⟨n, hn, rfl⟩, hx⟩; exact ⟨n, hn, hx⟩
  · rintro ⟨n, hn, hx⟩; exact ⟨_, ⟨n, hn, rfl⟩, hx⟩

theorem ignoredB_iff (s : Settings) (c : CheckSel) : ignoredB s c = true ↔ Ignored s c := by
  unfold ignoredB Ignored
  rw [Bool.or_eq_true, List.contains_iff_mem, ← catIn_iff]
  rfl

theorem ignored_silences (s : Settings) (c : CheckSel) (h : Ignored s c) : shouldLoad s c = false := by
  simp [shouldLoad, (ignoredB_iff s c).mpr h]

theorem ignore_code_silences (s : Settings) (c : CheckSel) (h : c.cls ∈ s.ignore) :
    shouldLoad s c = false := ignored_silences s c (Or.inl h)

theorem ignore_category_silences (s : Settings) (c : CheckSel) (n : String)
    (hn : n ∈ c.categories) (h : ({ cls := .cat n } : Clsf) ∈ s.ignore) : shouldLoad s c = false :=
  ignored_silences s c (Or.inr ⟨n, hn, h⟩)

theorem not_ignoredB (s : Settings) (c : CheckSel) (hi : ¬ Ignored s c) : ignoredB s c = false := by
  rw [Bool.eq_false_iff]; intro h; exact hi ((ignoredB_iff s c).mp h)

theorem not_catIn (l : List Clsf) (c : CheckSel)
    (h : ∀ n ∈ c.categories, ({ cls := .cat n } : Clsf) ∉ l) : catIn l c = false := by
  rw [Bool.eq_false_iff]; intro hc
  obtain ⟨n, hn, hx⟩ := (catIn_iff l c).mp hc
  exact h n hn hx

theorem explicit_enable_beats_category (s : Settings) (c : CheckSel)
    (hi : ¬ Ignored s c) (h : c.cls ∈ s.enable) : shouldLoad s c = true := by
  simp [shouldLoad, not_ignoredB s c hi, h]

theorem explicit_disable_beats_category (s : Settings) (c : CheckSel)
    (he : c.cls ∉ s.enable) (h : c.cls ∈ s.disable) : shouldLoad s c = false := by
  unfold shouldLoad
  split
  · rfl
  · simp [he, h]

theorem category_enable_beats_all_switch (s : Settings) (c : CheckSel) (n : String)
    (hi : ¬ Ignored s c) (he : c.cls ∉ s.enable) (hd : c.cls ∉ s.disable)
    (hn : n ∈ c.categories) (h : ({ cls := .cat n } : Clsf) ∈ s.enable) : shouldLoad s c = true := by
  have hc : catIn s.enable c = true := (catIn_iff _ c).mpr ⟨n, hn, h⟩
  simp [shouldLoad, not_ignoredB s c hi, he, hd, hc]

theorem category_disable_beats_default (s : Settings) (c : CheckSel) (n : String)
    (he : c.cls ∉ s.enable) (hce : ∀ n ∈ c.categories, ({ cls := .cat n } : Clsf) ∉ s.enable)
    (hn : n ∈ c.categories) (h : ({ cls := .cat n } : Clsf) ∈ s.disable) : shouldLoad s c = false := by
  have hc : catIn s.disable c = true := (catIn_iff _ c).mpr ⟨n, hn, h⟩
  unfold shouldLoad
  split
  · rfl
  · simp [he, not_catIn _ c hce, hc]

theorem defaults_when_unmentioned (s : Settings) (c : CheckSel)
    (hi : ¬ Ignored s c) (he : c.cls ∉ s.enable) (hd : c.cls ∉ s.disable)
    (hce : ∀ n ∈ c.categories, ({ cls := .cat n } : Clsf) ∉ s.enable)
    (hcd : ∀ n ∈ c.categories, ({ cls := .cat n } : Clsf) ∉ s.disable) :
    shouldLoad s c = if s.disableAll then false else (c.enabled || s.enableAll) := by
  simp [shouldLoad, not_ignoredB s c hi, he, hd, not_catIn _ c hce, not_catIn _ c hcd]

/-! ### End to end on the command line -/

/-- README: "whichever one comes last will take precedence" — a final `--disable c` (no later
    `--enable c`, no later `--enable-all`) unloads the check whatever came before. -/
theorem cli_last_disable_wins (pre post : List Arg) (cs : List Clsf) (s : Settings) (c : CheckSel)
    (hc : c.cls ∈ cs)
    (hpost : ∀ b ∈ post, killsDisable c.cls b = false ∧ mentionsEnable c.cls b = false) :
    shouldLoad (applyArgs (pre ++ Arg.disable cs :: post) s) c = false := by
  have hd : c.cls ∈ (applyArgs (pre ++ Arg.disable cs :: post) s).disable :=
    (mem_disable_iff _ s _).mpr (Or.inr ⟨pre, _, post, rfl, by simpa [mentionsDisable] using hc,
      fun b hb => (hpost b hb).1⟩)
  have he : c.cls ∉ (applyArgs (pre ++ Arg.disable cs :: post) s).enable := by
    intro he
    rw [applyArgs_append, applyArgs_cons] at he
    rcases (mem_enable_iff post _ _).mp he with ⟨hmem, _⟩ | ⟨p, a, q, rfl, hm, _⟩
    · have := (step_enable (applyArgs pre s) (Arg.disable cs) c.cls).mp hmem
      simp [mentionsEnable, killsEnable, hc] at this
    · have := (hpost a (by simp)).2
      simp [hm] at this
  exact explicit_disable_beats_category _ c he hd

/-- ... and a final `--enable c` loads it, unless it is ignored. -/
theorem cli_last_enable_wins (pre post : List Arg) (cs : List Clsf) (s : Settings) (c : CheckSel)
    (hc : c.cls ∈ cs) (hpost : ∀ b ∈ post, killsEnable c.cls b = false)
    (hi : ¬ Ignored (applyArgs (pre ++ Arg.enable cs :: post) s) c) :
    shouldLoad (applyArgs (pre ++ Arg.enable cs :: post) s) c = true := by
  apply explicit_enable_beats_category _ c hi
  exact (mem_enable_iff _ s _).mpr (Or.inr ⟨pre, _, post, rfl, by simpa [mentionsEnable] using hc, hpost⟩)

/-- `--ignore` anywhere on the command line silences the check, whatever else is said -/
theorem cli_ignore_silences (as : List Arg) (s : Settings) (c : CheckSel) (cs : List Clsf)
    (h : Arg.ignore cs ∈ as) (hc : c.cls ∈ cs) : shouldLoad (applyArgs as s) c = false :=
  ignore_code_silences _ c ((ignore_accumulates as s _).mpr (Or.inr ⟨cs, h, hc⟩))

/-! ### Config file and merge -/

/-- what `parse_config_file` does with its two lists -/
def configEnable (enable disable : List Clsf) : List Clsf := enable.filter (fun x => !disable.contains x)

/-- README: "When using enable and disable via the config file, disable will always take precedence." -/
theorem config_disable_beats_enable (enable disable : List Clsf) (x : Clsf) (h : x ∈ disable) :
    x ∉ configEnable enable disable := by
  simp [configEnable, List.mem_filter, h]

theorem merge_ok (envColor : Bool) (old new s : Settings) (h : merge envColor old new = .ok s) :
    s = mergeRaw envColor old new := by
  unfold merge at h
  split at h
  · cases h
  · cases h; rfl

/-- merged settings never hold a classifier in both sets, provided the command line's did not -/
theorem merge_disjoint (envColor : Bool) (old new s : Settings)
    (hnew : ∀ x, ¬ (x ∈ new.enable ∧ x ∈ new.disable))
    (h : merge envColor old new = .ok s) : ∀ x, ¬ (x ∈ s.enable ∧ x ∈ s.disable) := by
  rw [merge_ok _ _ _ _ h]
  simp only [mergeRaw, mergeSets]
  split
  · exact hnew
  · split
    · exact hnew
    · intro x ⟨he, hd⟩
      simp [List.mem_filter] at he hd
      rcases hd with hd | hd <;> simp [hd] at he

/-- README/property: a command-line all-switch resets the config's lists — only the command
    line's own `--enable`/`--disable` survive. -/
theorem cli_all_switch_resets_config_lists (envColor : Bool) (old new s : Settings)
    (hsw : (old.disableAll = false ∧ new.disableAll = true) ∨ (old.enableAll = false ∧ new.enableAll = true))
    (h : merge envColor old new = .ok s) : s.enable = new.enable ∧ s.disable = new.disable := by
  rw [merge_ok _ _ _ _ h]
  simp only [mergeRaw, mergeSets]
  rcases hsw with ⟨h1, h2⟩ | ⟨h1, h2⟩
  · simp [h1, h2]
  · split
    · exact ⟨rfl, rfl⟩
    · simp [h1, h2]

/-- without a command-line all-switch the lists are combined and disable still beats enable -/
theorem merge_combines_lists (envColor : Bool) (old new s : Settings)
    (h1 : ¬ (old.disableAll = false ∧ new.disableAll = true))
    (h2 : ¬ (old.enableAll = false ∧ new.enableAll = true))
    (h : merge envColor old new = .ok s) :
    (∀ x, x ∈ s.disable ↔ x ∈ old.disable ∨ x ∈ new.disable) ∧
    (∀ x, x ∈ s.enable ↔ (x ∈ old.enable ∨ x ∈ new.enable) ∧ x ∉ s.disable) := by
  rw [merge_ok _ _ _ _ h]
  have c1 : (!old.disableAll && new.disableAll) = false := by
    cases hA : old.disableAll <;> cases hB : new.disableAll <;> simp_all
  have c2 : (!old.enableAll && new.enableAll) = false := by
    cases hA : old.enableAll <;> cases hB : new.enableAll <;> simp_all
  simp only [mergeRaw, mergeSets, c1, c2]
  constructor
  · intro x; simp
  · intro x; simp [List.mem_filter]; grind

/-- ignores from both sources are all kept -/
theorem merge_keeps_ignores (envColor : Bool) (old new s : Settings)
    (h : merge envColor old new = .ok s) : ∀ x, x ∈ s.ignore ↔ x ∈ old.ignore ∨ x ∈ new.ignore := by
  rw [merge_ok _ _ _ _ h]
  intro x; simp [mergeRaw]

/-- Ignoring in either source silences the check after the merge: "silences it everywhere". -/
theorem ignore_silences_everywhere (envColor : Bool) (old new s : Settings) (c : CheckSel)
    (h : merge envColor old new = .ok s) (hi : Ignored old c ∨ Ignored new c) : shouldLoad s c = false := by
  have hk := merge_keeps_ignores envColor old new s h
  apply ignored_silences
  rcases hi with hi | hi <;> rcases hi with hi | ⟨n, hn, hi⟩
  · exact Or.inl ((hk _).mpr (Or.inl hi))
  · exact Or.inr ⟨n, hn, (hk _).mpr (Or.inl hi)⟩
  · exact Or.inl ((hk _).mpr (Or.inr hi))
  · exact Or.inr ⟨n, hn, (hk _).mpr (Or.inr hi)⟩

/-- a path-scoped (amend) classifier never changes which checks load -/
theorem scoped_never_unloads (s : Settings) (c : CheckSel) (e : Clsf) (hp : e.path ≠ none) :
    shouldLoad { s with ignore := e :: s.ignore } c = shouldLoad s c := by
  have h1 : c.cls ≠ e := by
    intro h; rw [← h] at hp; exact hp rfl
  have h2 : ∀ x ∈ c.catClsfs, x ≠ e := by
    intro x hx h
    simp only [CheckSel.catClsfs, List.mem_map] at hx
    obtain ⟨n, _, rfl⟩ := hx
    rw [← h] at hp; exact hp rfl
  have h3 : ignoredB { s with ignore := e :: s.ignore } c = ignoredB s c := by
    have ha : c.catClsfs.any (fun x => (e :: s.ignore).contains x) = c.catClsfs.any (fun x => s.ignore.contains x) := by
      rw [Bool.eq_iff_iff]
      simp only [List.any_eq_true, List.contains_iff_mem, List.mem_cons]
      constructor
      · rintro ⟨x, hx, hm⟩
        rcases hm with rfl | hm
        · exact absurd rfl (h2 x hx)
        · exact ⟨x, hx, hm⟩
      · rintro ⟨x, hx, hm⟩
        exact ⟨x, hx, Or.inr hm⟩
    simp only [ignoredB, ha]
    simp [List.contains_cons, h1]
  simp only [shouldLoad, h3]

/-! ### The `--verbose` listing -/

/-- `load_checks` lists a check iff it calls `should_load_check` true for it: the listing and
    the loaded set are the same filter of the catalogue. -/
def verboseListing (s : Settings) (cat : List CheckSel) : List CheckSel := cat.filter (shouldLoad s)

theorem verbose_lists_exactly_loaded (s : Settings) (cat : List CheckSel) (c : CheckSel) :
    c ∈ verboseListing s cat ↔ c ∈ cat ∧ shouldLoad s c = true := by
  simp [verboseListing, List.mem_filter]

/-! ### One check, several spellings -/

/-- **A check's code may be written with or without the default prefix**: `NNN` and `FURBNNN` parse to the same
    `ErrorCode`, for every three-digit id — so whichever spelling an `enable`, `disable` or `ignore` entry uses (also mixed
    between the two lists of a config file, or between config file and command line), the ladder sees ONE classifier. -/
theorem code_spelling_irrelevant (ds : List Char) (hl : ds.length = 3) (hd : ds.all isPyDigit = true) :
    parseErrorId (String.ofList ds) = parseErrorId ("FURB" ++ String.ofList ds) := by
  match ds, hl with
  | [a, b, c], _ =>
    simp only [List.all_cons, List.all_nil, Bool.and_true, Bool.and_eq_true] at hd
    obtain ⟨ha, hb, hc⟩ := hd
    have hnc : c ≠ '\n' := by intro h; subst h; revert hc; decide
    simp [parseErrorId, String.toList_append, hnc, ha, hb, hc, isAZ]

/-- **Inside a config file `disable` beats `enable`, on the settings `parse_config_file` really returns** (the whole
    function of Model/Settings.lean, every key and failure path included): whenever a `[tool.refurb]` table is accepted, no
    classifier of the resulting `disable` set is left in the `enable` set.  Together with `code_spelling_irrelevant` this
    covers entries that name one check in two spellings (`enable = ["FURB901"]`, `disable = [901]`). -/
theorem config_file_disable_beats_enable (envColor : Bool) (cfg : Table) (s : Settings)
    (h : parseConfigTable envColor cfg = .ok s) : ∀ x, x ∈ s.disable → x ∉ s.enable := by
  unfold parseConfigTable at h
  simp only [bind, Except.bind] at h
  repeat' (split at h <;> try (first | contradiction | (cases h; done)))
  all_goals (try cases h)
  all_goals (intro x hx; simp [List.mem_filter, hx])

deriving instance DecidableEq for Except

/-! ### Non-vacuity: the hypotheses above are met by concrete option lists -/

example : parseClassifier "901" = parseClassifier "FURB901" := by decide +kernel
example : parseClassifier "901" = .ok { cls := .code "FURB" 901 } := by decide +kernel
/-- a TOML integer in `enable = [901]` is read through `str(x)`: a third spelling of the same classifier -/
example : parseClassifier (Toml.int 901).pyStr = parseClassifier "FURB901" := by decide +kernel
/-- `enable = ["FURB901"]` + `disable = [901]` is accepted and leaves the check disabled -/
example : (parseConfigTable false [("enable", .arr [.str "FURB901"] ""), ("disable", .arr [.int 901] "")]).toOption.map
    (fun s => (s.enable, s.disable)) = some ([], [{ cls := .code "FURB" 901 }]) := by decide +kernel

def k901 : CheckSel := { pfx := "FURB", code := 901, categories := ["c1"], enabled := true }
def c901 : Clsf := { cls := .code "FURB" 901 }

example : shouldLoad (applyArgs [.enable [c901], .disableAll, .disable [c901], .verbose] {}) k901 = false := by
  decide
example : shouldLoad (applyArgs [.disable [c901], .enable [{ cls := .cat "c1" }], .enable [c901]] {}) k901 = true := by
  decide
example : shouldLoad (applyArgs [.enable [c901], .ignore [{ cls := .cat "c1" }]] {}) k901 = false := by decide
example : ∃ s, merge false { enable := [c901] } { disableAll := true, enable := [{ cls := .cat "c1" }], disable := [c901] } = .ok s
    ∧ shouldLoad s k901 = false := ⟨_, rfl, by decide⟩

end RefurbVerif.C09
