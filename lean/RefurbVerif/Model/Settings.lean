/-
Model of refurb/settings.py (command line, config file, merge) and of the selection ladder
`should_load_check` (refurb/loader.py:77-94).

Python failure modes are modelled explicitly, not totalised away:
  `Err.refurb msg`   a ValueError whose text is refurb's own one-line message
  `Err.foreign k`    a ValueError raised by a library (int(), tomllib, codecs): main() prints its text
  `Err.crash k`      any other exception (AttributeError, TypeError, ...): uncaught by main()
-/
import RefurbVerif.Generated.Unicode

namespace RefurbVerif

/-! ### Python character classes (tables regenerated from the running interpreter) -/

/-- value of a Unicode decimal digit: what `\d` matches and `int()` accepts -/
def decimalValue? (c : Char) : Option Nat :=
  (Generated.digitZeros.find? (fun z => z ≤ c.toNat && c.toNat ≤ z + 9)).map (c.toNat - ·)

def isPyDigit (c : Char) : Bool := (decimalValue? c).isSome

/-- `str.isnumeric()` on one character -/
def isPyNumericChar (c : Char) : Bool :=
  Generated.numericRanges.any (fun r => r.1 ≤ c.toNat && c.toNat ≤ r.2)

def isAZ (c : Char) : Bool := 'A' ≤ c && c ≤ 'Z'

def digitsValue (cs : List Char) : Nat :=
  cs.foldl (fun acc c => acc * 10 + (decimalValue? c).getD 0) 0

inductive Err where
  | refurb (msg : String)
  | foreign (kind : String)
  | crash (kind : String)
  deriving DecidableEq, Repr

/-! ### Classifiers -/

inductive Cls where
  | code (pfx : String) (id : Nat)
  | cat (name : String)
  deriving DecidableEq, Repr

/-- an `ErrorCode`/`ErrorCategory` with its optional amend path (already normalised like `Path(...)`) -/
structure Clsf where
  cls : Cls
  path : Option String := none
  deriving DecidableEq, Repr

/-- `ERROR_ID_REGEX = ^([A-Z]{3,4})?(\d{3})$` followed by `ErrorCode(prefix or "FURB", int(digits))`.
    Python's `$` also matches before one trailing newline. -/
def parseErrorId (err : String) : Except Err (String × Nat) :=
  let cs := err.toList
  let body := if cs.getLast? = some '\n' then cs.dropLast else cs
  let nl := body.length - 3
  let letters := body.take nl
  let digits := body.drop nl
  if (body.length = 3 ∨ body.length = 6 ∨ body.length = 7) ∧ letters.all isAZ ∧ digits.all isPyDigit then
    .ok (if letters.isEmpty then "FURB" else String.ofList letters, digitsValue digits)
  else
    .error (.refurb s!"refurb: \"{err}\" must be in form FURB123 or 123")

def parseClassifier (err : String) : Except Err Clsf :=
  if err.startsWith "#" then .ok { cls := .cat (err.drop 1).toString }
  else do
    let (p, i) ← parseErrorId err
    .ok { cls := .code p i }

def isPyNumeric (s : String) : Bool := !s.isEmpty && s.toList.all isPyNumericChar

/-- `str.isdecimal()`: non-empty and every character is a Unicode decimal digit (what `int()` accepts) -/
def isPyDecimal (s : String) : Bool := !s.isEmpty && s.toList.all isPyDigit

def parsePythonVersion (v : String) : Except Err (Nat × Nat) :=
  match v.splitOn "." with
  | [a, b] =>
    if isPyDecimal a ∧ isPyDecimal b then
      if digitsValue a.toList < 3 then .error (.refurb "refurb: Python versions below 3.0 are not supported")
      else .ok (digitsValue a.toList, digitsValue b.toList)
    else .error (.refurb "refurb: version must be in form `x.y`")
  | _ => .error (.refurb "refurb: version must be in form `x.y`")

def validateFormat (f : String) : Except Err String :=
  if f = "github" ∨ f = "text" then .ok f else .error (.refurb s!"refurb: \"{f}\" is not a valid format")

def validateSortBy (f : String) : Except Err String :=
  if f = "filename" ∨ f = "error" then .ok f else .error (.refurb s!"refurb: cannot sort by \"{f}\"")

/-! ### Settings -/

structure Settings where
  files : List String := []
  explain : Option (String × Nat) := none
  ignore : List Clsf := []
  load : List String := []
  enable : List Clsf := []
  disable : List Clsf := []
  debug : Bool := false
  generate : Bool := false
  help : Bool := false
  version : Bool := false
  quiet : Bool := false
  enableAll : Bool := false
  disableAll : Bool := false
  configFile : Option String := none
  pythonVersion : Option (Nat × Nat) := none
  mypyArgs : List String := []
  format : Option String := none
  sortBy : Option String := none
  verbose : Bool := false
  timingStats : Option String := none
  color : Bool := true
  deriving DecidableEq, Repr

/-! ### Command line: lexing into `Arg`s, then a total left fold -/

inductive Arg where
  | debug | help | version | quiet | disableAll | enableAll | verbose | noColor
  | explain (c : String × Nat)
  | ignore (cs : List Clsf)
  | enable (cs : List Clsf)
  | disable (cs : List Clsf)
  | load (m : String)
  | configFile (p : String)
  | pythonVersion (v : Nat × Nat)
  | format (f : String)
  | sort (s : String)
  | timingStats (p : String)
  | mypyArgs (rest : List String)
  | file (f : String)
  deriving DecidableEq, Repr

def parseClassifiers (v : String) : Except Err (List Clsf) :=
  (v.splitOn ",").mapM parseClassifier

def missing (arg : String) : Err := .refurb s!"refurb: missing argument after \"{arg}\""

/-- one pass over argv; value-taking options consume the next word -/
def lex : List String → Except Err (List Arg)
  | [] => .ok []
  | "--debug" :: r => (Arg.debug :: ·) <$> lex r
  | "--help" :: r => (Arg.help :: ·) <$> lex r
  | "-h" :: r => (Arg.help :: ·) <$> lex r
  | "--version" :: r => (Arg.version :: ·) <$> lex r
  | "--quiet" :: r => (Arg.quiet :: ·) <$> lex r
  | "--disable-all" :: r => (Arg.disableAll :: ·) <$> lex r
  | "--enable-all" :: r => (Arg.enableAll :: ·) <$> lex r
  | "--verbose" :: r => (Arg.verbose :: ·) <$> lex r
  | "-v" :: r => (Arg.verbose :: ·) <$> lex r
  | "--no-color" :: r => (Arg.noColor :: ·) <$> lex r
  | ["--explain"] => .error (missing "--explain")
  | "--explain" :: v :: r => do let c ← parseErrorId v; (Arg.explain c :: ·) <$> lex r
  | ["--ignore"] => .error (missing "--ignore")
  | "--ignore" :: v :: r => do let cs ← parseClassifiers v; (Arg.ignore cs :: ·) <$> lex r
  | ["--enable"] => .error (missing "--enable")
  | "--enable" :: v :: r => do let cs ← parseClassifiers v; (Arg.enable cs :: ·) <$> lex r
  | ["--disable"] => .error (missing "--disable")
  | "--disable" :: v :: r => do let cs ← parseClassifiers v; (Arg.disable cs :: ·) <$> lex r
  | ["--load"] => .error (missing "--load")
  | "--load" :: v :: r => (Arg.load v :: ·) <$> lex r
  | ["--config-file"] => .error (missing "--config-file")
  | "--config-file" :: v :: r => (Arg.configFile v :: ·) <$> lex r
  | ["--python-version"] => .error (missing "--python-version")
  | "--python-version" :: v :: r => do let pv ← parsePythonVersion v; (Arg.pythonVersion pv :: ·) <$> lex r
  | ["--format"] => .error (missing "--format")
  | "--format" :: v :: r => do let f ← validateFormat v; (Arg.format f :: ·) <$> lex r
  | ["--sort"] => .error (missing "--sort")
  | "--sort" :: v :: r => do let f ← validateSortBy v; (Arg.sort f :: ·) <$> lex r
  | ["--timing-stats"] => .error (missing "--timing-stats")
  | "--timing-stats" :: v :: r => (Arg.timingStats v :: ·) <$> lex r
  | "--" :: r => .ok [Arg.mypyArgs r]
  | a :: r =>
    if a.startsWith "-" then .error (.refurb s!"refurb: unsupported option \"{a}\"")
    else if a.isEmpty then .error (.refurb "refurb: argument cannot be empty")
    else (Arg.file a :: ·) <$> lex r

def step (s : Settings) : Arg → Settings
  | .debug => { s with debug := true }
  | .help => { s with help := true }
  | .version => { s with version := true }
  | .quiet => { s with quiet := true }
  | .disableAll => { s with enable := [], disableAll := true }
  | .enableAll => { s with disable := [], enableAll := true }
  | .verbose => { s with verbose := true }
  | .noColor => { s with color := false }
  | .explain c => { s with explain := some c }
  | .ignore cs => { s with ignore := s.ignore ++ cs }
  | .enable cs => { s with enable := s.enable ++ cs, disable := s.disable.filter (fun x => !cs.contains x) }
  | .disable cs => { s with disable := s.disable ++ cs, enable := s.enable.filter (fun x => !cs.contains x) }
  | .load m => { s with load := s.load ++ [m] }
  | .configFile p => { s with configFile := some p }
  | .pythonVersion v => { s with pythonVersion := some v }
  | .format f => { s with format := some f }
  | .sort f => { s with sortBy := some f }
  | .timingStats p => { s with timingStats := some p }
  | .mypyArgs r => { s with mypyArgs := r }
  | .file f => { s with files := s.files ++ [f] }

def applyArgs (as : List Arg) (s : Settings) : Settings := as.foldl step s

/-- `parse_command_line_args`; `envColor` = stdout is a tty and NO_COLOR is unset (`__post_init__`). -/
def parseCli (envColor : Bool) (args : List String) : Except Err Settings :=
  let base : Settings := { color := envColor }
  if args.isEmpty then .ok { base with help := true }
  else if args = ["gen"] then .ok { base with generate := true }
  else do
    let as ← lex args
    let s := applyArgs as base
    if args.length > 1 ∧ (s.help ∨ s.version) then
      .error (.refurb s!"refurb: unexpected value before/after `{args.head!}`")
    else .ok s

/-! ### Config file (a tomllib value annotated with Python's `str()` of each node) -/

inductive Toml where
  | str (s : String)
  | int (i : Int)
  | float (py : String) (truthy : Bool)
  | bool (b : Bool)
  | datetime (py : String)
  | arr (items : List Toml) (py : String)
  | tbl (items : List (String × Toml)) (py : String)
  deriving Repr

instance : Inhabited Toml := ⟨.bool false⟩

def Toml.truthy : Toml → Bool
  | .str s => !s.isEmpty
  | .int i => i != 0
  | .float _ t => t
  | .bool b => b
  | .datetime _ => true
  | .arr items _ => !items.isEmpty
  | .tbl items _ => !items.isEmpty

def Toml.pyStr : Toml → String
  | .str s => s
  | .int i => toString i
  | .float py _ => py
  | .bool b => if b then "True" else "False"
  | .datetime py => py
  | .arr _ py => py
  | .tbl _ py => py

abbrev Table := List (String × Toml)

def Table.get? (t : Table) (k : String) : Option Toml := (t.find? (·.1 == k)).map (·.2)
def Table.erase (t : Table) (k : String) : Table := t.filter (·.1 != k)

def typeErr (name ty : String) : Err := .refurb s!"refurb: \"{name}\" must be a {ty}"

def popList (cfg : Table) (name : String) : Except Err (List Toml × Table) :=
  match cfg.get? name with
  | none => .ok ([], cfg)
  | some (.arr items _) => .ok (items, cfg.erase name)
  | some _ => .error (typeErr name "list")

def popBool (cfg : Table) (name : String) (default : Bool := false) : Except Err (Bool × Table) :=
  match cfg.get? name with
  | none => .ok (default, cfg)
  | some (.bool b) => .ok (b, cfg.erase name)
  | some _ => .error (typeErr name "bool")

def popStr (cfg : Table) (name : String) : Except Err (String × Table) :=
  match cfg.get? name with
  | none => .ok ("", cfg)
  | some (.str s) => .ok (s, cfg.erase name)
  | some _ => .error (typeErr name "string")

/-- `str(PurePosixPath(p))`: collapse `//` and `.` components, keep `..`, keep a leading `//` -/
def normPath (p : String) : String :=
  let cs := p.toList
  let lead := (cs.takeWhile (· == '/')).length
  let root := if lead = 0 then "" else if lead = 2 then "//" else "/"
  let parts := (p.splitOn "/").filter (fun x => x != "" && x != ".")
  let body := "/".intercalate parts
  if root.isEmpty && body.isEmpty then "." else root ++ body

def parseAmendment (a : Toml) : Except Err (List Clsf) :=
  match a with
  | .tbl items _ =>
    match Table.get? items "path", Table.get? items "ignore" with
    | some (.str path), some (.arr ignored _) =>
      if ((Table.erase items "path").erase "ignore").isEmpty then
        ignored.mapM (fun e => do
          let c ← parseClassifier e.pyStr
          .ok { c with path := some (normPath path) })
      else .error (.refurb "refurb: only \"path\" and \"ignore\" fields are supported")
    | _, _ => .error (.refurb "refurb: \"path\" or \"ignore\" fields are missing or malformed")
  | _ => .error (.refurb "refurb: \"path\" or \"ignore\" fields are missing or malformed")

def Toml.isStr : Toml → Bool
  | .str _ => true
  | _ => false

def checkLoad (load : List Toml) : Except Err Unit :=
  if load.any (fun x => !x.isStr) then .error (.refurb "refurb: \"load\" must be a list of strings") else .ok ()

/-- the body of `parse_config_file` once `config = tool["refurb"]` is known to be a table -/
def parseConfigTable (envColor : Bool) (cfg : Table) : Except Err Settings := do
  let base : Settings := { color := envColor }
  let (load, cfg) ← popList cfg "load"
  let _ ← checkLoad load
  let (quiet, cfg) ← popBool cfg "quiet"
  let (disableAll, cfg) ← popBool cfg "disable_all"
  let (enableAll, cfg) ← popBool cfg "enable_all"
  let (color, cfg) ← popBool cfg "color" true
  let (enable, cfg) ← popList cfg "enable"
  let (disable, cfg) ← popList cfg "disable"
  let enable ← enable.mapM (fun x => parseClassifier x.pyStr)
  let disable ← disable.mapM (fun x => parseClassifier x.pyStr)
  let enable := enable.filter (fun x => !disable.contains x)
  let (ignore, cfg) ← popList cfg "ignore"
  let ignore ← ignore.mapM (fun x => parseClassifier x.pyStr)
  let (mypyArgs, cfg) ← popList cfg "mypy_args"
  let (pv, cfg) ← (match cfg.get? "python_version" with
    | none => .ok (none, cfg)
    | some _ => do
      let (v, cfg) ← popStr cfg "python_version"
      let pv ← parsePythonVersion v
      .ok (some pv, cfg) : Except Err (Option (Nat × Nat) × Table))
  let (format, cfg) ← (match cfg.get? "format" with
    | none => .ok (none, cfg)
    | some _ => do
      let (v, cfg) ← popStr cfg "format"
      let f ← validateFormat v
      .ok (some f, cfg) : Except Err (Option String × Table))
  let (sortBy, cfg) ← (match cfg.get? "sort_by" with
    | none => .ok (none, cfg)
    | some _ => do
      let (v, cfg) ← popStr cfg "sort_by"
      let f ← validateSortBy v
      .ok (some f, cfg) : Except Err (Option String × Table))
  let (amendIgnores, cfg) ← (match cfg.get? "amend" with
    | none => .ok ([], cfg)
    | some (.arr items _) => do
      let xs ← items.mapM parseAmendment
      .ok (xs.flatten, cfg.erase "amend")
    | some _ => .error (.refurb "refurb: \"amend\" field(s) must be a TOML table")
      : Except Err (List Clsf × Table))
  if !cfg.isEmpty then
    .error (.refurb s!"refurb: unknown field(s): {", ".intercalate (cfg.map (·.1))}")
  else
    .ok { base with
      load := load.map Toml.pyStr,
      quiet := quiet, disableAll := disableAll, enableAll := enableAll, color := color,
      enable := enable, disable := disable, ignore := ignore ++ amendIgnores,
      mypyArgs := mypyArgs.map Toml.pyStr, pythonVersion := pv, format := format, sortBy := sortBy }

/-- `parse_config_file` applied to `tomllib.loads(contents)` (always a table). -/
def parseConfig (envColor : Bool) (doc : Table) : Except Err Settings :=
  let base : Settings := { color := envColor }
  match doc.get? "tool" with
  | none => .ok base
  | some tool =>
    if !tool.truthy then .ok base else
    match tool with
    | .tbl toolItems _ =>
      match Table.get? toolItems "refurb" with
      | none => .ok base
      | some config =>
        if !config.truthy then .ok base else
        match config with
        | .tbl cfg _ => parseConfigTable envColor cfg
        | _ => .error (.refurb "refurb: \"tool.refurb\" must be a TOML table")
    | _ => .error (.refurb "refurb: \"tool\" must be a TOML table")

/-! ### Merge -/

def orStr (a b : Option String) : Option String :=
  match a with
  | some s => if s.isEmpty then b else some s
  | none => b

/-- the three branches of `Settings.merge` that decide the enable/disable sets -/
def mergeSets (old new : Settings) : List Clsf × List Clsf :=
  if !old.disableAll && new.disableAll then (new.enable, new.disable)
  else if !old.enableAll && new.enableAll then (new.enable, new.disable)
  else
    let disable := old.disable ++ new.disable
    ((old.enable ++ new.enable).filter (fun x => !disable.contains x), disable)

/-- the `Settings(...)` expression of `Settings.merge`, before `__post_init__` validates it -/
def mergeRaw (envColor : Bool) (old new : Settings) : Settings := {
    files := old.files ++ new.files
    explain := old.explain <|> new.explain
    ignore := old.ignore ++ new.ignore
    enable := (mergeSets old new).1
    disable := (mergeSets old new).2
    load := old.load ++ new.load
    debug := old.debug || new.debug
    generate := old.generate || new.generate
    help := old.help || new.help
    version := old.version || new.version
    disableAll := old.disableAll || new.disableAll
    enableAll := old.enableAll || new.enableAll
    quiet := old.quiet || new.quiet
    configFile := orStr old.configFile new.configFile
    pythonVersion := new.pythonVersion <|> old.pythonVersion
    mypyArgs := if new.mypyArgs.isEmpty then old.mypyArgs else new.mypyArgs
    format := new.format <|> old.format
    sortBy := new.sortBy <|> old.sortBy
    verbose := old.verbose || new.verbose
    timingStats := old.timingStats <|> new.timingStats
    color := old.color && new.color && envColor }

/-- `Settings.merge(old, new)`; the constructor's `__post_init__` may raise. -/
def merge (envColor : Bool) (old new : Settings) : Except Err Settings :=
  if (mergeRaw envColor old new).enableAll && (mergeRaw envColor old new).disableAll then
    .error (.refurb "refurb: \"enable all\" and \"disable all\" can't be used at the same time")
  else .ok (mergeRaw envColor old new)

/-- what reading the config file produced -/
inductive FileOutcome where
  | ok (doc : Table)
  | notFound
  | isDir
  | invalid (msg : String)    -- TOMLDecodeError / UnicodeDecodeError with the library's text `msg`
  | crash (kind : String)     -- PermissionError and friends
  deriving Repr

/-- the config file `load_settings` opens (`str(Path(cli.config_file or "pyproject.toml"))`) -/
def configPath (cli : Settings) : String :=
  normPath ((orStr cli.configFile none).getD "pyproject.toml")

/-- `load_settings` -/
def loadSettings (envColor : Bool) (args : List String) (file : FileOutcome) : Except Err Settings := do
  let cli ← parseCli envColor args
  let cfg ← (match file with
    | .ok doc => parseConfig envColor doc
    | .isDir => .error (.refurb s!"refurb: \"{configPath cli}\" is a directory")
    | .notFound =>
      if (orStr cli.configFile none).isSome then .error (.refurb s!"refurb: \"{configPath cli}\" was not found")
      else .ok { color := envColor }
    | .invalid m => .error (.refurb s!"refurb: \"{configPath cli}\" is not a valid TOML file: {m}")
    | .crash k => .error (.crash k) : Except Err Settings)
  merge envColor cfg cli

/-! ### Selection -/

structure CheckSel where
  pfx : String
  code : Nat
  categories : List String
  enabled : Bool
  deriving DecidableEq, Repr

def CheckSel.cls (c : CheckSel) : Clsf := { cls := .code c.pfx c.code }
def CheckSel.catClsfs (c : CheckSel) : List Clsf := c.categories.map (fun n => { cls := .cat n })

def ignoredB (s : Settings) (c : CheckSel) : Bool :=
  s.ignore.contains c.cls || c.catClsfs.any (s.ignore.contains ·)

/-- some category of the check is named (pathless) in the list -/
def catIn (l : List Clsf) (c : CheckSel) : Bool := c.catClsfs.any (l.contains ·)

/-- `should_load_check` -/
def shouldLoad (s : Settings) (c : CheckSel) : Bool :=
  if ignoredB s c then false
  else if s.enable.contains c.cls then true
  else if s.disable.contains c.cls then false
  else if catIn s.enable c then true
  else if catIn s.disable c || s.disableAll then false
  else c.enabled || s.enableAll

end RefurbVerif
