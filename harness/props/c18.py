"""C18 — Refurb only reads: sources untouched, side outputs confined and well-formed.

Lean: Props/C18.lean over Model/Lifecycle.lean (temp-file lifecycle automaton of run_refurb: exact
characterisation of the leaking fault sequences, ordering facts, write alphabet; shape / order / values
of the --timing-stats JSON for inputs of any size).  Generated/LifecycleShape.lean (harness/extract_c18.py)
tells the model whether `mypy_timing_stats.unlink()` sits in a `finally` clause and whether the lines of mypy's timing
file are cut with `line.split()` or `line.rsplit(maxsplit=1)` (probed by execution); the theorems cover both shapes of each.

Correspondence
  * `pychartables`: the model's whitespace / line-boundary predicates vs str.isspace / str.splitlines on
    EVERY code point (exhaustive).
  * `pyrsplit`: the model's `str.rsplit(maxsplit=1)` and `str.split()` vs CPython on generated strings over an
    alphabet with every kind of whitespace (as code points).
  * `timingjson`: model vs refurb.main.output_timing_stats, in-process, on generated timing files
    (duplicate modules, ties, zero, negative, underscores, non-ASCII digits, 4300/4301-digit numbers,
    empty file, blank lines, 1-4 fields, every str.splitlines separator, odd whitespace, module
    names that need JSON escaping, module names with spaces / tabs / non-ASCII whitespace); compared as ordered
    key/value pairs, not as text.  The shape of the line parse the working tree does NOT have is compared with a
    reference loop in Python, so that the theorems about it stay theorems about the code it describes.
  * `lifecycle`: model trace vs an instrumented run of refurb.main.main in a fresh process (mkstemp,
    process_options, build, load_checks, RefurbVisitor.accept, output_timing_stats, Path.read_text /
    write_text / unlink wrapped; faults either real or injected at those seams).

Oracle (CLI, fresh process, cwd / checked tree / private TMPDIR snapshotted before and after): nothing may
appear, change or disappear except `.mypy_cache/**` in the working directory and the stats FILE; nothing
may remain in TMPDIR; when the run reaches the checking stage FILE must be ONE JSON object with exactly the
three documented keys, int values, and an entry for every checked module (also for a file whose NAME contains a space).
In-process: for a timing file as mypy writes it (`f"{id} {time_spent_us}"` per module, ids with inner whitespace included)
output_timing_stats must not raise and the mypy section must have an integer entry for exactly those ids.
"""

from __future__ import annotations

import hashlib
import json
import os
import stat
import subprocess
from concurrent.futures import ThreadPoolExecutor
from pathlib import Path
from typing import Any

from .. import core

GENERATED = ["Unicode", "LifecycleShape"]

KEYS = ["mypy_total_time_spent_in_ms", "mypy_time_spent_parsing_modules_in_ms", "refurb_time_spent_checking_file_in_ms"]

# --------------------------------------------------------------------------------------------
# snapshots


def snapshot(root: Path) -> dict[str, tuple]:
    """name -> (kind, mode, size, mtime_ns, sha256 | link target); the root itself is not an entry"""
    out: dict[str, tuple] = {}
    for dirpath, dirnames, filenames in os.walk(root, followlinks=False):
        for name in dirnames + filenames:
            p = Path(dirpath) / name
            st = os.lstat(p)
            rel = str(p.relative_to(root))
            if stat.S_ISLNK(st.st_mode):
                out[rel] = ("link", st.st_mode, os.readlink(p))
            elif stat.S_ISDIR(st.st_mode):
                out[rel] = ("dir", st.st_mode, st.st_mtime_ns)
            else:
                try:
                    digest = hashlib.sha256(p.read_bytes()).hexdigest()
                except OSError as e:  # unreadable for us too
                    digest = "unreadable:" + type(e).__name__
                out[rel] = ("file", st.st_mode, st.st_size, st.st_mtime_ns, digest)
    return out


def diff_snapshots(before: dict[str, tuple], after: dict[str, tuple], allowed) -> list[dict[str, Any]]:
    res = []
    for k in sorted(set(before) | set(after)):
        if allowed(k):
            continue
        b, a = before.get(k), after.get(k)
        if b == a:
            continue
        what = "created" if b is None else "deleted" if a is None else "modified"
        res.append({"path": k, "change": what, "before": b, "after": a})
    return res


# --------------------------------------------------------------------------------------------
# the checked tree of the CLI oracle


PLUG_CRASH = """from dataclasses import dataclass

from mypy.nodes import MypyFile

from refurb.error import Error


@dataclass
class ErrorInfo(Error):
    prefix = "XYZ"
    code = 100
    msg: str = "never reported"


def check(node: MypyFile, errors: list[Error]) -> None:
    if node.path.endswith(("diag.py", "f1.py")):
        raise RuntimeError("this check crashes on purpose")
"""
PLUG_BAD = PLUG_CRASH.replace("errors: list[Error]) -> None:", "errors: list[Error], a: int, b: int) -> None:")

TREE: dict[str, str] = {
    "plug_crash.py": PLUG_CRASH,
    "plug_bad.py": PLUG_BAD,
    "src/clean.py": "x = 1\n",
    "src/diag.py": "x = int(0)\ny = list()\nprint(\"\")\n",
    "src/noqa.py": "z = int(0)  # noqa\n",
    "src/broken.py": "def f(:\n",
    "src/secret.py": "s = str('')\n",
    "src/pkg/__init__.py": "",
    "src/pkg/mod.py": "import os\n\nt = bool(True)\n",
    "src/pkg/sub/__init__.py": "",
    "src/pkg/sub/deep.py": "u = 1\n",
    "src/data.txt": "not python\n",
    "cfg/disable_all.toml": "[tool.refurb]\ndisable_all = true\n",
    "src/readonly.py": "r = 1\n",
    # a module name can contain spaces: mypy's timing file then has the line `src.with space 123`
    "src/with space.py": "w = int(0)\n",
    # deep enough that refurb's visitor exceeds the recursion limit (suppressed, issue #302) while mypy's build succeeds
    "src/deepexpr.py": "x = " + " + ".join(["1"] * 600) + "\n",
}
EMPTY_DIRS = ["src/emptypkg"]

# name -> (argv before the stats option, python files that get checked (relative), first failing stage)
SCENARIOS: dict[str, tuple[list[str], list[str], str | None]] = {
    "clean": (["src/clean.py"], ["src/clean.py"], None),
    "diagnostics": (["src/diag.py", "src/noqa.py"], ["src/diag.py", "src/noqa.py"], None),
    "two-files": (["src/clean.py", "src/diag.py", "--quiet"], ["src/clean.py", "src/diag.py"], None),
    "syntax-error": (["src/broken.py"], [], "CompileError"),
    "syntax-error-among-good": (["src/clean.py", "src/broken.py"], [], "CompileError"),
    "missing-file": (["src/nope.py"], [], "CompileError"),
    "empty-package-dir": (["src/emptypkg"], [], "SystemExit"),
    "bad-mypy-flag": (["src/clean.py", "--", "--bogus-flag"], [], "SystemExit"),
    "unreadable-file": (["src/secret.py"], ["src/secret.py"], "CompileError-if-unreadable"),
    "directory-argument": (["src/pkg"], ["src/pkg/__init__.py", "src/pkg/mod.py", "src/pkg/sub/__init__.py", "src/pkg/sub/deep.py"], None),
    "debug": (["src/clean.py", "--debug"], ["src/clean.py"], None),
    "readonly-file": (["src/readonly.py"], ["src/readonly.py"], None),
    # no check function is loaded: the files are still checked (by nothing), FILE must still have an entry per module
    "disable-all": (["src/clean.py", "src/diag.py", "--disable-all"], ["src/clean.py", "src/diag.py"], None),
    "enabled-but-ignored": (["src/diag.py", "--disable-all", "--enable", "FURB123", "--ignore", "FURB123"], ["src/diag.py"], None),
    "disable-all-in-config-file": (["src/clean.py", "src/diag.py", "--config-file", "cfg/disable_all.toml"], ["src/clean.py", "src/diag.py"], None),
    "file-name-with-space": (["src/with space.py"], ["src/with space.py"], None),
    "file-name-with-space-among-others": (["src/clean.py", "src/with space.py", "src/diag.py"], ["src/clean.py", "src/with space.py", "src/diag.py"], None),
    "visitor-recursion-limit": (["src/clean.py", "src/deepexpr.py"], ["src/clean.py", "src/deepexpr.py"], None),
    "plugin-check-crashes": (["src/clean.py", "src/diag.py", "--load", "plug_crash"], [], "check-crash"),
    "plugin-bad-signature": (["src/clean.py", "--load", "plug_bad"], [], "load-TypeError"),
}
THOROUGH_SCENARIOS: dict[str, tuple[list[str], list[str], str | None]] = {
    "enable-all-github": (["src/diag.py", "--enable-all", "--format", "github"], ["src/diag.py"], None),
    "verbose": (["src/clean.py", "--verbose"], ["src/clean.py"], None),
    "whole-tree-with-broken": (["src"], [], "CompileError"),
    "sort-error": (["src/diag.py", "src/pkg/mod.py", "--sort", "error"], ["src/diag.py", "src/pkg/mod.py"], None),
    "python-version": (["src/clean.py", "--python-version", "3.9"], ["src/clean.py"], None),
    "explain": (["--explain", "FURB123"], [], "no-run"),
    "help": (["--help"], [], "no-run"),
    "bad-refurb-flag": (["src/clean.py", "--no-such-flag"], [], "no-run"),
}
STATS_MODES = ["none", "new", "existing", "unwritable", "directory"]
# LONGER than any statistics file a run writes: writing FILE means replacing it, not overwriting its beginning
EXISTING_JUNK = "previous content, not JSON\n" * 20000


def make_tree(work: Path) -> bool:
    """returns True iff src/secret.py is really unreadable for this process"""
    for rel, src in TREE.items():
        p = work / rel
        p.parent.mkdir(parents=True, exist_ok=True)
        p.write_text(src)
    for d in EMPTY_DIRS:
        (work / d).mkdir(parents=True, exist_ok=True)
    os.symlink("data.txt", work / "src/link-to-data")
    os.symlink("no-such-target", work / "src/dangling-link")
    os.chmod(work / "src/readonly.py", 0o444)
    os.chmod(work / "src/secret.py", 0)
    try:
        (work / "src/secret.py").read_bytes()
        unreadable = False
    except OSError:
        unreadable = True
    (work / "existing.json").write_text(EXISTING_JUNK)
    # the user's own files that happen to have the names an "atomic write" of the statistics file would use: untouchable
    for nm in ("out.tmp", "out.json.tmp", "existing.tmp", "existing.json.tmp", ".out.json.tmp", "out.json~", "out.bak", "existing.json.bak"):
        (work / nm).write_text("user data, not refurb's\n")
    (work / "statsdir").mkdir()
    # give everything an old mtime so that a rewrite with identical content is still noticed
    for dirpath, dirnames, filenames in os.walk(work):
        for name in dirnames + filenames:
            os.utime(Path(dirpath) / name, ns=(10**18, 10**18), follow_symlinks=False)
    return unreadable


def stats_args(mode: str) -> tuple[list[str], str | None]:
    if mode == "none":
        return [], None
    rel = {"new": "out.json", "existing": "existing.json", "unwritable": "nodir/out.json", "directory": "statsdir"}[mode]
    return ["--timing-stats", rel], rel


def module_candidates(rel: str) -> str:
    p = Path(rel)
    return p.parent.name if p.name == "__init__.py" else p.stem


def dotted_module(rel: str) -> str:
    """the module name of a checked file given by a path below the working directory (refurb runs mypy with
    --explicit-package-bases --namespace-packages: the name is the path, whether or not there are __init__.py files)"""
    p = Path(rel)
    parts = list(p.parent.parts) + ([] if p.name == "__init__.py" else [p.stem])
    return ".".join(x for x in parts if x not in (".", ""))


def check_stats_text(text: str, modules: list[str] | None, exact: list[str] | None = None) -> list[str]:
    """property-level requirements on the content of FILE; returns the list of defects"""
    defects: list[str] = []
    try:
        pairs = json.loads(text, object_pairs_hook=lambda kv: ("obj", kv))
    except ValueError as e:
        return [f"not one JSON value: {e}"]
    if not (isinstance(pairs, tuple) and pairs[0] == "obj"):
        return ["top level is not an object"]
    top = pairs[1]
    names = [k for k, _ in top]
    if sorted(names) != sorted(KEYS):
        defects.append(f"keys are {names}, documented: {KEYS}")
        return defects
    d = dict(top)
    if type(d[KEYS[0]]) is not int:
        defects.append(f"{KEYS[0]} is not an integer: {d[KEYS[0]]!r}")
    for sec in KEYS[1:]:
        v = d[sec]
        if not (isinstance(v, tuple) and v[0] == "obj"):
            defects.append(f"{sec} is not an object")
            continue
        ks = [k for k, _ in v[1]]
        if len(set(ks)) != len(ks):
            defects.append(f"{sec} has a duplicate key")
        bad = [(k, x) for k, x in v[1] if type(x) is not int]
        if bad:
            defects.append(f"{sec} has non-integer values, e.g. {bad[0]!r}")
    sec = d[KEYS[2]]
    if modules is not None and isinstance(sec, tuple) and sec[0] == "obj":
        ks = [k for k, _ in sec[1]]
        for m in modules:
            if not any(k == m or k.endswith("." + m) for k in ks):
                defects.append(f"no entry for checked module {m!r} in {KEYS[2]} (keys: {ks[:8]})")
        if len(ks) != len(modules):
            defects.append(f"{KEYS[2]} has {len(ks)} entries for {len(modules)} checked modules")
        if exact is not None and sorted(ks) != sorted(exact):
            defects.append(f"{KEYS[2]} is keyed by {sorted(ks)[:8]}, the checked modules are {sorted(exact)[:8]}")
    return defects


def cli_case(root: Path, scenario: str, spec: tuple[list[str], list[str], str | None], mode: str, outside: bool = False, twice: bool = False) -> dict[str, Any]:
    """one end-to-end run in its own scratch directory; returns observations + defects"""
    work = root / "work"
    tmp = root / "tmp"
    work.mkdir(parents=True)
    tmp.mkdir()
    unreadable = make_tree(work)
    argv0, checked, stage = spec
    cwd = work
    if outside:
        # the checked tree is not below the working directory
        cwd = root / "elsewhere"
        cwd.mkdir()
        (cwd / "existing.json").write_text(EXISTING_JUNK)
        (cwd / "statsdir").mkdir()   # the 'directory' stats mode names a directory of the WORKING directory
        os.utime(cwd / "existing.json", ns=(10**18, 10**18))
        os.utime(cwd / "statsdir", ns=(10**18, 10**18))
        argv0 = [("../work/" + a if a.startswith("src") else a) for a in argv0]
    sargs, stats_rel = stats_args(mode)
    argv = [*argv0[: argv0.index("--")], *sargs, *argv0[argv0.index("--") :]] if "--" in argv0 else [*argv0, *sargs]
    if stage == "CompileError-if-unreadable":
        stage = "CompileError" if unreadable else None
    runs = []
    defects: list[dict[str, Any]] = []
    for i in range(2 if twice else 1):
        before = {"work": snapshot(work), "tmp": snapshot(tmp), "cwd": snapshot(cwd) if outside else None}
        rc, out, err = core.refurb_cli(argv, cwd=cwd, env_extra={"TMPDIR": str(tmp)})
        after = {"work": snapshot(work), "tmp": snapshot(tmp), "cwd": snapshot(cwd) if outside else None}
        reaches = stage is None
        label = stage or ("stats-write-error" if mode in ("unwritable", "directory") else "success")

        def allowed_cwd(k: str) -> bool:
            return k == ".mypy_cache" or k.startswith(".mypy_cache/") or (stats_rel is not None and k == stats_rel and mode != "directory")

        dw = diff_snapshots(before["work"], after["work"], (lambda k: False) if outside else allowed_cwd)
        for x in dw:
            in_tree = x["path"] == "src" or x["path"].startswith("src/")
            defects.append({**x, "kind": "checked-tree-modified" if in_tree else "cwd-modified", "label": label})
        if outside:
            for x in diff_snapshots(before["cwd"], after["cwd"], allowed_cwd):
                defects.append({**x, "kind": "cwd-modified", "label": label})
        for x in diff_snapshots(before["tmp"], after["tmp"], lambda k: False):
            defects.append({**x, "kind": "temp-file-left" if x["change"] == "created" else "tmpdir-modified", "label": label})
        stats_state = None
        if stats_rel is not None:
            f = cwd / stats_rel
            if mode == "directory":
                stats_state = "directory" if f.is_dir() and not any(f.iterdir()) else "changed"
                if stats_state == "changed":
                    defects.append({"kind": "cwd-modified", "label": label, "path": "statsdir", "change": "directory given as FILE was replaced or filled"})
            elif mode == "unwritable":
                stats_state = "exists" if f.exists() else "absent"
                if (cwd / "nodir").exists():
                    defects.append({"kind": "cwd-modified", "label": label, "path": "nodir", "change": "created"})
            elif not f.exists():
                stats_state = "absent"
                if reaches:
                    defects.append({"kind": "stats-file-missing", "label": label})
                elif mode == "existing":
                    defects.append({"kind": "stats-file-deleted", "label": label})
            else:
                text = f.read_text()
                if mode == "existing" and text == EXISTING_JUNK and not reaches:
                    stats_state = "untouched"
                else:
                    stats_state = "written"
                    problems = check_stats_text(text, [module_candidates(c) for c in checked] if reaches else None,
                                                [dotted_module(c) for c in checked] if reaches and not outside else None)
                    for pr in problems:
                        defects.append({"kind": "stats-file-malformed", "label": label, "defect": pr, "text_head": text[:300]})
        runs.append({"rc": rc, "stdout": out[-400:], "stderr": err[-600:], "stats": stats_state, "traceback": "Traceback" in err})
    return {"scenario": scenario, "mode": mode, "outside": outside, "twice": twice, "argv": argv, "runs": runs, "defects": defects, "unreadable": unreadable, "stage": stage}


# --------------------------------------------------------------------------------------------
# timing files for the in-process correspondence

MODULES = ["builtins", "a", "b", "pkg.mod", "pkg", "typing", "os.path", "ünï", "日本", "q\"uote", "back\\slash", "ctl\x01\x08\x0e\x7f", "emoji😀", "a/b", "x" * 40, "-1", "7"]
SEPS = [" ", " ", " ", "  ", "\t", " \t ", "\x1f", "\xa0", "\u2003", "\u3000"]
NUMBERS = ["0", "1", "999", "1000", "1001", "1999", "2000", "123456", "987654321", "-1", "-999", "-1000", "-1001", "+5000", "1_000", "12_345_678",
           "00012000", "-0", "٣٠٠٠", "１２３４５", "1٣00", "9" * 30, "1" * 4300, "5000", "5000", "5999", "7000"]
BAD_NUMBERS = ["", "1.5", "1e3", "0x10", "_1", "1_", "1__0", "--1", "+-1", "+", "abc", "1" * 4301, "½", "1,000", "²"]
# module names as a file name can produce them: inner whitespace of every kind, leading whitespace
WS_MODULES = ["a b", "with space", "a  b", "a b c", "pkg.with space", "tab\tname", "nb\xa0sp", "em\u2003sp", "id\u3000sp", "us\x1fsep", " lead", "\tlead.x y",
              "ünï cödé", "日 本", "emoji 😀", "q\" uote", "back \\ slash", "1 2", "a 1", "- 1", "x" * 20 + " " + "y" * 20]
LINE_ENDS = ["\n", "\n", "\n", "\n", "\r\n", "\r", "\x0b", "\x0c", "\x1c", "\x1d", "\x1e", "\x85", "\u2028", "\u2029"]


def gen_timing_case(rng) -> dict[str, Any]:
    kind = rng.choice(["good", "good", "good", "dups", "ties", "bad", "empty", "exotic", "mypy", "mypy", "fields", "fields"])
    if kind == "mypy":
        return gen_mypy_case(rng)
    if kind == "fields":
        return gen_fields_case(rng)
    lines: list[str] = []
    n = 0 if kind == "empty" else rng.randint(1, 9)
    mods = rng.sample(MODULES, k=min(len(MODULES), rng.randint(1, 6)))
    for _ in range(n):
        m = rng.choice(mods) if kind in ("dups", "ties") else rng.choice(MODULES)
        num = rng.choice(["5000", "5999", "5001", "0", "999"]) if kind == "ties" else rng.choice(NUMBERS)
        sep = rng.choice(SEPS) if kind == "exotic" else " "
        lead = rng.choice(["", "", " ", "\t"]) if kind == "exotic" else ""
        trail = rng.choice(["", "", " ", "\xa0"]) if kind == "exotic" else ""
        lines.append(lead + m + sep + num + trail)
    if kind == "bad" and lines:
        i = rng.randrange(len(lines))
        flavour = rng.choice(["number", "one-field", "three-fields", "blank", "only-space"])
        if flavour == "number":
            lines[i] = rng.choice(MODULES) + " " + rng.choice(BAD_NUMBERS)
        elif flavour == "one-field":
            lines[i] = rng.choice(MODULES)
        elif flavour == "three-fields":
            lines[i] = lines[i] + " 7"
        elif flavour == "blank":
            lines[i] = ""
        else:
            lines[i] = " \t "
    content = ""
    for i, l in enumerate(lines):
        end = rng.choice(LINE_ENDS) if kind == "exotic" else "\n"
        if i == len(lines) - 1 and rng.random() < 0.3:
            end = ""
        content += l + end
    total = rng.choice([0.0, 1.203, 0.0004, 12.9999, 1.001, 2.0, 86400.5, rng.uniform(0, 20)])
    refurb = []
    for _ in range(rng.randint(0, 6)):
        refurb.append([rng.choice(mods + ["m1", "m2"]), rng.choice([0, 0, 0, 1, 2, 2, 17, 250, 10**12])])
    return {"kind": kind, "content": content, "total": total, "refurb": refurb}


def gen_mypy_case(rng) -> dict[str, Any]:
    """a timing file exactly as mypy.build.dump_timing_stats writes it: `f"{id} {time_spent_us}\\n"` for the sorted ids of
    the build graph (distinct), some of which contain whitespace"""
    k = rng.randint(1, 7)
    pool = WS_MODULES + rng.sample(MODULES, 6)
    ids = sorted(set(rng.sample(pool, k) + [rng.choice(WS_MODULES)]))
    graph = [[m, rng.choice([0, 1, 999, 1000, 1999, 2000, 5000, 123456, 987654321, rng.randrange(10**7)])] for m in ids]
    content = "".join(f"{m} {n}\n" for m, n in graph)
    total = rng.choice([0.0, 1.203, 2.0, rng.uniform(0, 20)])
    refurb = [[m, rng.choice([0, 1, 2, 17])] for m in rng.sample(ids, rng.randint(0, len(ids)))]
    return {"kind": "mypy", "content": content, "total": total, "refurb": refurb, "graph": graph}


def gen_fields_case(rng) -> dict[str, Any]:
    """lines with 1, 2, 3 or 4 whitespace-separated fields and odd whitespace before, between and after them"""
    lines = []
    counts = []
    for _ in range(rng.randint(1, 4)):
        nf = rng.choice([1, 2, 2, 3, 3, 4])
        counts.append(nf)
        words = [rng.choice(["a", "b", "pkg.mod", "ünï", "日本", "7", "-1", "x.y", "q\"uote"]) for _ in range(nf - 1)]
        words.append(rng.choice(NUMBERS[:22] + ["5000", "abc", "1.5", "b"]) if nf > 1 or rng.random() < 0.5 else rng.choice(["a", "pkg"]))
        ws = lambda lo: "".join(rng.choice(SEPS) for _ in range(rng.randint(lo, 2)))  # noqa: E731
        lines.append(ws(0) + "".join(w + (ws(1) if i < nf - 1 else "") for i, w in enumerate(words)) + ws(0))
    if rng.random() < 0.15:
        lines.insert(rng.randrange(len(lines) + 1), rng.choice(["", " ", "\t \xa0"]))
        counts.append(0)
    content = "".join(l + rng.choice(["\n", "\n", "\r\n", "\x0b", "\x85"]) for l in lines)
    return {"kind": "fields", "content": content, "total": rng.choice([0.0, 1.5]), "refurb": [], "fields": sorted(set(counts))}


def ref_timing(case: dict[str, Any], rsplit: bool) -> dict[str, Any]:
    """the loop of output_timing_stats, written out for the given shape of the line parse (reference for the shape the tree
    does not have; the shape it has is compared with the real function)"""
    mypy_stats: dict[str, int] = {}
    try:
        for line in case["content"].splitlines():
            module, micro_seconds = line.rsplit(maxsplit=1) if rsplit else line.split()
            mypy_stats[module] = int(micro_seconds) // 1_000
    except ValueError:
        return {"err": "ValueError"}
    return {"mypy": [[k, str(v)] for k, v in sorted(mypy_stats.items(), key=lambda kv: kv[1], reverse=True)]}


def gen_rsplit_string(rng) -> str:
    alphabet = ["a", "b", "1", "0", "-", "_", "é", "日", "😀", ".", " ", " ", " ", "\t", "\n", "\r", "\x0b", "\x0c", "\x1c", "\x1d", "\x1e", "\x1f", "\x85", "\xa0",
                "\u1680", "\u2000", "\u2003", "\u200a", "\u2028", "\u2029", "\u202f", "\u205f", "\u3000", "\u200b", "\ufeff", "\x00", "\x7f"]
    return "".join(rng.choice(alphabet) for _ in range(rng.randint(0, 12)))


def impl_timing(case: dict[str, Any], d: Path) -> dict[str, Any]:
    from refurb.main import output_timing_stats
    from refurb.settings import Settings

    tmp, out = d / "timing.txt", d / "stats.json"
    tmp.write_bytes(case["content"].encode("utf8"))
    if out.exists():
        out.unlink()
    table: dict[str, int] = {}
    for k, v in case["refurb"]:  # exactly what the visiting loop does: d[file.module] = ms
        table[k] = v
    try:
        output_timing_stats(Settings(timing_stats=out), case["total"], tmp, table)
    except Exception as e:  # ValueError is the modelled failure; anything else shows up as a disagreement
        return {"err": type(e).__name__}
    return {"text": out.read_text()}


def impl_mypy_section(text: str) -> Any:
    try:
        return [[k, str(v)] for k, v in json.loads(text, object_pairs_hook=list)[1][1]]
    except (ValueError, IndexError, TypeError):
        return "malformed"


def ordered(text: str) -> Any:
    return json.loads(text, object_pairs_hook=lambda kv: [[k, (str(v) if isinstance(v, int) else v)] for k, v in kv])


# --------------------------------------------------------------------------------------------
# instrumented run (lifecycle correspondence)

WORKER = r'''
import contextlib, io, json, os, sys
spec = json.loads(sys.stdin.read())
fault = spec["fault"]
import refurb.main as M
from pathlib import Path
ev, temp = [], []
stats = spec.get("stats")

_po = M.process_options
def po(*a, **k):
    try:
        r = _po(*a, **k)
    except SystemExit:
        ev.append("processOptions SystemExit"); raise
    ev.append("processOptions ok"); return r
M.process_options = po

_mk = M.mkstemp
def mk(*a, **k):
    r = _mk(*a, **k); ev.append("mkstemp"); temp.append(r[1]); return r
M.mkstemp = mk

_build = M.build
def build(*a, **k):
    if fault.get("build") == "other":
        ev.append("build other"); raise RuntimeError("injected build failure")
    try:
        r = _build(*a, **k)
    except M.CompileError:
        ev.append("build CompileError"); raise
    ev.append("build ok")
    if temp and fault.get("ots") == "ValueError":
        with open(temp[0], "a") as fh: fh.write("not a timing line at all\n")
    if temp and fault.get("ots") == "readError":
        os.unlink(temp[0])
    return r
M.build = build

_lc = M.load_checks
def lc(*a, **k):
    if fault.get("load") == "TypeError":
        ev.append("loadChecks TypeError"); raise TypeError("injected: check function has a bad signature")
    try:
        r = _lc(*a, **k)
    except TypeError:
        ev.append("loadChecks TypeError"); raise
    ev.append("loadChecks ok"); return r
M.load_checks = lc

count = [0]
class V(M.RefurbVisitor):
    def accept(self, node):
        if getattr(self, "_inside", False):
            return super().accept(node)
        i = count[0]; count[0] += 1
        self._inside = True
        try:
            if fault.get("visit") == i:
                raise RuntimeError("injected check crash")
            if fault.get("recursion") == i:
                raise RecursionError("injected")
            super().accept(node)
        except RecursionError:
            ev.append("visit %d ok" % i); raise      # suppressed by run_refurb
        except BaseException:
            ev.append("visit %d raises" % i); raise
        finally:
            self._inside = False
        ev.append("visit %d ok" % i)
M.RefurbVisitor = V

_rt, _wt, _ul = Path.read_text, Path.write_text, Path.unlink
def rt(self, *a, **k):
    if temp and str(self) == temp[0]:
        try:
            r = _rt(self, *a, **k)
        except OSError:
            ev.append("readTemp raises"); raise
        ev.append("readTemp ok"); return r
    return _rt(self, *a, **k)
def wt(self, *a, **k):
    if stats is not None and str(self) == stats:
        try:
            r = _wt(self, *a, **k)
        except OSError:
            ev.append("writeStats raises"); raise
        ev.append("writeStats ok"); return r
    return _wt(self, *a, **k)
def ul(self, *a, **k):
    if temp and str(self) == temp[0]:
        ev.append("unlink")   # the attempt (under the temp-vanished fault the call itself raises)
        return _ul(self, *a, **k)
    return _ul(self, *a, **k)
Path.read_text, Path.write_text, Path.unlink = rt, wt, ul

_ots = M.output_timing_stats
def ots(settings, *a, **k):
    n = len(ev)
    def parse_event(exc):
        # the parsing loop has no seam of its own: it succeeded iff the write was attempted
        seg = ev[n:]
        if "readTemp ok" in seg:
            if any(e.startswith("writeStats") for e in seg):
                ev.insert(n + seg.index("readTemp ok") + 1, "parseTemp ok")
            elif isinstance(exc, ValueError):
                ev.append("parseTemp raises")
    try:
        _ots(settings, *a, **k)
    except BaseException as e:
        parse_event(e); ev.append("outputTimingStats raises"); raise
    parse_event(None)
    ev.append("outputTimingStats ok" if settings.timing_stats else "outputTimingStats skipped")
M.output_timing_stats = ots

_rr = M.run_refurb
def rr(s):
    try:
        r = _rr(s)
    except TypeError:
        ev.append("done TypeError"); raise
    except BaseException:
        ev.append("done crashed"); raise
    ev.append("done returned"); return r
M.run_refurb = rr

out, err = io.StringIO(), io.StringIO()
with contextlib.redirect_stdout(out), contextlib.redirect_stderr(err):
    try:
        rc = M.main(spec["argv"])
    except BaseException as e:
        rc = "exception:" + type(e).__name__
print(json.dumps({"events": ev, "rc": rc, "temp_created": bool(temp), "temp_exists": bool(temp) and os.path.exists(temp[0]),
                  "tmpdir": sorted(os.listdir(os.environ["TMPDIR"])), "stdout": out.getvalue()[-300:]}))
'''

LC_FILES = {"sp ace.py": "e = int(0)\n", "plug_crash.py": PLUG_CRASH, "plug_bad.py": PLUG_BAD, "f0.py": "a = int(0)\n", "f1.py": "b = 1\n", "f2.py": "c = list()\n", "f3.py": "d = 2\n", "broken.py": "def f(:\n"}


def lifecycle_specs(quick: bool, rng) -> list[dict[str, Any]]:
    """fault sequences: every first point of failure, with and without --timing-stats"""
    specs: list[dict[str, Any]] = []

    def add(name, timing, files, extra=(), fault=None, stats="out.json", sc=None):
        argv = [*files, *(["--timing-stats", stats] if timing else []), *extra]
        specs.append({"name": name, "timing": timing, "argv": argv, "fault": fault or {}, "stats": stats if timing else None, "scenario": {"timing": timing, **sc}})

    ok = {"popts": "ok", "build": "ok", "load": "ok", "ots": "ok"}
    for timing in (False, True):
        add("bad-flag", timing, ["f0.py"], ["--", "--bogus"], sc={**ok, "popts": "SystemExit", "visits": ["ok"]})
        add("empty-dir", timing, ["emptydir"], sc={**ok, "popts": "SystemExit", "visits": []})
        add("syntax-error", timing, ["f0.py", "broken.py"], sc={**ok, "build": "CompileError", "visits": ["ok", "ok"]})
        add("missing-file", timing, ["nope.py"], sc={**ok, "build": "CompileError", "visits": ["ok"]})
        add("build-crash", timing, ["f0.py"], fault={"build": "other"}, sc={**ok, "build": "other", "visits": ["ok"]})
        add("load-typeerror", timing, ["f0.py"], fault={"load": "TypeError"}, sc={**ok, "load": "TypeError", "visits": ["ok"]})
        add("visit0-crash", timing, ["f0.py", "f1.py"], fault={"visit": 0}, sc={**ok, "visits": ["raises", "ok"]})
        add("visit1-crash", timing, ["f0.py", "f1.py"], fault={"visit": 1}, sc={**ok, "visits": ["ok", "raises"]})
        add("plugin-check-crash", timing, ["f0.py", "f1.py", "f2.py"], ["--load", "plug_crash"], sc={**ok, "visits": ["ok", "raises", "ok"]})
        add("plugin-bad-signature", timing, ["f0.py"], ["--load", "plug_bad"], sc={**ok, "load": "TypeError", "visits": ["ok"]})
        add("ok-1", timing, ["f0.py"], sc={**ok, "visits": ["ok"]})
        add("ok-3", timing, ["f0.py", "f1.py", "f2.py"], sc={**ok, "visits": ["ok"] * 3})
        # no check function loaded: the loop still visits every file and the statistics are still written
        add("no-checks", timing, ["f0.py", "f1.py"], ["--disable-all"], sc={**ok, "visits": ["ok"] * 2})
        add("no-checks-enabled-but-ignored", timing, ["f0.py", "f1.py"], ["--disable-all", "--enable", "FURB123", "--ignore", "FURB123"], sc={**ok, "visits": ["ok"] * 2})
        # mypy's timing file has the line `sp ace <n>`: what output_timing_stats does with it is the model's answer (otsOf)
        add("ok-space-in-file-name", timing, ["f0.py", "sp ace.py"], sc={**ok, "visits": ["ok"] * 2, "ots": "ask-model" if timing else "ok"})
        add("recursion-suppressed", timing, ["f0.py", "f1.py"], fault={"recursion": 0}, sc={**ok, "visits": ["ok", "ok"]})
        add("unwritable-stats", timing, ["f0.py"], stats="nodir/out.json", sc={**ok, "ots": "writeError" if timing else "ok", "visits": ["ok"]})
        add("malformed-timing-line", timing, ["f0.py"], fault={"ots": "ValueError"}, sc={**ok, "ots": "ValueError" if timing else "ok", "visits": ["ok"]})
        add("temp-vanished", timing, ["f0.py"], fault={"ots": "readError"}, sc={**ok, "ots": "readError" if timing else "ok", "visits": ["ok"]})
    if not quick:
        for timing in (False, True):
            add("ok-4-debug", timing, ["f0.py", "f1.py", "f2.py", "f3.py"], ["--debug"], sc={**ok, "visits": ["ok"] * 4})
            add("visit2-crash", timing, ["f0.py", "f1.py", "f2.py"], fault={"visit": 2}, sc={**ok, "visits": ["ok", "ok", "raises"]})
            add("stats-is-directory", timing, ["f0.py"], stats="emptydir", sc={**ok, "ots": "writeError" if timing else "ok", "visits": ["ok"]})
            # later faults are irrelevant once an earlier step failed
            add("syntax-error+later-faults", timing, ["broken.py"], fault={"load": "TypeError", "visit": 0, "ots": "ValueError"}, stats="nodir/out.json",
                sc={**ok, "build": "CompileError", "load": "TypeError", "visits": ["raises"], "ots": "writeError"})
            add("load-typeerror+later-faults", timing, ["f0.py", "f1.py"], fault={"load": "TypeError", "visit": 1, "ots": "ValueError"},
                sc={**ok, "load": "TypeError", "visits": ["ok", "raises"], "ots": "ValueError"})
            add("visit-crash+unwritable", timing, ["f0.py", "f1.py"], fault={"visit": 1}, stats="nodir/out.json",
                sc={**ok, "visits": ["ok", "raises"], "ots": "writeError"})
        for i in range(10):
            n = rng.randint(1, 4)
            files = [f"f{j}.py" for j in range(n)]
            at = rng.choice([None, None, *range(n)])
            o = rng.choice(["ok", "ok", "ValueError", "readError", "writeError"])
            visits = ["raises" if at == j else "ok" for j in range(n)]
            fault = {k: v for k, v in {"visit": at, "ots": o if o in ("ValueError", "readError") else None}.items() if v is not None}
            add(f"random-{i}", True, files, fault=fault, stats="nodir/out.json" if o == "writeError" else "out.json", sc={**ok, "visits": visits, "ots": o})
    return specs


def lifecycle_run(spec: dict[str, Any]) -> dict[str, Any]:
    with core.scratch("rv-c18l-") as root:
        work, tmp = root / "work", root / "tmp"
        work.mkdir()
        tmp.mkdir()
        (work / "emptydir").mkdir()
        for n, s in LC_FILES.items():
            (work / n).write_text(s)
        env = core.py_env()
        env["TMPDIR"] = str(tmp)
        p = subprocess.run([core.PY, "-c", WORKER], input=json.dumps(spec), cwd=work, env=env, capture_output=True, text=True, timeout=300)
        last = p.stdout.strip().splitlines()[-1] if p.stdout.strip() else ""
        try:
            o = json.loads(last)
        except ValueError:
            return {"events": None, "error": (p.stderr or p.stdout)[-800:]}
        sp = work / spec["stats"] if spec.get("stats") else None
        o["stats_text"] = sp.read_text(errors="replace") if sp is not None and sp.is_file() else None
        return o


# --------------------------------------------------------------------------------------------

HOW_CLI = (
    "create an empty directory R; in R/work write the files of harness/props/c18.py:TREE (chmod 000 src/secret.py, 0444 src/readonly.py), "
    "mkdir R/work/src/emptypkg, write R/work/existing.json; mkdir R/tmp; cd R/work; TMPDIR=R/tmp python -m refurb <argv>; ls -la R/tmp"
)


def run(ctx) -> None:
    res = ctx.res
    rng = ctx.rng("c18")
    res.rule = (
        "char tables: every code point (exhaustive, 1 case). rsplit: strings of 0-12 characters over 37 characters (21 kinds of whitespace, "
        "zero-width look-alikes that are not whitespace) vs str.rsplit(maxsplit=1) and str.split(); non-trivial = two or more fields. "
        "timingjson: generated timing files (10 kinds: good/dups/ties/bad/empty/exotic, mypy = `id count` lines for distinct ids of which at "
        "least one contains whitespace (21 such names: spaces, runs of spaces, tab, NBSP, EM SPACE, IDEOGRAPHIC SPACE, U+001F, leading blank, "
        "non-ASCII), fields = lines of 1/2/3/4 fields with odd whitespace around and between; "
        "17 plain module names incl. ones needing JSON escapes; 27 well-formed + 15 ill-formed numbers; 14 line endings; 10 separators) with a "
        "total and 0-6 refurb assignments; non-trivial = file has >= 1 line; distinct = distinct (content, total ms, assignments); a third of "
        "the files also go through the line parse the tree does not have (model vs reference loop). "
        "lifecycle: one fresh instrumented process per fault sequence (first failure at each of process_options / build / load_checks / "
        "visit i / read / parse / write, x --timing-stats on/off; thorough adds later-fault and random combinations). "
        "CLI oracle: scenario (incl. a checked file whose name contains a space, and runs in which no check function is loaded) x stats mode {none,new,existing,unwritable,directory}, each in its own scratch tree with a private TMPDIR; "
        "non-trivial = the run got past argument parsing"
    )
    drv_ok = ctx.driver.available()
    if not drv_ok:
        res.disagreements.append({"where": "driver", "reason": "driver executable not built"})

    # ---- 1. character tables, exhaustive
    if drv_ok:
        tab = ctx.driver.batch([{"verb": "pychartables"}])[0]
        cps = [c for c in range(0x110000) if not 0xD800 <= c <= 0xDFFF]
        space = [c for c in cps if chr(c).isspace()]
        lb = [c for c in cps if len(("a" + chr(c) + "b").splitlines()) == 2]
        res.case(("chartables",))
        res.bump("code_points_compared", len(cps))
        if tab.get("space") != space:
            res.disagree("isPySpace vs str.isspace", "all code points", tab.get("space"), space)
        if tab.get("linebreak") != lb:
            res.disagree("isLineBreak vs str.splitlines", "all code points", tab.get("linebreak"), lb)

    # ---- 1b. str.rsplit(maxsplit=1) / str.split() vs the model, as code points
    if drv_ok:
        rrng = ctx.rng("c18-rsplit")
        strs = ["", " ", "a", " a ", "a b", "  a  b   12 ", "a b 1000", "\ta b\t\t1 ", "a\x1f9", "a\u200bb 1", "x\x00 y"]
        strs += [gen_rsplit_string(rrng) for _ in range(1500 if ctx.quick else 30000)]
        ans = ctx.driver.batch([{"verb": "pyrsplit", "cps": [ord(ch) for ch in t]} for t in strs])
        for t, a in zip(strs, ans):
            want_r = [[ord(ch) for ch in f] for f in t.rsplit(maxsplit=1)]
            want_s = [[ord(ch) for ch in f] for f in t.split()]
            res.case(("rsplit", t), nontrivial=len(want_s) >= 2)
            res.bump(f"rsplit_strings_{min(len(want_s), 4)}{'+' if len(want_s) >= 4 else ''}_fields")
            if a.get("rsplit1") != want_r:
                res.disagree("pyRsplit1 vs str.rsplit(maxsplit=1)", {"string": t}, a.get("rsplit1"), want_r)
            if a.get("split") != want_s:
                res.disagree("pySplit vs str.split()", {"string": t}, a.get("split"), want_s)

    # ---- 2. output_timing_stats vs timingJson
    n_cases = 600 if ctx.quick else 20000
    cases = [gen_timing_case(rng) for _ in range(n_cases)]
    fixed = [
        {"kind": "fixed", "content": "", "total": 0.0, "refurb": []},
        {"kind": "fixed", "content": "a 1\n\nb 2\n", "total": 0.5, "refurb": [["a", 1]]},
        {"kind": "fixed", "content": "a 5000\nb 7000\r\na  -1\né😀\"x 1_000_000", "total": 12.0, "refurb": [["m", 3], ["n", 5], ["m", 9]]},
        {"kind": "fixed", "content": "x " + "9" * 4300 + "\ny " + "0" * 4299 + "7\n", "total": 1.0, "refurb": [["x", 10**15]]},
        {"kind": "fixed", "content": "x " + "0" * 4301 + "\n", "total": 1.0, "refurb": []},
        {"kind": "fixed", "content": "t1 5000\nt2 5999\nt3 5001\nz 0\nt4 5500\n", "total": 1.0, "refurb": [["p", 2], ["q", 2], ["r", 3], ["p", 2]]},
        {"kind": "mypy", "content": "a b 1000\n", "total": 0.0, "refurb": [["a b", 0]], "graph": [["a b", 1000]]},
        {"kind": "mypy", "content": "builtins 109500\nsrc.with space 2999\n", "total": 1.0, "refurb": [["src.with space", 3]], "graph": [["builtins", 109500], ["src.with space", 2999]]},
        {"kind": "fields", "content": "  a  b   12000 \na\n", "total": 0.0, "refurb": [], "fields": [1, 3]},
        {"kind": "fields", "content": "a b c 4000\n", "total": 0.0, "refurb": [], "fields": [4]},
        {"kind": "fields", "content": " 5 \n", "total": 0.0, "refurb": [], "fields": [1]},
    ]
    cases = fixed + cases
    with core.scratch("rv-c18t-") as d:
        impl = [impl_timing(c, d) for c in cases]
    model = ctx.driver.batch([{"verb": "timingjson", "content": c["content"], "total": int(c["total"] * 1000), "refurb": c["refurb"]} for c in cases]) if drv_ok else []
    # the shape of the line parse the tree does not have: model vs the reference loop (mypy section only)
    if model:
        now = bool(model[0].get("rsplit"))
        res.bump("timing_shape_of_tree_" + ("rsplit_maxsplit_1" if now else "split"))
        alt_cases = cases[: len(fixed)] + cases[len(fixed) :: 3]
        alt = ctx.driver.batch([{"verb": "timingjson", "rsplit": not now, "content": c["content"], "total": 0, "refurb": []} for c in alt_cases])
        for c, m in zip(alt_cases, alt):
            r = ref_timing(c, not now)
            res.bump("timing_other_shape_compared")
            if ("err" in m) != ("err" in r) or ("err" not in m and m.get("mypy") != r["mypy"]):
                res.disagree("timingjson, shape the tree does not have, vs reference loop", {"rsplit": not now, "content": c["content"]},
                             m.get("mypy", m.get("err")), r.get("mypy", r.get("err")))
            # and the reference loop of the shape the tree HAS must agree with the real function (keeps the reference honest)
        for c, i in zip(cases, impl):
            r = ref_timing(c, now)
            got = "err" if "err" in i else impl_mypy_section(i["text"])
            if got != ("err" if "err" in r else r["mypy"]):
                res.disagree("reference loop vs output_timing_stats", {"rsplit": now, "content": c["content"]}, r, i)
    for c, i, m in zip(cases, impl, model):
        res.case(("timing", c["content"], int(c["total"] * 1000), json.dumps(c["refurb"])), nontrivial=bool(c["content"]))
        res.bump("timing_" + c["kind"])
        for nf in c.get("fields", []):
            res.bump(f"timing_lines_with_{nf}_fields")
        res.bump("timing_ValueError" if "err" in i else "timing_written")
        if "err" in i or "err" in m:
            if i.get("err") != m.get("err"):
                res.disagree("timingjson", c, m, i)
            continue
        if i["text"] == m["text"]:
            res.bump("timing_text_identical")
        try:
            same = ordered(i["text"]) == ordered(m["text"])
        except ValueError:
            same = False
        if not same:
            res.disagree("timingjson", c, m["text"][:400], i["text"][:400])
    for c, i in zip(cases, impl):
        # property-level oracle on a timing file AS MYPY WRITES IT (one `id count` line per module of the build graph, ids may
        # contain whitespace): the statistics must be written and the mypy section must have an integer entry for exactly those ids
        if c["kind"] == "mypy":
            ids = [m for m, _ in c["graph"]]
            res.bump("timing_mypy_files_checked")
            how = ("write timing_file to a temp file T; refurb.main.output_timing_stats(Settings(timing_stats=Path('o.json')), total_seconds, Path(T), dict(refurb_ms)); "
                   "end to end: a file named '<id>.py' (e.g. 'a b.py') checked with --timing-stats o.json")
            if "err" in i:
                res.violate(
                    f"output_timing_stats raised {i['err']} on the timing file mypy writes for modules {ids[:4]!r}: no statistics file is written",
                    {"kind": "stats-file-missing", "site": "output_timing_stats", "cause": "module-name-with-whitespace" if any(ch.isspace() for m in ids for ch in m) else "other"},
                    {"timing_file": c["content"], "graph": c["graph"], "total_seconds": c["total"], "refurb_ms": c["refurb"], "observed": i["err"],
                     "required": "the statistics file is written with an integer entry per module", "how": how},
                )
            else:
                try:
                    sec = json.loads(i["text"])[KEYS[1]]
                except (ValueError, KeyError, TypeError):
                    sec = None   # reported by check_stats_text below
                if isinstance(sec, dict):
                    wrong = [m for m, n in c["graph"] if type(sec.get(m)) is not int or sec[m] != n // 1000] + [k for k in sec if k not in ids]
                    if wrong:
                        res.violate(
                            f"mypy section of the statistics file has no / a wrong entry for module {wrong[0]!r} (file names with whitespace)",
                            {"kind": "stats-module-missing", "site": "output_timing_stats", "section": "mypy"},
                            {"timing_file": c["content"], "graph": c["graph"], "written": i["text"][:600],
                             "required": "exactly one entry `id: count // 1000` per line `id count`", "how": how},
                        )
        # property-level oracle on what the implementation wrote
        if "text" in i:
            for pr in check_stats_text(i["text"], None):
                res.violate(
                    f"output_timing_stats wrote a malformed statistics file: {pr}",
                    {"kind": "stats-file-malformed", "site": "output_timing_stats", "defect": pr.split(",")[0][:60]},
                    {"timing_file": c["content"][:2000], "total_seconds": c["total"], "refurb_ms": c["refurb"], "written": i["text"][:600],
                     "required": "one JSON object with the three documented keys and integer values",
                     "how": "write timing_file to a temp file T; refurb.main.output_timing_stats(Settings(timing_stats=Path('o.json')), total_seconds, Path(T), dict(refurb_ms))"},
                )
            if not check_stats_text(i["text"], None):
                sec = json.loads(i["text"])[KEYS[2]]
                missing = [k for k, _ in c["refurb"] if k not in sec]
                if missing:
                    res.violate(
                        f"statistics file has no entry for checked module {missing[0]!r}",
                        {"kind": "stats-module-missing", "site": "output_timing_stats"},
                        {"refurb_ms": c["refurb"], "written": i["text"][:600], "how": "as above"},
                    )
    if cases:
        res.sample({"timing_file": cases[2]["content"], "refurb": cases[2]["refurb"], "impl": impl[2]})
        res.sample({"timing_file": cases[1]["content"], "impl": impl[1]})

    # ---- 3. lifecycle: model trace vs instrumented run
    specs = lifecycle_specs(ctx.quick, ctx.rng("c18-lifecycle"))
    with ThreadPoolExecutor(12) as ex:
        observed = list(ex.map(lifecycle_run, specs))
    if drv_ok:
        asked = [s for s in specs if s["scenario"]["ots"] == "ask-model"]
        answers = ctx.driver.batch([{"verb": "otsof", "readable": True, "writable": True, "content": "builtins 109500\nf0 1200\nsp ace 900\n"} for _ in asked])
        for s, a in zip(asked, answers):
            s["scenario"]["ots"] = a
    lmodel = ctx.driver.batch([{"verb": "lifecycle", **s["scenario"]} for s in specs]) if drv_ok else []
    for s, o, m in zip(specs, observed, lmodel):
        res.case(("lifecycle", s["name"], s["timing"]))
        res.bump("lifecycle_runs")
        if o.get("events") is None:
            res.disagree("lifecycle worker failed", s, m, o)
            continue
        final = "none" if "mkstemp" not in o["events"] else ("unlinked" if "unlink" in o["events"] else "created")
        if o["events"] != m["trace"] or final != m["final"]:
            res.disagree("lifecycle trace", {"name": s["name"], "argv": s["argv"], "fault": s["fault"]}, m, {"trace": o["events"], "final": final})
        res.bump("lifecycle_final_" + final)
        # oracle on the instrumented run: a created temp file must be gone afterwards (the temp-vanished fault removes it itself)
        if o["tmpdir"] and s["fault"]:
            res.bump("lifecycle_leaks_under_injected_fault")
        if o["tmpdir"] and not s["fault"]:
            res.violate(
                f"temp file left in TMPDIR after `refurb {' '.join(s['argv'])}` ({after_label(s)})",
                {"kind": "temp-file-left", "after": after_label(s), "timing_stats": s["timing"]},
                {"cwd_files": LC_FILES, "argv": s["argv"], "events": o["events"], "tmpdir_after": o["tmpdir"],
                 "required": "TMPDIR is empty after the run",
                 "how": "write cwd_files into an empty directory (plus mkdir emptydir), TMPDIR=<empty dir> python -m refurb <argv>"},
            )
        # oracle on the statistics file of the instrumented run: when every file was visited (a RecursionError inside a
        # visit is suppressed by run_refurb and counts as visited) and the file was written, it has the documented shape
        # and an integer entry for every checked module
        files = [a for a in s["argv"] if a.endswith(".py") and a in LC_FILES and a != "broken.py"]
        nvis = sum(1 for e in o["events"] if e.startswith("visit ") and e.endswith(" ok"))
        # no fault injected, options / build / loading fine, no check crashes, FILE writable: the statistics file must exist afterwards
        # (whether or not the files were actually visited: a run that skips the loop, e.g. because no check is loaded, still owes FILE)
        sc = s["scenario"]
        fine = sc["popts"] == "ok" and sc["build"] == "ok" and sc["load"] == "ok" and "raises" not in sc["visits"]
        if s["timing"] and not s["fault"] and s["stats"] == "out.json" and files and fine and "broken.py" not in s["argv"] and o.get("stats_text") is None:
            res.violate(
                f"`refurb {' '.join(s['argv'])}` checked the files but wrote no statistics file ({s['name']})",
                {"kind": "stats-file-missing", "scenario": s["name"], "site": "run_refurb"},
                {"cwd_files": LC_FILES, "argv": s["argv"], "events": o["events"], "expect_stats": True,
                 "required": "FILE is written: one JSON object, three documented sections, an integer entry per checked module",
                 "how": "write cwd_files into an empty directory, python -m refurb <argv>"},
            )
        if s["timing"] and o.get("stats_text") is not None and "outputTimingStats ok" in o["events"] and files and nvis == len(files) and "broken.py" not in s["argv"]:
            res.bump("lifecycle_stats_files_checked")
            for pr in check_stats_text(o["stats_text"], [Path(f).stem for f in files]):
                res.violate(
                    f"--timing-stats file after `refurb {' '.join(s['argv'])}` ({s['name']}): {pr}",
                    {"kind": "stats-file-defect", "scenario": s["name"], "defect": pr.split(" (")[0][:60]},
                    {"cwd_files": LC_FILES, "argv": s["argv"], "fault": s["fault"], "events": o["events"], "written": o["stats_text"][:600],
                     "required": "one JSON object, three documented sections, an integer entry per checked module",
                     "how": "write cwd_files into an empty directory, python -m refurb <argv>; fault {'recursion': i} = the i-th visited file makes "
                            "refurb's visitor raise RecursionError (natural trigger: `x = 1 + 1 + ... + 1` with ~600 terms)"},
                )
    if specs:
        res.sample({"lifecycle": specs[2]["name"], "argv": specs[2]["argv"], "impl_events": observed[2].get("events")})

    # ---- 4. CLI oracle with file-system snapshots
    jobs: list[tuple[str, tuple, str, bool, bool]] = []
    for name, spec in SCENARIOS.items():
        for mode in STATS_MODES:
            jobs.append((name, spec, mode, False, False))
    if not ctx.quick:
        for name, spec in THOROUGH_SCENARIOS.items():
            for mode in STATS_MODES:
                jobs.append((name, spec, mode, False, False))
        for name in ("clean", "diagnostics", "syntax-error", "directory-argument", "missing-file"):
            for mode in STATS_MODES:
                jobs.append((name, SCENARIOS[name], mode, True, False))   # tree outside the working directory
        for name in ("clean", "diagnostics", "syntax-error", "two-files"):
            for mode in ("none", "new", "existing"):
                jobs.append((name, SCENARIOS[name], mode, False, True))  # second run on a warm cache

    def one(job):
        name, spec, mode, outside, twice = job
        with core.scratch("rv-c18c-") as root:
            return cli_case(root, name, spec, mode, outside, twice)

    with ThreadPoolExecutor(12) as ex:
        results = list(ex.map(one, jobs))
    root_note = False
    for r in results:
        nontrivial = r["stage"] != "no-run"
        res.case(("cli", r["scenario"], r["mode"], r["outside"], r["twice"]), nontrivial=nontrivial)
        res.bump("cli_runs", len(r["runs"]))
        res.bump("cli_stats_" + str(r["runs"][-1]["stats"]))
        if r["scenario"] == "unreadable-file" and not r["unreadable"]:
            root_note = True
        if any(x["traceback"] for x in r["runs"]):
            res.bump("cli_tracebacks")
        seen = set()
        for dft in r["defects"]:
            sig = {"kind": dft["kind"], "after": dft["label"], "timing_stats": r["mode"] != "none"}
            if dft["kind"] == "stats-file-malformed":
                sig["defect"] = dft["defect"].split(",")[0][:60]
            if dft["kind"] == "stats-file-missing":
                sig["scenario"] = r["scenario"]
            key = json.dumps(sig, sort_keys=True)
            if key in seen:
                continue
            seen.add(key)
            what = {
                "temp-file-left": f"temp file left in TMPDIR after `refurb {' '.join(r['argv'])}` ({dft['label']})",
                "checked-tree-modified": f"the checked tree was modified ({dft.get('change')} {dft.get('path')}) by `refurb {' '.join(r['argv'])}`",
                "cwd-modified": f"the working directory was modified outside .mypy_cache and FILE ({dft.get('change')} {dft.get('path')}) by `refurb {' '.join(r['argv'])}`",
                "tmpdir-modified": f"TMPDIR content changed ({dft.get('change')} {dft.get('path')})",
                "stats-file-missing": f"`refurb {' '.join(r['argv'])}` checked the files but wrote no statistics file",
                "stats-file-deleted": "the existing statistics file disappeared",
                "stats-file-malformed": f"statistics file malformed: {dft.get('defect')}",
            }[dft["kind"]]
            res.violate(
                what,
                sig,
                {"scenario": r["scenario"], "stats_mode": r["mode"], "tree_outside_cwd": r["outside"], "second_run_on_warm_cache": r["twice"], "argv": r["argv"],
                 "files": TREE, "observed": {k: v for k, v in dft.items() if k not in ("kind",)}, "runs": r["runs"],
                 "required": "nothing appears/changes/disappears except .mypy_cache/** in the cwd and FILE; TMPDIR stays empty; FILE is one JSON object with the three documented keys, int values, an entry per checked module",
                 "how": HOW_CLI},
            )
    ok_runs = [r for r in results if not r["defects"]]
    if ok_runs:
        r = next((x for x in ok_runs if x["mode"] == "new" and x["scenario"] == "two-files"), ok_runs[0])
        res.sample({"cli": r["scenario"], "mode": r["mode"], "argv": r["argv"], "rc": r["runs"][0]["rc"], "stats": r["runs"][0]["stats"]})
    if root_note:
        res.notes.append("unreadable-file scenario: this process runs as root, chmod 000 does not make the file unreadable; the scenario ran as a mode-preservation check only")
    res.exhaustive = False
    res.assumptions += [
        "reading of the property for runs that abort before the checking stage (mypy rejects the options / CompileError): FILE need not be written; if it is, it must be well-formed; an existing FILE must not be deleted",
        "module name of a checked file = a key equal to, or ending in '.' + , the file's stem (the package name for __init__.py)",
        "module names of the in-process mypy-file oracle end in a non-whitespace character and contain no line boundary (a file `a .py` "
        "has the module `a `: rsplit(maxsplit=1) files its mypy time under `a`, the refurb section keeps `a `; not demanded either way)",
        "what mypy itself writes below .mypy_cache is observed (confined), not modelled",
        "the timing file is valid UTF-8 (mypy writes module ids and integers); locale encoding of the run is UTF-8",
        "int(mypy_total_time_spent * 1000) is computed by the harness and passed to the model as an integer",
    ]
    res.not_proved += [
        "mypy_file_never_raises covers module names ending in a non-whitespace character without line boundaries and counts of at most "
        "4300 digits; that mypy never produces other ids is not proved",
        "no_source_write is a statement about the model's event alphabet; only the snapshots test it against the program",
        "the rendered text is shown to be printable ASCII of the documented form; that it parses back to the same pairs is checked by the correspondence (json.loads), not proved",
        "the file descriptor returned by mkstemp() is never closed by run_refurb (descriptor leak, outside the property)",
    ]
    res.trusted_extra += [
        "the instrumentation seams of the lifecycle worker (module globals of refurb.main, pathlib.Path.read_text/write_text/unlink); the parseTemp event is inferred from whether write_text was attempted",
        "os.walk/lstat/sha256 snapshots; atime is ignored; mtimes of the cwd root and TMPDIR root are not compared",
    ]


def after_label(s: dict[str, Any]) -> str:
    sc = s["scenario"]
    if sc["popts"] != "ok":
        return "SystemExit"
    if sc["build"] == "CompileError":
        return "CompileError"
    if sc["build"] != "ok":
        return "build-crash"
    if sc["load"] != "ok":
        return "load-TypeError"
    if "raises" in sc["visits"]:
        return "check-crash"
    return {"ok": "success", "writeError": "stats-write-error", "ValueError": "timing-line-ValueError", "readError": "temp-vanished"}[sc["ots"]]


def replay(path) -> int:
    data = json.loads(Path(path).read_text())
    rp = data.get("replay", {})
    print(json.dumps({k: data.get(k) for k in ("property", "what", "signature")}, indent=1))
    if "scenario" in rp and rp["scenario"] in {**SCENARIOS, **THOROUGH_SCENARIOS}:
        spec = {**SCENARIOS, **THOROUGH_SCENARIOS}[rp["scenario"]]
        with core.scratch("rv-c18r-") as root:
            r = cli_case(root, rp["scenario"], spec, rp["stats_mode"], rp.get("tree_outside_cwd", False), rp.get("second_run_on_warm_cache", False))
        print(json.dumps({"argv": r["argv"], "runs": r["runs"], "defects": r["defects"]}, indent=1, default=str))
        return 1 if r["defects"] else 0
    if "cwd_files" in rp:
        spec = {"argv": rp["argv"], "fault": {}, "stats": next((rp["argv"][i + 1] for i, a in enumerate(rp["argv"]) if a == "--timing-stats"), None)}
        o = lifecycle_run(spec)
        print(json.dumps(o, indent=1))
        return 1 if o.get("tmpdir") or (rp.get("expect_stats") and o.get("stats_text") is None) else 0
    if "timing_file" in rp:
        case = {"content": rp["timing_file"], "total": rp.get("total_seconds", 0.0), "refurb": rp.get("refurb_ms", [])}
        with core.scratch("rv-c18r-") as d:
            i = impl_timing(case, d)
        print(json.dumps({"timing_file": rp["timing_file"], "observed": i, "required": rp.get("required")}, indent=1))
        if "err" in i:
            return 1
        if "graph" in rp:
            sec = json.loads(i["text"]).get(KEYS[1], {})
            return 1 if any(sec.get(m) != n // 1000 for m, n in rp["graph"]) else 0
        return 1 if check_stats_text(i["text"], None) else 0
    print(json.dumps(rp, indent=1)[:4000])
    return 0
