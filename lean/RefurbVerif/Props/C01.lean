namespace RefurbVerif.C01
theorem placeholder : True := trivial
end RefurbVerif.C01
