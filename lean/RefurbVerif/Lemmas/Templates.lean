/-
Lemma for C02: filling the holes of a message template with fragments that derive at the level each hole requires
gives a text that derives the template's tree with the fragments' trees in the holes.
-/
import RefurbVerif.Lemmas.Grammar

namespace RefurbVerif.C02
open RefurbVerif.Sfy

/-- the fragment `f i` (denoting `σ i`) meets the demand `r` of its hole -/
def Meets (f : Nat → Toks) (σ : Nat → Node) (r : Req) : Prop :=
  r.level ≤ 17 ∧ Der r.level (f r.hole) (σ r.hole) ∧ (r.notInt = true → isIntLit (σ r.hole) = false) ∧
    (r.noBrace = true → startsWithBrace (f r.hole) = false)

@[simp] theorem fillT_nil (f : Nat → Toks) : fillT f [] = [] := rfl
@[simp] theorem fillT_append (f : Nat → Toks) (a b : Toks) : fillT f (a ++ b) = fillT f a ++ fillT f b := by
  simp [fillT]
@[simp] theorem fillT_cons (f : Nat → Toks) (t : Tok) (ts : Toks) : fillT f (t :: ts) = fillTok f t ++ fillT f ts := by
  simp [fillT]
@[simp] theorem fillTok_t (f : Nat → Toks) (s : String) : fillTok f (.t s) = [.t s] := rfl
@[simp] theorem fillTok_sp (f : Nat → Toks) : fillTok f .sp = [.sp] := rfl
@[simp] theorem fillTok_name (f : Nat → Toks) (s : Str) : fillTok f (.name s) = [.name s] := rfl
@[simp] theorem fillTok_num (f : Nat → Toks) (s : Str) : fillTok f (.num s) = [.num s] := rfl
@[simp] theorem fillTok_str (f : Nat → Toks) (s : Str) : fillTok f (.str s) = [.str s] := rfl
@[simp] theorem fillTok_bytes (f : Nat → Toks) (s : Str) : fillTok f (.bytes s) = [.bytes s] := rfl
@[simp] theorem fillTok_flit (f : Nat → Toks) (s : Str) (d : Bool) : fillTok f (.flit s d) = [.flit s d] := rfl
@[simp] theorem fillTok_fspec (f : Nat → Toks) (s : Str) : fillTok f (.fspec s) = [.fspec s] := rfl
@[simp] theorem fillTok_hole (f : Nat → Toks) (i : Nat) : fillTok f (.hole i) = f i := rfl

theorem fillT_wrap (f : Nat → Toks) (ℓ p : Nat) (ts : Toks) : fillT f (wrap ℓ p ts) = wrap ℓ p (fillT f ts) := by
  unfold wrap; split <;> simp

theorem fillT_commaSep (f : Nat → Toks) : ∀ tss : List Toks, fillT f (commaSep tss) = commaSep (tss.map (fillT f))
  | [] => by simp [commaSep]
  | [a] => by simp [commaSep]
  | a :: b :: rest => by
    have := fillT_commaSep f (b :: rest)
    simp [commaSep] at this ⊢
    rw [this]

theorem fillT_names (f : Nat → Toks) (ps : List (Str × ArgKind)) :
    (ps.map (fun p => [Tok.name p.1])).map (fillT f) = ps.map (fun p => [Tok.name p.1]) := by
  induction ps with
  | nil => rfl
  | cons p ps ih => simp [ih]

abbrev isHole := isHoleB

@[simp] theorem fillT_comp_name (f : Nat → Toks) :
    (fillT f ∘ fun p : Str × ArgKind => [Tok.name p.1]) = fun p => [Tok.name p.1] := by
  funext p; simp

theorem prec_fillN (σ : Nat → Node) (T : Node) (h : isHole T = false) : (fillN σ T).prec = T.prec := by
  cases T <;> simp [fillN, Node.prec, isHoleB] at h ⊢

theorem isIntLit_fillN (σ : Nat → Node) (T : Node) (h : isHole T = false) : isIntLit (fillN σ T) = isIntLit T := by
  cases T <;> simp [fillN, isIntLit, isHoleB] at h ⊢

theorem isSliceB_fillN (σ : Nat → Node) (T : Node) (h : isHole T = false) : isSliceB (fillN σ T) = isSliceB T := by
  cases T <;> simp [fillN, isSliceB, isHoleB] at h ⊢

theorem fillNL_length (σ : Nat → Node) (l : List Node) : (fillNL σ l).length = l.length := by
  induction l with
  | nil => simp [fillNL]
  | cons x xs ih => simp [fillNL, ih]

theorem fillNA_kinds (σ : Nat → Node) (l : List (ArgKind × Str × Node)) : (fillNA σ l).map (·.1) = l.map (·.1) := by
  induction l with
  | nil => simp [fillNA]
  | cons x xs ih => obtain ⟨k, n, a⟩ := x; simp [fillNA, ih]

theorem fillNC_ne_nil (σ : Nat → Node) (l : List (CmpOp × Node)) (h : l ≠ []) : fillNC σ l ≠ [] := by
  cases l with
  | nil => exact absurd rfl h
  | cons x xs => obtain ⟨o, e⟩ := x; simp [fillNC]

theorem fillNL_ne_nil (σ : Nat → Node) (l : List Node) (h : l ≠ []) : fillNL σ l ≠ [] := by
  cases l with
  | nil => exact absurd rfl h
  | cons x xs => simp [fillNL]

/-- from the bare text at the node's own level to the (possibly parenthesised) text at the level of its position -/
theorem wrapT_der {f : Nat → Toks} {σ : Nat → Node} {T : Node} {ℓ : Nat}
    (h : Der T.prec (fillT f (pr T)) (fillN σ T)) (hℓ : ℓ ≤ 17) :
    Der ℓ (fillT f (wrap ℓ T.prec (pr T))) (fillN σ T) := by
  rw [fillT_wrap]
  unfold wrap; split
  · exact Der.up hℓ (Der.paren (Der.up (Nat.zero_le _) h))
  · exact Der.up (by omega) h

theorem isFieldB_part (σ : Nat → Node) (p : Node) (rest : List Node) :
    ∃ p', fillNP σ (p :: rest) = p' :: fillNP σ rest ∧ isFieldB p' = isFieldB p ∧ isStrB p' = isStrB p := by
  cases p <;> simp [fillNP, isFieldB, isStrB]

theorem fillNP_shape (σ : Nat → Node) : ∀ ps : List Node, (fillNP σ ps).any isFieldB = ps.any isFieldB
  | [] => by simp [fillNP]
  | p :: rest => by
    obtain ⟨p', h1, h2, _⟩ := isFieldB_part σ p rest
    simp [h1, h2, fillNP_shape σ rest]

theorem noAdj_fillNP (σ : Nat → Node) : ∀ ps : List Node, noAdjLits (fillNP σ ps) = noAdjLits ps
  | [] => by simp [fillNP]
  | [p] => by
    obtain ⟨p', h1, _, _⟩ := isFieldB_part σ p []
    simp [h1, fillNP, noAdjLits]
  | p :: q :: rest => by
    obtain ⟨p', h1, _, h3⟩ := isFieldB_part σ p (q :: rest)
    obtain ⟨q', h1', _, h3'⟩ := isFieldB_part σ q rest
    have ih := noAdj_fillNP σ (q :: rest)
    rw [h1'] at ih
    simp [h1, h1', noAdjLits, h3, h3', ih]

theorem any_slice_fillNL_true (σ : Nat → Node) : ∀ items : List Node, items.any isSliceB = true →
    (fillNL σ items).any isSliceB = true
  | [], h => by simp at h
  | x :: rest, h => by
    simp only [List.any_cons, Bool.or_eq_true] at h
    rcases h with h | h
    · have hh : isHole x = false := by cases x <;> simp [isSliceB] at h; rfl
      simp [fillNL, isSliceB_fillN σ x hh, h]
    · simp [fillNL, any_slice_fillNL_true σ rest h]

theorem any_slice_fillNL (items : List Node) : (fillNL (fun _ => dummy) items).any isSliceB = items.any isSliceB := by
  induction items with
  | nil => simp [fillNL]
  | cons x rest ih =>
    have : isSliceB (fillN (fun _ => dummy) x) = isSliceB x := by
      cases x <;> simp [fillN, isSliceB, dummy]
    simp [fillNL, this, ih]

theorem hole_of_isHole {e : Node} (h : isHole e = true) : ∃ i, e = .other i := by
  cases e <;> simp [isHoleB] at h
  exact ⟨_, rfl⟩

abbrev dm : Nat → Node := fun _ => dummy

/-- a child in member-base position is not turned into a bare integer literal by the filling -/
theorem notInt_fill {f : Nat → Toks} {σ : Nat → Node} {e : Node} {ℓ : Nat} {nb : Bool}
    (hr : ∀ r ∈ reqs ℓ true nb e, Meets f σ r) (hi : isIntLit e = false) : isIntLit (fillN σ e) = false := by
  by_cases hh : isHole e = true
  · obtain ⟨i, rfl⟩ := hole_of_isHole hh
    have := hr ⟨i, ℓ, true, nb⟩ (by simp [reqs])
    simpa [fillN] using this.2.2.1 rfl
  · rw [isIntLit_fillN σ e (by simpa using hh)]; exact hi

section
variable (f : Nat → Toks) (σ : Nat → Node)

set_option maxHeartbeats 4000000 in
mutual
/-- a template node in a position of level `ℓ` -/
theorem fill_sub : (T : Node) → (ℓ : Nat) → ℓ ≤ 17 → (ni nb : Bool) → wf (fillN dm T) = true →
    (∀ r ∈ reqs ℓ ni nb T, Meets f σ r) → Der ℓ (fillT f (wrap ℓ T.prec (pr T))) (fillN σ T)
  | T, ℓ, hℓ, ni, nb, hw, hr => by
    by_cases hh : isHole T = true
    · obtain ⟨i, rfl⟩ := hole_of_isHole hh
      have := hr ⟨i, ℓ, ni, nb⟩ (by simp [reqs])
      simpa [pr, Node.prec, wrap_ge _ hℓ, fillN] using this.2.1
    · exact wrapT_der (fill_pr T ℓ ni nb (by simpa using hh) hw hr) hℓ

/-- a template node that is not itself a hole, at its own level -/
theorem fill_pr : (T : Node) → (ℓ : Nat) → (ni nb : Bool) → isHole T = false → wf (fillN dm T) = true →
    (∀ r ∈ reqs ℓ ni nb T, Meets f σ r) → Der T.prec (fillT f (pr T)) (fillN σ T)
  | .other _, _, _, _, hh, _, _ => by simp [isHoleB] at hh
  | .name s, _, _, _, _, hw, _ => by simpa [pr, Node.prec, fillN] using Der.name (by simpa [fillN, wf] using hw)
  | .int v, _, _, _, _, hw, _ => by
    have hv : 0 ≤ v := by simpa [fillN, wf] using hw
    obtain ⟨n, rfl⟩ := Int.eq_ofNat_of_zero_le hv
    have : intChars (n : Int) = natChars n := by simp [intChars]
    simpa [pr, Node.prec, fillN, this] using Der.int n
  | .float s, _, _, _, _, hw, _ => by simpa [pr, Node.prec, fillN] using Der.float (by simpa [fillN, wf] using hw)
  | .complex s, _, _, _, _, hw, _ => by simpa [pr, Node.prec, fillN] using Der.complex (by simpa [fillN, wf] using hw)
  | .str v, _, _, _, _, _, _ => by simpa [pr, Node.prec, fillN] using Der.str v
  | .bytes v, _, _, _, _, _, _ => by simpa [pr, Node.prec, fillN] using Der.bytes v
  | .ellipsis, _, _, _, _, _, _ => by simpa [pr, Node.prec, fillN] using Der.ellipsis
  | .member e a, _, _, _, _, hw, hr => by
    have ⟨he, ha⟩ : wf (fillN dm e) = true ∧ isIdent a = true := by simpa [fillN, wf] using hw
    have hr' : ∀ r ∈ reqs 16 true false e, Meets f σ r := by simpa [reqs] using hr
    by_cases hi : isIntLit e = true
    · have hh : isHole e = false := by cases e <;> simp [isIntLit] at hi; rfl
      have ih := fill_pr e 16 true false hh he hr'
      have := Der.memberP (a := a) (Der.up (Nat.zero_le _) ih) ha
      simpa [pr, Node.prec, fillN, hi, lparen, rparen] using this
    · have hi' : isIntLit e = false := by simpa using hi
      have := Der.member (a := a) (fill_sub e 16 (by omega) true false he hr') (notInt_fill hr' hi') ha
      simpa [pr, Node.prec, fillN, hi'] using this
  | .dict items, _, _, _, _, hw, hr => by
    have := Der.dict (fill_dict items (by simpa [fillN, wf] using hw) (by simpa [reqs] using hr))
    simpa [pr, Node.prec, fillN, fillT_commaSep] using this
  | .tuple items, _, _, _, _, hw, hr => by
    have := Der.tuple (fill_items false items (by simpa [fillN, wf] using hw) (by simpa [reqs] using hr))
    by_cases h1 : items.length = 1 <;> simpa [pr, Node.prec, fillN, fillT_commaSep, fillNL_length, h1] using this
  | .list items, _, _, _, _, hw, hr => by
    have := Der.list (fill_items false items (by simpa [fillN, wf] using hw) (by simpa [reqs] using hr))
    simpa [pr, Node.prec, fillN, fillT_commaSep] using this
  | .set items, _, _, _, _, hw, hr => by
    have ⟨hne, hi⟩ : fillNL dm items ≠ [] ∧ wfItems false (fillNL dm items) = true := by simpa [fillN, wf] using hw
    have hne' : items ≠ [] := by intro h; subst h; simp [fillNL] at hne
    have := Der.set (fill_items false items hi (by simpa [reqs] using hr)) (fillNL_ne_nil σ items hne')
    simpa [pr, Node.prec, fillN, fillT_commaSep] using this
  | .call g args, _, _, _, _, hw, hr => by
    have ⟨⟨hg, ha⟩, ho⟩ : (wf (fillN dm g) = true ∧ wfArgs (fillNA dm args) = true) ∧
        argsOrdered ((fillNA dm args).map (·.1)) = true := by simpa [fillN, wf] using hw
    have hr' : ∀ r ∈ reqs 16 false false g ++ reqsA args, Meets f σ r := by simpa [reqs] using hr
    have ho' : argsOrdered ((fillNA σ args).map (·.1)) = true := by rw [fillNA_kinds] at ho ⊢; exact ho
    have := Der.call (fill_sub g 16 (by omega) false false hg (fun r h => hr' r (List.mem_append_left _ h)))
      (fill_args args ha (fun r h => hr' r (List.mem_append_right _ h))) ho'
    simpa [pr, Node.prec, fillN, fillT_commaSep] using this
  | .index b i, _, _, _, _, hw, hr => by
    have ⟨hb, hi⟩ : wf (fillN dm b) = true ∧ wfIndex (fillN dm i) = true := by simpa [fillN, wf] using hw
    have hr' : ∀ r ∈ reqs 16 false false b ++ reqsI i, Meets f σ r := by simpa [reqs] using hr
    have := Der.index (fill_sub b 16 (by omega) false false hb (fun r h => hr' r (List.mem_append_left _ h)))
      (fill_index i hi (fun r h => hr' r (List.mem_append_right _ h)))
    simpa [pr, Node.prec, fillN] using this
  | .slice .., _, _, _, _, hw, _ => by simp [fillN, wf] at hw
  | .op o l r, _, _, _, _, hw, hr => by
    have ⟨hl, hr2⟩ : wf (fillN dm l) = true ∧ wf (fillN dm r) = true := by simpa [fillN, wf] using hw
    have hr' : ∀ q ∈ reqs o.lhs false false l ++ reqs o.rhs false false r, Meets f σ q := by simpa [reqs] using hr
    have := Der.binop (o := o) (fill_sub l o.lhs (lhs_le o) false false hl (fun q h => hr' q (List.mem_append_left _ h)))
      (fill_sub r o.rhs (rhs_le o) false false hr2 (fun q h => hr' q (List.mem_append_right _ h)))
    simpa [pr, Node.prec, fillN] using this
  | .cmp g rest, _, _, _, _, hw, hr => by
    have ⟨⟨hg, hne⟩, hc⟩ : (wf (fillN dm g) = true ∧ fillNC dm rest ≠ []) ∧ wfCmp (fillNC dm rest) = true := by
      simpa [fillN, wf] using hw
    have hne' : rest ≠ [] := by intro h; subst h; simp [fillNC] at hne
    have hr' : ∀ q ∈ reqs 7 false false g ++ reqsC rest, Meets f σ q := by simpa [reqs] using hr
    have := Der.cmp (fill_sub g 7 (by omega) false false hg (fun q h => hr' q (List.mem_append_left _ h)))
      (fill_cmp rest hc (fun q h => hr' q (List.mem_append_right _ h))) (fillNC_ne_nil σ rest hne')
    simpa [pr, Node.prec, fillN] using this
  | .unary o e, _, _, _, _, hw, hr => by
    have he : wf (fillN dm e) = true := by simpa [fillN, wf] using hw
    have hr' : ∀ q ∈ reqs o.prec false false e, Meets f σ q := by simpa [reqs] using hr
    by_cases ho : o = .not_
    · subst ho
      have := Der.not_ (fill_sub e 5 (by omega) false false he (by simpa [UnOp.prec] using hr'))
      simpa [pr, Node.prec, UnOp.prec, UnOp.text, fillN] using this
    · have hp : o.prec = 13 := by cases o <;> simp_all [UnOp.prec]
      have := Der.unary ho (fill_sub e 13 (by omega) false false he (by simpa [hp] using hr'))
      simpa [pr, Node.prec, ho, hp, fillN] using this
  | .lambda ps none, _, _, _, _, hw, _ => by simp [fillN, fillNO, wf] at hw
  | .lambda ps (some b), _, _, _, _, hw, hr => by
    have ⟨hps, hb⟩ : (ps.all (fun p => p.2 = .pos && isIdent p.1)) = true ∧ wf (fillN dm b) = true := by
      simpa [fillN, fillNO, wf] using hw
    have hr' : ∀ q ∈ reqs 1 false false b, Meets f σ q := by simpa [reqs, reqsO] using hr
    have := Der.lambda hps (fill_sub b 1 (by omega) false false hb hr')
    by_cases h1 : ps.isEmpty = true <;>
      simpa [pr, prOpt, Node.prec, fillN, fillNO, fillT_commaSep, fillT_names, h1] using this
  | .cond t c e, _, _, _, _, hw, hr => by
    have ⟨⟨ht, hc⟩, he⟩ : (wf (fillN dm t) = true ∧ wf (fillN dm c) = true) ∧ wf (fillN dm e) = true := by
      simpa [fillN, wf] using hw
    have hr' : ∀ q ∈ reqs 3 false false t ++ (reqs 3 false false c ++ reqs 1 false false e), Meets f σ q := by
      simpa [reqs] using hr
    have := Der.cond (fill_sub t 3 (by omega) false false ht (fun q h => hr' q (List.mem_append_left _ h)))
      (fill_sub c 3 (by omega) false false hc (fun q h => hr' q (List.mem_append_right _ (List.mem_append_left _ h))))
      (fill_sub e 1 (by omega) false false he (fun q h => hr' q (List.mem_append_right _ (List.mem_append_right _ h))))
    simpa [pr, Node.prec, fillN] using this
  | .await e, _, _, _, _, hw, hr => by
    have he : wf (fillN dm e) = true := by simpa [fillN, wf] using hw
    have := Der.await (fill_sub e 16 (by omega) false false he (by simpa [reqs] using hr))
    simpa [pr, Node.prec, fillN] using this
  | .walrus l r, _, _, _, _, hw, hr => by
    cases l <;> simp [fillN, wf] at hw
    rename_i s
    have := Der.walrus hw.1 (fill_sub r 1 (by omega) false false hw.2 (by simpa [reqs] using hr))
    simpa [pr, Node.prec, fillN] using this
  | .star _, _, _, _, _, hw, _ => by simp [fillN, wf] at hw
  | .fstr parts, _, _, _, _, hw, hr => by
    have ⟨⟨hp, hf⟩, ha⟩ : (wfParts (fillNP dm parts) = true ∧ (fillNP dm parts).any isFieldB = true) ∧
        noAdjLits (fillNP dm parts) = true := by simpa [fillN, wf] using hw
    have := Der.fstr (fill_parts parts hp (by simpa [reqs] using hr))
      (by rw [fillNP_shape] at hf ⊢; exact hf) (by rw [noAdj_fillNP] at ha ⊢; exact ha)
    simpa [pr, Node.prec, fillN] using this
  | .ffield .., _, _, _, _, hw, _ => by simp [fillN, wf] at hw

theorem fill_opt : (o : Option Node) → wfOpt (fillNO dm o) = true → (∀ r ∈ reqsO o, Meets f σ r) →
    DerOpt (fillT f (prOpt o)) (fillNO σ o)
  | none, _, _ => by simpa [prOpt, fillNO] using DerOpt.none
  | some e, hw, hr => by
    have := DerOpt.some (fill_sub e 1 (by omega) false false (by simpa [fillNO, wfOpt] using hw) (by simpa [reqsO] using hr))
    simpa [prOpt, fillNO] using this

theorem fill_items : (sl : Bool) → (es : List Node) → wfItems sl (fillNL dm es) = true → (∀ r ∈ reqsL es, Meets f σ r) →
    DerItems sl ((prItems es).map (fillT f)) (fillNL σ es)
  | _, [], _, _ => by simpa [prItems, fillNL] using DerItems.nil
  | sl, x :: rest, hw, hr => by
    have hr' : ∀ q ∈ reqs 0 false false x ++ reqsL rest, Meets f σ q := by simpa [reqsL] using hr
    have hrr := fun q h => hr' q (List.mem_append_right _ h)
    have hrx := fun q h => hr' q (List.mem_append_left _ h)
    by_cases hst : ∃ e, x = .star e
    · obtain ⟨e, rfl⟩ := hst
      have ⟨he, hwr⟩ : wf (fillN dm e) = true ∧ wfItems sl (fillNL dm rest) = true := by
        simpa [fillNL, fillN, wfItems] using hw
      have := DerItems.star (fill_sub e 7 (by omega) false false he (by simpa [reqs] using hrx)) (fill_items sl rest hwr hrr)
      simpa [prItems, pr, wrap, Node.prec, fillNL, fillN] using this
    · by_cases hsl : ∃ b e s, x = .slice b e s
      · obtain ⟨b, e, s, rfl⟩ := hsl
        have ⟨⟨⟨⟨hsl, hb⟩, he⟩, hs⟩, hwr⟩ : ((((sl = true ∧ wfOpt (fillNO dm b) = true) ∧ wfOpt (fillNO dm e) = true) ∧
            wfOpt (fillNO dm s) = true) ∧ wfItems sl (fillNL dm rest) = true) := by
          simpa [fillNL, fillN, wfItems] using hw
        subst hsl
        have hq : ∀ q ∈ reqsO b ++ (reqsO e ++ reqsO s), Meets f σ q := by simpa [reqs] using hrx
        have := DerItems.slice (fill_opt b hb (fun q h => hq q (List.mem_append_left _ h)))
          (fill_opt e he (fun q h => hq q (List.mem_append_right _ (List.mem_append_left _ h))))
          (fill_opt s hs (fun q h => hq q (List.mem_append_right _ (List.mem_append_right _ h))))
          (fill_items true rest hwr hrr)
        cases s <;> simpa [prItems, pr, wrap, Node.prec, prOpt, fillNL, fillN, fillNO] using this
      · have hw' : wfItems sl (fillNL dm (x :: rest)) = (wf (fillN dm x) && wfItems sl (fillNL dm rest)) := by
          cases x <;> simp_all [wfItems, fillNL, fillN, dummy]
        have ⟨hx, hwr⟩ : wf (fillN dm x) = true ∧ wfItems sl (fillNL dm rest) = true := by simpa [hw'] using hw
        have := DerItems.expr (fill_sub x 0 (by omega) false false hx hrx) (fill_items sl rest hwr hrr)
        simpa [prItems, fillNL] using this

theorem fill_dict : (items : List (Option Node × Node)) → wfDict (fillND dm items) = true →
    (∀ r ∈ reqsD items, Meets f σ r) → DerDict ((prDict items).map (fillT f)) (fillND σ items)
  | [], _, _ => by simpa [prDict, fillND] using DerDict.nil
  | (some k, v) :: rest, hw, hr => by
    have ⟨⟨hk, hv⟩, hwr⟩ : (wf (fillN dm k) = true ∧ wf (fillN dm v) = true) ∧ wfDict (fillND dm rest) = true := by
      simpa [fillND, fillNO, wfDict, wfOpt] using hw
    have hr' : ∀ q ∈ reqs 1 false false k ++ (reqs 1 false false v ++ reqsD rest), Meets f σ q := by
      simpa [reqsD] using hr
    have := DerDict.kv (fill_sub k 1 (by omega) false false hk (fun q h => hr' q (List.mem_append_left _ h)))
      (fill_sub v 1 (by omega) false false hv (fun q h => hr' q (List.mem_append_right _ (List.mem_append_left _ h))))
      (fill_dict rest hwr (fun q h => hr' q (List.mem_append_right _ (List.mem_append_right _ h))))
    simpa [prDict, fillND, fillNO] using this
  | (none, v) :: rest, hw, hr => by
    have ⟨hv, hwr⟩ : wf (fillN dm v) = true ∧ wfDict (fillND dm rest) = true := by
      simpa [fillND, fillNO, wfDict, wfOpt] using hw
    have hr' : ∀ q ∈ reqs 7 false false v ++ reqsD rest, Meets f σ q := by simpa [reqsD] using hr
    have := DerDict.spread (fill_sub v 7 (by omega) false false hv (fun q h => hr' q (List.mem_append_left _ h)))
      (fill_dict rest hwr (fun q h => hr' q (List.mem_append_right _ h)))
    simpa [prDict, fillND, fillNO] using this

theorem fill_args : (args : List (ArgKind × Str × Node)) → wfArgs (fillNA dm args) = true →
    (∀ r ∈ reqsA args, Meets f σ r) → DerArgs ((prArgs args).map (fillT f)) (fillNA σ args)
  | [], _, _ => by simpa [prArgs, fillNA] using DerArgs.nil
  | (k, nm, a) :: rest, hw, hr => by
    have hr' : ∀ q ∈ reqs (if k = .pos then 0 else 1) false false a ++ reqsA rest, Meets f σ q := by
      simpa [reqsA] using hr
    have hrr := fun q h => hr' q (List.mem_append_right _ h)
    have hra := fun q h => hr' q (List.mem_append_left _ h)
    cases k <;> simp [fillNA, wfArgs] at hw
    · simpa [prArgs, fillNA] using DerArgs.pos (nm := nm) (fill_sub a 0 (by omega) false false hw.1 (by simpa using hra)) (fill_args rest hw.2 hrr)
    · simpa [prArgs, fillNA] using DerArgs.star (nm := nm) (fill_sub a 1 (by omega) false false hw.1 (by simpa using hra)) (fill_args rest hw.2 hrr)
    · simpa [prArgs, fillNA] using DerArgs.named hw.1.1 (fill_sub a 1 (by omega) false false hw.1.2 (by simpa using hra)) (fill_args rest hw.2 hrr)
    · simpa [prArgs, fillNA] using DerArgs.star2 (nm := nm) (fill_sub a 1 (by omega) false false hw.1 (by simpa using hra)) (fill_args rest hw.2 hrr)

theorem fill_cmp : (rest : List (CmpOp × Node)) → wfCmp (fillNC dm rest) = true → (∀ r ∈ reqsC rest, Meets f σ r) →
    DerCmp (fillT f (prCmp rest)) (fillNC σ rest)
  | [], _, _ => by simpa [prCmp, fillNC] using DerCmp.nil
  | (o, e) :: rest, hw, hr => by
    have ⟨he, hwr⟩ : wf (fillN dm e) = true ∧ wfCmp (fillNC dm rest) = true := by simpa [fillNC, wfCmp] using hw
    have hr' : ∀ q ∈ reqs 7 false false e ++ reqsC rest, Meets f σ q := by simpa [reqsC] using hr
    have := DerCmp.cons (o := o) (fill_sub e 7 (by omega) false false he (fun q h => hr' q (List.mem_append_left _ h)))
      (fill_cmp rest hwr (fun q h => hr' q (List.mem_append_right _ h)))
    simpa [prCmp, fillNC] using this

theorem fill_index : (i : Node) → wfIndex (fillN dm i) = true → (∀ r ∈ reqsI i, Meets f σ r) →
    DerIndex (fillT f (prIndex i)) (fillN σ i)
  | i, hw, hr => by
    by_cases h1 : ∃ b e s, i = .slice b e s
    · obtain ⟨b, e, s, rfl⟩ := h1
      have ⟨⟨hb, he⟩, hs⟩ : (wfOpt (fillNO dm b) = true ∧ wfOpt (fillNO dm e) = true) ∧ wfOpt (fillNO dm s) = true := by
        simpa [fillN, wfIndex] using hw
      have hq : ∀ q ∈ reqsO b ++ (reqsO e ++ reqsO s), Meets f σ q := by simpa [reqsI, reqs] using hr
      have := DerIndex.slice (fill_opt b hb (fun q h => hq q (List.mem_append_left _ h)))
        (fill_opt e he (fun q h => hq q (List.mem_append_right _ (List.mem_append_left _ h))))
        (fill_opt s hs (fun q h => hq q (List.mem_append_right _ (List.mem_append_right _ h))))
      cases s <;> simpa [prIndex, pr, prOpt, fillN, fillNO] using this
    · by_cases h2 : ∃ items, i = .tuple items
      · obtain ⟨items, rfl⟩ := h2
        have hany : (fillNL dm items).any isSliceB = items.any isSliceB := any_slice_fillNL items
        have hany' : (fillNL σ items).any isSliceB = true ∨ items.any isSliceB = false := by
          by_cases hs : items.any isSliceB = true
          · exact Or.inl (any_slice_fillNL_true σ items hs)
          · exact Or.inr (by simpa using hs)
        have hi : wfItems (items.any isSliceB) (fillNL dm items) = true := by simpa [fillN, wfIndex, hany] using hw
        have hq : ∀ q ∈ reqsL items, Meets f σ q := by simpa [reqsI] using hr
        by_cases hs : items.any isSliceB = true
        · rw [hs] at hi
          have := DerIndex.slices (fill_items true items hi hq) (any_slice_fillNL_true σ items hs)
          by_cases h1 : items.length = 1 <;> simpa [prIndex, hs, fillN, fillT_commaSep, fillNL_length, h1] using this
        · have hs' : items.any isSliceB = false := by simpa using hs
          rw [hs'] at hi
          have := DerIndex.expr (Der.up (Nat.zero_le _) (Der.tuple (fill_items false items hi hq)))
          by_cases h1 : items.length = 1 <;> simpa [prIndex, hs', fillN, fillT_commaSep, fillNL_length, h1] using this
      · by_cases hh : isHole i = true
        · obtain ⟨k, rfl⟩ := hole_of_isHole hh
          have := hr ⟨k, 0, false, false⟩ (by simp [reqsI, reqs])
          simpa [prIndex, pr, fillN] using DerIndex.expr this.2.1
        · have hh' : isHole i = false := by simpa using hh
          have hw' : wfIndex (fillN dm i) = wf (fillN dm i) := by cases i <;> simp_all [wfIndex, fillN, isHoleB]
          have hp : prIndex i = pr i := by cases i <;> simp_all [prIndex]
          have hq : ∀ q ∈ reqs 0 false false i, Meets f σ q := by
            have : reqsI i = reqs 0 false false i := by cases i <;> simp_all [reqsI]
            simpa [this] using hr
          have := DerIndex.expr (Der.up (Nat.zero_le _) (fill_pr i 0 false false hh' (by simpa [hw'] using hw) hq))
          simpa [hp] using this

theorem fill_parts : (ps : List Node) → wfParts (fillNP dm ps) = true → (∀ r ∈ reqsP ps, Meets f σ r) →
    DerParts (fillT f (prParts ps)) (fillNP σ ps)
  | [], _, _ => by simpa [prParts, fillNP] using DerParts.nil
  | p :: rest, hw, hr => by
    have hr' : ∀ q ∈ reqs 0 false false p ++ reqsP rest, Meets f σ q := by simpa [reqsP] using hr
    have hrr := fun q h => hr' q (List.mem_append_right _ h)
    have hrp := fun q h => hr' q (List.mem_append_left _ h)
    by_cases h1 : ∃ v, p = .str v
    · obtain ⟨v, rfl⟩ := h1
      have ⟨hv, hwr⟩ : v ≠ [] ∧ wfParts (fillNP dm rest) = true := by simpa [fillNP, wfParts] using hw
      have hd : hasBrace v = true ∨ hasBrace v = false := by cases hasBrace v <;> simp
      simpa [prParts, fillNP] using DerParts.lit (d := hasBrace v) hv hd (fill_parts rest hwr hrr)
    · by_cases h2 : ∃ e conv spec, p = .ffield e conv spec
      · obtain ⟨e, conv, spec, rfl⟩ := h2
        have hc' : ∀ c, conv = some c → isConv c = true := by
          intro c hc2; subst hc2; simp [fillNP, wfParts] at hw; exact hw.1.1.2
        have ⟨⟨he, hs⟩, hwr⟩ : (wf (fillN dm e) = true ∧ hasBrace spec = false) ∧ wfParts (fillNP dm rest) = true := by
          cases conv <;> simp [fillNP, wfParts] at hw <;> simp [hw]
        by_cases hh : isHole e = true
        · obtain ⟨k, rfl⟩ := hole_of_isHole hh
          have hm := hrp ⟨k, 3, false, true⟩ (by simp [reqs, isHoleB])
          have hb : startsWithBrace (f k) = false := hm.2.2.2 rfl
          have := DerParts.field (conv := conv) (spec := spec) hm.2.1 hc' hs (fill_parts rest hwr hrr)
          have hw3 : wrap 3 (Node.other k).prec [Tok.hole k] = [.hole k] := by simp [wrap, Node.prec]
          have hb0 : startsWithBrace [Tok.hole k] = false := rfl
          cases conv <;> by_cases h1 : spec.isEmpty = true <;> by_cases h2 : spec.all plainSpecChar = true <;>
            simpa [prParts, pr, fillNP, fillN, hw3, hb0, hb, h1, h2] using this
        · exfalso
          have hm := hrp ⟨0, 18, false, false⟩ (by simp [reqs, hh])
          exact absurd hm.1 (by decide)
      · exfalso
        cases p <;> simp_all [wfParts, fillNP]
end
end

end RefurbVerif.C02
