import RefurbVerif.Wire.Basic
import RefurbVerif.Model.Lifecycle
open Lean

namespace RefurbVerif.Wire
open RefurbVerif.Lifecycle

def lcPOpts (s : String) : POpts := if s == "SystemExit" then .systemExit else .ok
def lcBuild (s : String) : Build :=
  match s with
  | "CompileError" => .compileError
  | "other" => .otherExc
  | _ => .ok
def lcLoad (s : String) : Load := if s == "TypeError" then .typeError else .ok
def lcVisit (s : String) : Visit := if s == "raises" then .raises else .ok
def lcOts (s : String) : Ots :=
  match s with
  | "readError" => .readError
  | "ValueError" => .valueError
  | "writeError" => .writeError
  | _ => .ok

def lcScenario (j : Json) : Scenario :=
  { timingStats := bool j "timing", popts := lcPOpts (str j "popts"), build := lcBuild (str j "build"),
    load := lcLoad (str j "load"), visits := (strs j "visits").map lcVisit, ots := lcOts (str j "ots") }

def lcOutcome : Outcome → String
  | .returned => "returned"
  | .typeError => "TypeError"
  | .crashed => "crashed"

def lcOk (b : Bool) : String := if b then "ok" else "raises"

def lcEvent : Event → String
  | .processOptions .ok => "processOptions ok"
  | .processOptions .systemExit => "processOptions SystemExit"
  | .mkstemp => "mkstemp"
  | .build .ok => "build ok"
  | .build .compileError => "build CompileError"
  | .build .otherExc => "build other"
  | .loadChecks .ok => "loadChecks ok"
  | .loadChecks .typeError => "loadChecks TypeError"
  | .visit i .ok => s!"visit {i} ok"
  | .visit i .raises => s!"visit {i} raises"
  | .readTemp b => "readTemp " ++ lcOk b
  | .parseTemp b => "parseTemp " ++ lcOk b
  | .writeStats b => "writeStats " ++ lcOk b
  | .outputTimingStats .skipped => "outputTimingStats skipped"
  | .outputTimingStats .ok => "outputTimingStats ok"
  | .outputTimingStats .raised => "outputTimingStats raises"
  | .unlink => "unlink"
  | .done o => "done " ++ lcOutcome o

def lcTemp : Option Temp → String
  | some .none => "none"
  | some .created => "created"
  | some .unlinked => "unlinked"
  | Option.none => "illegal"

def lcOtsName : Ots → String
  | .ok => "ok"
  | .readError => "readError"
  | .valueError => "ValueError"
  | .writeError => "writeError"

def lcPairs (j : Json) (k : String) : List (Str × Int) :=
  (arr j k).filterMap (fun kv =>
    match kv with
    | .arr #[.str m, v] => some (m.toList, (v.getInt?).toOption.getD 0)
    | _ => Option.none)

def lcPairsJ (d : List (Str × Int)) : Json :=
  Json.arr (d.map (fun kv => Json.arr #[Json.str (String.ofList kv.1), Json.str (String.ofList (intChars kv.2))])).toArray

/-- driver verbs of this group -/
def handleLifecycle (verb : String) (j : Json) : Option Json :=
  match verb with
  | "lifecycle" =>
    let s := lcScenario j
    -- "fin" overrides the shape read from the working tree (used to exercise both shapes)
    let fin := match j.getObjValAs? Bool "fin" with
      | .ok b => b
      | .error _ => Generated.unlinkInFinally
    some (Json.mkObj [("trace", toJson ((run fin s).map lcEvent)), ("final", lcTemp (finalTemp fin s)),
      ("outcome", (outcome fin s).map lcOutcome |>.getD "?"), ("fin", fin)])
  | "timingjson" =>
    let content := (str j "content").toList
    let total := int j "total"
    let refurb := lcPairs j "refurb"
    -- "rsplit" overrides the shape read from the working tree (used to exercise both shapes)
    let rs := match j.getObjValAs? Bool "rsplit" with
      | .ok b => b
      | .error _ => Generated.timingRsplit
    some (match timingData rs content total refurb with
      | .error _ => Json.mkObj [("err", "ValueError"), ("rsplit", rs)]
      | .ok st => Json.mkObj [("text", String.ofList (renderObj st.data)), ("mypy", lcPairsJ st.mypy), ("refurb", lcPairsJ st.refurb),
          ("rsplit", rs)])
  | "otsof" =>
    some (Json.str (lcOtsName (otsOf Generated.timingRsplit (bool j "readable") (str j "content").toList (bool j "writable"))))
  | "pyint" =>
    some (match parsePyInt (str j "s").toList with
      | some i => Json.str (String.ofList (intChars i))
      | Option.none => Json.null)
  | "pysplit" =>
    some (Json.mkObj [("lines", toJson ((pySplitlines (str j "s").toList).map String.ofList)),
      ("fields", toJson ((pySplit (str j "s").toList).map String.ofList)),
      ("rfields", toJson ((pyRsplit1 (str j "s").toList).map String.ofList))])
  | "pyrsplit" =>
    -- code points in, code points out (the text may contain U+0085/U+2028, which the harness would cut lines at)
    let s : Str := ((arr j "cps").filterMap (fun v => (v.getNat?).toOption)).map Char.ofNat
    let cps (l : List Str) : Json := toJson (l.map (fun f => f.map Char.toNat))
    some (Json.mkObj [("rsplit1", cps (pyRsplit1 s)), ("split", cps (pySplit s))])
  | "pychartables" =>
    -- every code point below 0x110000 the model treats as whitespace / as a line boundary
    let cps := (List.range 0x110000).filter (fun n => n < 0xd800 || 0xdfff < n)
    some (Json.mkObj [("space", toJson (cps.filter (fun n => isPySpace (Char.ofNat n)))),
      ("linebreak", toJson (cps.filter (fun n => isLineBreak (Char.ofNat n))))])
  | _ => Option.none

end RefurbVerif.Wire
