"""Further extractors (registered into extract.EXTRACTORS on import)."""
