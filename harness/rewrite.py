"""Applying refurb's suggested rewrites to real source and running both versions (C01's oracle; also used by C02).

A diagnostic "Replace `OLD` with `NEW`" reported with a span is turned into an edit of the file:
OLD is unified with the source text at the span (placeholders x, y, z, f, … and `...` in schematic
messages are wildcards, bound consistently), NEW is instantiated with the bindings and spliced in.
"""

from __future__ import annotations

import ast
import copy
import io
import json
import math
import re
import subprocess
import textwrap
from contextlib import redirect_stdout
from pathlib import Path
from typing import Any

from . import core

LINT_WORKER = textwrap.dedent(
    """
    import json, sys
    from refurb.main import run_refurb
    from refurb.settings import load_settings
    from refurb.error import Error
    out = []
    for e in run_refurb(load_settings(sys.argv[2:])):
        if isinstance(e, Error):
            out.append({"file": e.filename, "prefix": e.prefix, "code": e.code, "line": e.line, "col": e.column,
                        "line_end": e.line_end, "col_end": e.column_end, "msg": e.msg})
        else:
            out.append({"text": e})
    json.dump(out, open(sys.argv[1], "w"))
    """
)


def lint_with_spans(cwd: Path, argv: list[str], tag: str = "0") -> list[dict[str, Any]]:
    """refurb's Error objects (incl. end positions) for a run, from a fresh process"""
    (cwd / "_lint_worker.py").write_text(LINT_WORKER)
    out = cwd / f"_lint_{tag}.json"
    p = subprocess.run([core.PY, "_lint_worker.py", out.name, *argv], cwd=cwd, capture_output=True, text=True, timeout=900, env=core.py_env())
    if p.returncode != 0:
        raise RuntimeError("lint worker failed: " + p.stderr[-2000:])
    return json.loads(out.read_text())


REPLACE_RE = re.compile(r"^Replace `(?P<old>.*)` with `(?P<new>.*)`$", re.S)
PLACEHOLDERS = {"x", "y", "z", "f", "w", "v", "k"}


def split_message(msg: str) -> tuple[str, str] | None:
    m = REPLACE_RE.match(msg)
    if not m:
        return None
    old, new = m.group("old"), m.group("new")
    if "` with `" in old or "` with `" in new:
        # ambiguous split (a back-quote inside the quoted code): try the other split points
        parts = msg[len("Replace `") : -1].split("` with `")
        for i in range(1, len(parts)):
            o, n = "` with `".join(parts[:i]), "` with `".join(parts[i:])
            if _parses(o) and _parses(n):
                return o, n
        return None
    return old, new


def _parses(src: str) -> bool:
    try:
        ast.parse(src.replace("...", "__ellipsis__"))
        return True
    except SyntaxError:
        return False


class NoMatch(Exception):
    pass


def _unify(pat: Any, node: Any, env: dict[str, Any]) -> None:
    """pattern tree (with placeholder Names) vs concrete tree; raises NoMatch"""
    if isinstance(pat, ast.Name) and (pat.id in PLACEHOLDERS or pat.id == "__ellipsis__"):
        if not isinstance(node, ast.AST):
            raise NoMatch
        key = pat.id
        if key == "__ellipsis__":
            return  # matches anything, binds nothing
        if key in env:
            if ast.dump(env[key]) != ast.dump(node):
                raise NoMatch
        else:
            env[key] = node
        return
    if type(pat) is not type(node):
        raise NoMatch
    if isinstance(pat, ast.AST):
        for field in pat._fields:
            if field in ("ctx", "type_comment", "kind"):
                continue
            _unify(getattr(pat, field, None), getattr(node, field, None), env)
    elif isinstance(pat, list):
        # an `...` element (Expr(Name __ellipsis__) or Name __ellipsis__) absorbs any number of elements
        def is_dots(p: Any) -> bool:
            if isinstance(p, ast.Expr):
                p = p.value
            if isinstance(p, ast.Starred):
                p = p.value
            return isinstance(p, ast.Name) and p.id == "__ellipsis__"

        if any(is_dots(p) for p in pat):
            i = next(i for i, p in enumerate(pat) if is_dots(p))
            head, tail = pat[:i], pat[i + 1 :]
            if len(node) < len(head) + len(tail):
                raise NoMatch
            for p, n in zip(head, node[: len(head)]):
                _unify(p, n, env)
            for p, n in zip(tail, node[len(node) - len(tail) :] if tail else []):
                _unify(p, n, env)
            return
        if len(pat) != len(node):
            raise NoMatch
        for p, n in zip(pat, node):
            _unify(p, n, env)
    else:
        if pat != node:
            raise NoMatch


def _parse_fragment(src: str) -> tuple[str, Any]:
    """('expr', node) or ('stmts', [nodes])"""
    s = src.replace("...", "__ellipsis__")
    try:
        return "expr", ast.parse(s, mode="eval").body
    except SyntaxError:
        pass
    return "stmts", ast.parse(s).body


class _Subst(ast.NodeTransformer):
    def __init__(self, env: dict[str, Any]) -> None:
        self.env = env

    def visit_Name(self, node: ast.Name) -> Any:
        if node.id in self.env:
            return copy.deepcopy(self.env[node.id])
        return node


def instantiate(old: str, new: str, segment: str) -> tuple[str, str] | None:
    """-> (kind, concrete replacement source) or None when OLD does not describe the segment"""
    try:
        kind_o, pat = _parse_fragment(old)
        kind_s, seg = _parse_fragment(textwrap.dedent(segment))
    except SyntaxError:
        return None
    if kind_o != kind_s:
        return None
    env: dict[str, Any] = {}
    try:
        _unify(pat, seg, env)
    except NoMatch:
        return None
    try:
        kind_n, newt = _parse_fragment(new)
    except SyntaxError:
        return ("invalid", new)
    if "__ellipsis__" in ast.dump(newt) if isinstance(newt, ast.AST) else any("__ellipsis__" in ast.dump(s) for s in newt):
        return None  # the replacement is schematic itself: nothing concrete to run
    sub = _Subst(env)
    if kind_n == "expr":
        out = ast.unparse(ast.fix_missing_locations(sub.visit(newt)))
    else:
        out = "\n".join(ast.unparse(ast.fix_missing_locations(sub.visit(s))) for s in newt)
    return kind_n, out


def offset(lines: list[str], line: int, col: int) -> int:
    """byte-column position -> character offset in the joined text"""
    pre = sum(len(l) + 1 for l in lines[: line - 1])
    text = lines[line - 1]
    return pre + len(text.encode("utf8")[:col].decode("utf8", "ignore"))


def apply_rewrite(source: str, d: dict[str, Any]) -> tuple[str, str] | tuple[None, str]:
    """-> (new source, replacement text) or (None, reason)"""
    sm = split_message(d["msg"])
    if sm is None:
        return None, "message is not of the form Replace `A` with `B`"
    if d.get("line_end") is None or d.get("col_end") is None:
        return None, "diagnostic has no end position"
    lines = source.split("\n")
    a, b = offset(lines, d["line"], d["col"]), offset(lines, d["line_end"], d["col_end"])
    segment = source[a:b]
    inst = instantiate(sm[0], sm[1], segment)
    if inst is None:
        return None, "the quoted code does not unify with the source at the reported span"
    kind, text = inst
    if kind == "invalid":
        return None, "replacement is not valid Python: " + text
    if kind == "expr":
        new_source = source[:a] + "(" + text + ")" + source[b:]
    else:
        indent = " " * (a - (source.rfind("\n", 0, a) + 1))
        new_source = source[:a] + text.replace("\n", "\n" + indent) + source[b:]
    return new_source, text


# ------------------------------------------------------------------------------------------
# running a function on a value sweep


def canon(v: Any, depth: int = 0) -> Any:
    """a comparable, type-faithful rendering of a Python value"""
    if depth > 6:
        return "<deep>"
    if v is None or isinstance(v, (bool, int, str, bytes)):
        return [type(v).__name__, repr(v)]
    if isinstance(v, float):
        return ["float", "nan" if math.isnan(v) else repr(v)]
    if isinstance(v, complex):
        return ["complex", repr(v)]
    if isinstance(v, (list, tuple)):
        return [type(v).__name__, [canon(x, depth + 1) for x in v]]
    if isinstance(v, (set, frozenset)):
        return [type(v).__name__, sorted((canon(x, depth + 1) for x in v), key=repr)]
    if isinstance(v, dict):
        return ["dict", [[canon(k, depth + 1), canon(x, depth + 1)] for k, x in v.items()]]
    if isinstance(v, (bytearray,)):
        return ["bytearray", repr(bytes(v))]
    if hasattr(v, "__next__"):
        try:
            return ["iterator:" + type(v).__name__, [canon(x, depth + 1) for x in list(v)[:50]]]
        except Exception as e:  # noqa: BLE001
            return ["iterator-raised", type(e).__name__]
    if callable(v):
        return ["callable", getattr(v, "__qualname__", type(v).__name__)]
    return ["object:" + type(v).__name__, repr(v)[:80]]


def run_case(module_src: str, func: str, args_list: list[tuple[Any, ...]], alias: list[tuple[int, int]] | None = None) -> list[Any]:
    """exec the module, call func on (deep copies of) every argument tuple; observe result, exception, arguments, stdout"""
    ns: dict[str, Any] = {"__name__": "case_module"}
    try:
        exec(compile(module_src, "<case>", "exec"), ns)  # noqa: S102
    except BaseException as e:  # noqa: BLE001
        return [["module-raised", type(e).__name__]] * len(args_list)
    fn = ns[func]
    out = []
    for args in args_list:
        argv = list(copy.deepcopy(args))
        for i, j in alias or []:
            argv[j] = argv[i]  # the same object under two names
        buf = io.StringIO()
        try:
            with redirect_stdout(buf):
                r = fn(*argv)
            res = ["ok", canon(r)]
        except BaseException as e:  # noqa: BLE001
            res = ["raised"]
        out.append([res, [canon(a) for a in argv], buf.getvalue()])
    return out
