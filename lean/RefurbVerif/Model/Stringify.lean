/-
Model of refurb's expression printer (refurb/checks/common.py:299-534):

  get_fstring_parts (299-339)   `fstrBody` / `fstrItems`
  stringify (342-347)           `stringify`      (ValueError becomes the placeholder `x`)
  _stringify (350-522)          `sfy` / `sfyStmt` (`none` = ValueError), one case per `case` of the `match`, in the
                                same order, with the same choice of `stringify` vs `_stringify` for every child
  slice_expr_to_slice_call      `sliceCall`

and of the two things it is compared with:

  `desugar`   what mypy's fastparse does to an f-string before refurb ever sees it
              (`"".join([...])` / `"{:{}}".format(value, spec)`), so that the trees the *user* wrote
              (`Node` with `.fstr`) and the trees `_stringify` is handed (`Node` without) are both expressible;
  `ppRef`     the precedence-aware reference printer (parenthesise iff child precedence < the level the
              position requires) — what `_stringify` would be if it were repaired.

Text is a list of tokens; `render` turns tokens into characters, and `render (sfy n)` is Python's string byte
for byte (spaces are explicit tokens).  Nothing here is proved; see Props/C02.lean.
-/
import RefurbVerif.Generated.Printable

namespace RefurbVerif.Sfy

abbrev Str := List Char

/-! ### operators -/

inductive BinOp where
  | or_ | and_ | bitor | bitxor | bitand | lshift | rshift | add | sub | mul | div | floordiv | mod | matmul | pow
  deriving DecidableEq, Repr, Inhabited

inductive CmpOp where
  | eq | ne | lt | le | gt | ge | is_ | isNot | in_ | notIn
  deriving DecidableEq, Repr, Inhabited

inductive UnOp where
  | neg | pos | inv | not_
  deriving DecidableEq, Repr, Inhabited

/-- mypy's `ArgKind` -/
inductive ArgKind where
  | pos | opt | star | named | star2 | namedOpt
  deriving DecidableEq, Repr, Inhabited

def BinOp.text : BinOp → String
  | .or_ => "or" | .and_ => "and" | .bitor => "|" | .bitxor => "^" | .bitand => "&" | .lshift => "<<"
  | .rshift => ">>" | .add => "+" | .sub => "-" | .mul => "*" | .div => "/" | .floordiv => "//" | .mod => "%"
  | .matmul => "@" | .pow => "**"

def CmpOp.text : CmpOp → String
  | .eq => "==" | .ne => "!=" | .lt => "<" | .le => "<=" | .gt => ">" | .ge => ">=" | .is_ => "is"
  | .isNot => "is not" | .in_ => "in" | .notIn => "not in"

def UnOp.text : UnOp → String
  | .neg => "-" | .pos => "+" | .inv => "~" | .not_ => "not"

/-! ### tokens -/

inductive Tok where
  /-- fixed text: keyword, operator, bracket, comma … -/
  | t (s : String)
  /-- one space -/
  | sp
  | name (s : Str)
  /-- a number literal, spelled as Python's `str()` spelled it -/
  | num (s : Str)
  /-- `"…"`: a string literal with value `v` -/
  | str (v : Str)
  /-- `b"…"`: `v` is the body as mypy stores it (already escaped) -/
  | bytes (v : Str)
  /-- literal chunk of an f-string with value `v`; braces are doubled iff `dbl` -/
  | flit (v : Str) (dbl : Bool)
  /-- format spec of an f-string field made of plain characters only (escaping it like the literal chunks changes nothing) -/
  | fspec (s : Str)
  /-- hole number `i` of a message template -/
  | hole (i : Nat)
  deriving DecidableEq, Repr, Inhabited

abbrev Toks := List Tok

/-! ### Python's `repr` of a `str` (what `_stringify` uses to escape string literals) -/

def hexDigit (n : Nat) : Char := if n < 10 then Char.ofNat (48 + n) else Char.ofNat (87 + n)

/-- `n` as exactly `w` lower-case hex digits -/
def hexW : Nat → Nat → Str
  | 0, _ => []
  | w + 1, n => hexW w (n / 16) ++ [hexDigit (n % 16)]

def inRanges (rs : List (Nat × Nat)) (n : Nat) : Bool := rs.any (fun r => r.1 ≤ n && n ≤ r.2)

/-- `str.isprintable()` of a single non-ASCII character (table generated from the running Python) -/
def isPrintable (c : Char) : Bool := !inRanges Generated.nonPrintableRanges c.toNat

/-- one character of `repr(s)` when the surrounding quote is `q` -/
def reprChar (q : Char) (c : Char) : Str :=
  if c = q ∨ c = '\\' then ['\\', c]
  else if c = '\t' then ['\\', 't']
  else if c = '\n' then ['\\', 'n']
  else if c = '\r' then ['\\', 'r']
  else if c.toNat < 32 ∨ c.toNat = 127 then '\\' :: 'x' :: hexW 2 c.toNat
  else if c.toNat < 127 then [c]
  else if isPrintable c then [c]
  else if c.toNat < 256 then '\\' :: 'x' :: hexW 2 c.toNat
  else if c.toNat < 65536 then '\\' :: 'u' :: hexW 4 c.toNat
  else '\\' :: 'U' :: hexW 8 c.toNat

/-- the quote `repr` chooses: `"` iff the value has a `'` and no `"` -/
def reprQuote (v : Str) : Char := if v.contains '\'' && !v.contains '"' then '"' else '\''

/-- `repr(v)[1:-1]` -/
def reprBody (v : Str) : Str := v.flatMap (reprChar (reprQuote v))

/-- `.replace('"', '\\"')` -/
def escDq (s : Str) : Str := s.flatMap (fun c => if c = '"' then ['\\', '"'] else [c])

/-- body of the literal `_stringify` prints for `StrExpr(value=v)` -/
def strBody (v : Str) : Str := escDq (reprBody v)

def doubleBraces (s : Str) : Str := s.flatMap (fun c => if c = '{' ∨ c = '}' then [c, c] else [c])

def Tok.render : Tok → Str
  | .t s => s.toList
  | .sp => [' ']
  | .name s => s
  | .num s => s
  | .str v => '"' :: strBody v ++ ['"']
  | .bytes v => 'b' :: '"' :: escDq v ++ ['"']
  | .flit v false => strBody v
  | .flit v true => doubleBraces (strBody v)
  | .fspec s => s
  | .hole i => '{' :: Nat.toDigits 10 i ++ ['}']

def render (ts : Toks) : Str := ts.flatMap Tok.render

/-! ### numbers -/

def natChars (n : Nat) : Str := Nat.toDigits 10 n

/-- Python's `str(int)` -/
def intChars (i : Int) : Str := if i < 0 then '-' :: natChars i.natAbs else natChars i.toNat

/-! ### syntax trees -/

/-- Expression nodes: mypy's node classes as `_stringify` sees them, plus `.fstr`/`.ffield` for the f-string the
    user wrote (mypy never builds these: `desugar` is what its parser does instead). -/
inductive Node where
  | name (s : Str)
  | member (e : Node) (attr : Str)
  | int (v : Int)
  /-- `FloatExpr`; `s` is `str(value)` (computed by Python, an input of the model) -/
  | float (s : Str)
  /-- `ComplexExpr`; `s` is `str(value)` -/
  | complex (s : Str)
  | str (v : Str)
  /-- `BytesExpr`; `v` is `value` as mypy stores it: the escaped body of the literal -/
  | bytes (v : Str)
  | ellipsis
  /-- `DictExpr.items`: key `none` is a `**` item -/
  | dict (items : List (Option Node × Node))
  | tuple (items : List Node)
  | list (items : List Node)
  | set (items : List Node)
  /-- `zip(arg_kinds, arg_names, args)`; the name is only looked at for `named` -/
  | call (callee : Node) (args : List (ArgKind × Str × Node))
  | index (base : Node) (idx : Node)
  | slice (b : Option Node) (e : Option Node) (s : Option Node)
  | op (o : BinOp) (l r : Node)
  /-- `operands[0]`, then `zip(operators, operands[1:])` -/
  | cmp (first : Node) (rest : List (CmpOp × Node))
  | unary (o : UnOp) (e : Node)
  /-- `zip(arg_names, arg_kinds)` (a missing name is `[]`); `body` is `some e` iff the body is
      `Block([ReturnStmt(e)])` -/
  | lambda (params : List (Str × ArgKind)) (body : Option Node)
  /-- `ConditionalExpr(if_expr, cond, else_expr)` -/
  | cond (t c e : Node)
  | await (e : Node)
  | walrus (target value : Node)
  | star (e : Node)
  /-- an f-string as written: parts are `.str` (literal chunk) or `.ffield` -/
  | fstr (parts : List Node)
  /-- `{e!conv:spec}` (`spec = []`: none) -/
  | ffield (e : Node) (conv : Option Char) (spec : Str)
  /-- any node class `_stringify` has no case for (comprehensions, generators, yield, …); also used as a numbered
      hole in message templates -/
  | other (i : Nat)
  deriving Repr, Inhabited

/-- the statement forms `_stringify` has cases for -/
inductive Stmt where
  /-- `AssignmentStmt(lvalues, rvalue)` -/
  | assign (lvalues : List Node) (r : Node)
  /-- `IfStmt(expr, body, else_body)`: `body` is a list of blocks -/
  | ifS (conds : List Node) (bodies : List (List Stmt)) (hasElse : Bool)
  /-- `ForStmt(index, expr, body, else_body, is_async)` -/
  | forS (idx e : Node) (body : List Stmt) (hasElse : Bool) (isAsync : Bool)
  | del (e : Node)
  | expr (e : Node)
  | other
  deriving Repr, Inhabited

/-! ### `unmangle_name`: `(name or "").rstrip("'*")` -/

def isMangleChar (c : Char) : Bool := c = '\'' || c = '*'

def unmangle : Str → Str
  | [] => []
  | c :: cs =>
    match unmangle cs with
    | [] => if isMangleChar c then [] else [c]
    | r => c :: r

/-! ### helpers shared by both printers -/

/-- `", ".join(parts)` -/
def commaSep : List Toks → Toks
  | [] => []
  | [a] => a
  | a :: b :: rest => a ++ [.t ",", .sp] ++ commaSep (b :: rest)

def xTok : Toks := [.name ['x']]

def lparen : Toks := [.t "("]
def rparen : Toks := [.t ")"]

/-! ### `get_fstring_parts` + `_stringify` -/

/-- what the f-string branch of `_stringify` does with a node: `notF` — `get_fstring_parts` returned `[]`;
    `isF body` — it returned parts, and `body` is the text between `f"` and `"` (`none` if printing an
    argument raised `ValueError`) -/
inductive FRes where
  | notF
  | isF (body : Option Toks)
  deriving Repr, Inhabited

def fmtFormat : Str := "{:{}}".toList
def sFormat : Str := "format".toList
def sJoin : Str := "join".toList

def optAppend : Option Toks → Option Toks → Option Toks
  | some a, some b => some (a ++ b)
  | _, _ => none

/-- state of the loop over the items of `"".join([...])`: `none` — "return []" -/
def consPart (had : Bool) (body : Option Toks) : Option (Bool × Option Toks) → Option (Bool × Option Toks)
  | none => none
  | some (h, rest) => some (had || h, optAppend body rest)

/-- `except ValueError: return "x"` -/
def orX : Option Toks → Toks
  | some t => t
  | none => xTok

mutual
/-- `_stringify`; `none` = `ValueError` -/
def sfy : Node → Option Toks
  | .member e a => (sfy e).map (· ++ [.t ".", .name a])
  | .name s => some [.name (unmangle s)]
  | .bytes v => some [.bytes v]
  | .int v => some [.num (intChars v)]
  | .complex s => some [.num s]
  | .float s => some [.num s]
  | .str v => some [.str v]
  | .dict items => some ([.t "{"] ++ commaSep (sfyDict items) ++ [.t "}"])
  | .tuple items =>
    some ([.t "("] ++ commaSep (sfyItems items) ++ (if items.length = 1 then [.t ","] else []) ++ [.t ")"])
  | .call f args =>
    match fstrCall f args with
    | .isF body => body.map (fun b => [.t "f\""] ++ b ++ [.t "\""])
    | .notF =>
      match sfy f, sfyArgs args with
      | some tf, some ta => some (tf ++ [.t "("] ++ commaSep ta ++ [.t ")"])
      | _, _ => none
  | .index b i => some (orX (sfy b) ++ [.t "["] ++ orX (sfy i) ++ [.t "]"])
  | .slice b e s =>
    some (sfyOptX b ++ [.t ":"] ++ sfyOptX e ++ (match s with | some s => .t ":" :: orX (sfy s) | none => []))
  | .op o l r =>
    match sfy l, sfy r with
    | some a, some b => some (a ++ [.sp, .t o.text, .sp] ++ b)
    | _, _ => none
  | .cmp first rest =>
    match sfy first, sfyCmp rest with
    | some a, some b => some (a ++ b)
    | _, _ => none
  | .unary o e =>
    (sfy e).map (fun t => (if o = .not_ then [.t o.text, .sp] else [.t o.text]) ++ t)
  | .lambda params body =>
    match body with
    | none => none
    | some b =>
      if params.all (fun p => p.2 = .pos && !p.1.isEmpty) then
        (sfy b).map (fun t =>
          [.t "lambda"] ++ (if params.isEmpty then [] else .sp :: commaSep (params.map (fun p => [.name p.1])))
            ++ [.t ":", .sp] ++ t)
      else none
  | .list items => some ([.t "["] ++ commaSep (sfyItems items) ++ [.t "]"])
  | .set items => some ([.t "{"] ++ commaSep (sfyItems items) ++ [.t "}"])
  | .cond t c e =>
    match sfy t, sfy c, sfy e with
    | some a, some b, some d => some (a ++ [.sp, .t "if", .sp] ++ b ++ [.sp, .t "else", .sp] ++ d)
    | _, _, _ => none
  | .await e => (sfy e).map (fun t => [.t "await", .sp] ++ t)
  | .walrus l r =>
    match sfy l, sfy r with
    | some a, some b => some (a ++ [.sp, .t ":=", .sp] ++ b)
    | _, _ => none
  | .ellipsis => none
  | .star _ => none
  | .fstr _ => none
  | .ffield _ _ _ => none
  | .other _ => none

/-- `stringify(child) if child else ""` -/
def sfyOptX : Option Node → Toks
  | none => []
  | some n => orX (sfy n)

/-- list/tuple/set items: each through `stringify` -/
def sfyItems : List Node → List Toks
  | [] => []
  | x :: xs => orX (sfy x) :: sfyItems xs

def sfyDict : List (Option Node × Node) → List Toks
  | [] => []
  | (some k, v) :: xs => (orX (sfy k) ++ [.t ":", .sp] ++ orX (sfy v)) :: sfyDict xs
  | (none, v) :: xs => (.t "**" :: orX (sfy v)) :: sfyDict xs

/-- call arguments: each through `_stringify` -/
def sfyArgs : List (ArgKind × Str × Node) → Option (List Toks)
  | [] => some []
  | (k, nm, a) :: xs =>
    match sfy a, sfyArgs xs with
    | some t, some ts =>
      some ((match k with
        | .named => [.name nm, .t "="] ++ t
        | .star => .t "*" :: t
        | .star2 => .t "**" :: t
        | _ => t) :: ts)
    | _, _ => none

def sfyCmp : List (CmpOp × Node) → Option Toks
  | [] => some []
  | (o, e) :: xs =>
    match sfy e, sfyCmp xs with
    | some t, some ts => some ([.sp, .t o.text, .sp] ++ t ++ ts)
    | _, _ => none

/-- characters that mean the same raw, inside an f-string's format spec, as they do in the value -/
def plainSpecChar (c : Char) : Bool :=
  32 ≤ c.toNat && c.toNat < 127 && c ≠ '\\' && c ≠ '"' && c ≠ '\'' && c ≠ '{' && c ≠ '}'

/-- `get_fstring_parts(CallExpr(callee, args))`, fused with the printing of the parts -/
def fstrCall : Node → List (ArgKind × Str × Node) → FRes
  | .member (.str v) a, args =>
    if v = fmtFormat ∧ a = sFormat then
      match args with
      | [(.pos, _, arg), (.pos, _, .str fmt)] =>
        .isF ((sfy arg).map (fun t =>
          [.t "{"] ++ t ++ (if fmt.isEmpty then [] else if fmt.all plainSpecChar then [.t ":", .fspec fmt] else [.t ":", .flit fmt false]) ++ [.t "}"]))
      | _ => .notF
    else if v = [] ∧ a = sJoin then
      match args with
      | [(.pos, _, .list items)] =>
        match fstrItems items with
        | some (true, body) => .isF body
        | _ => .notF
      | _ => .notF
    else .notF
  | _, _ => .notF

/-- the loop over the items of the joined list -/
def fstrItems : List Node → Option (Bool × Option Toks)
  | [] => some (false, some [])
  | .str v :: rest => consPart false (some [.flit v false]) (fstrItems rest)
  | .call f args :: rest =>
    match fstrCall f args with
    | .notF => none
    | .isF body => consPart true body (fstrItems rest)
  | _ :: _ => none
end

/-- `stringify`: `_stringify`, with `ValueError` turned into the placeholder `x` -/
def stringify (n : Node) : Toks := orX (sfy n)

/-- `slice_expr_to_slice_call` (argument: the three children of the `SliceExpr`) -/
def sliceCall (b e s : Option Node) : Toks :=
  let part (o : Option Node) : Toks := match o with | some n => stringify n | none => [.name "None".toList]
  [.name "slice".toList, .t "("]
    ++ commaSep ([part b, part e] ++ (match s with | some n => [stringify n] | none => []))
    ++ [.t ")"]

mutual
/-- the statement cases of `_stringify` -/
def sfyStmt : Stmt → Option Toks
  | .assign [lhs] r => some (stringify lhs ++ [.sp, .t "=", .sp] ++ stringify r)
  | .assign _ _ => none
  | .ifS [c] [[s]] false =>
    match sfy c, sfyStmt s with
    | some a, some b => some ([.t "if", .sp] ++ a ++ [.t ":", .sp] ++ b)
    | _, _ => none
  | .ifS _ _ _ => none
  | .forS i e [s] false false =>
    match sfy i, sfy e, sfyStmt s with
    | some a, some b, some c => some ([.t "for", .sp] ++ a ++ [.sp, .t "in", .sp] ++ b ++ [.t ":", .sp] ++ c)
    | _, _, _ => none
  | .forS _ _ _ _ _ => none
  | .del e => (sfy e).map (fun t => [.t "del", .sp] ++ t)
  | .expr e => sfy e
  | .other => none
end

/-! ### what mypy's parser does to f-strings -/

/-- `visit_FormattedValue`: `"{" + conv + ":{}}".format(value, spec)` -/
def formatCall (e : Node) (conv : Option Char) (spec : Str) : Node :=
  .call (.member (.str (['{'] ++ (match conv with | some c => ['!', c] | none => []) ++ ":{}}".toList)) sFormat)
    [(.pos, [], e), (.pos, [], .str spec)]

/-- `visit_JoinedStr` -/
def joinForm : List Node → Node
  | [] => .str []
  | [p] => p
  | ps => .call (.member (.str []) sJoin) [(.pos, [], .list ps)]

mutual
def desugar : Node → Node
  | .fstr parts => joinForm (desugarL parts)
  | .ffield e conv spec => formatCall (desugar e) conv spec
  | .member e a => .member (desugar e) a
  | .dict items => .dict (desugarD items)
  | .tuple items => .tuple (desugarL items)
  | .list items => .list (desugarL items)
  | .set items => .set (desugarL items)
  | .call f args => .call (desugar f) (desugarA args)
  | .index b i => .index (desugar b) (desugar i)
  | .slice b e s => .slice (desugarO b) (desugarO e) (desugarO s)
  | .op o l r => .op o (desugar l) (desugar r)
  | .cmp f rest => .cmp (desugar f) (desugarC rest)
  | .unary o e => .unary o (desugar e)
  | .lambda ps b => .lambda ps (desugarO b)
  | .cond t c e => .cond (desugar t) (desugar c) (desugar e)
  | .await e => .await (desugar e)
  | .walrus l r => .walrus (desugar l) (desugar r)
  | .star e => .star (desugar e)
  | n => n
def desugarL : List Node → List Node
  | [] => []
  | x :: xs => desugar x :: desugarL xs
def desugarO : Option Node → Option Node
  | none => none
  | some x => some (desugar x)
def desugarD : List (Option Node × Node) → List (Option Node × Node)
  | [] => []
  | (k, v) :: xs => (desugarO k, desugar v) :: desugarD xs
def desugarA : List (ArgKind × Str × Node) → List (ArgKind × Str × Node)
  | [] => []
  | (k, n, a) :: xs => (k, n, desugar a) :: desugarA xs
def desugarC : List (CmpOp × Node) → List (CmpOp × Node)
  | [] => []
  | (o, e) :: xs => (o, desugar e) :: desugarC xs
end

/-! ### precedence levels

0 walrus · 1 lambda · 2 conditional · 3 or · 4 and · 5 not · 6 comparison · 7 `|` · 8 `^` · 9 `&` · 10 shifts ·
11 additive · 12 multiplicative · 13 unary · 14 power · 15 await · 16 primary · 17 atom -/

def BinOp.prec : BinOp → Nat
  | .or_ => 3 | .and_ => 4 | .bitor => 7 | .bitxor => 8 | .bitand => 9 | .lshift | .rshift => 10
  | .add | .sub => 11 | .mul | .div | .floordiv | .mod | .matmul => 12 | .pow => 14

/-- level required of the left operand. `and`/`or` chains are right-nested by mypy (`a or b or c` is
    `or a (or b c)`), every other operator is left-associative, `**` takes an await-primary on the left -/
def BinOp.lhs : BinOp → Nat
  | .or_ => 4 | .and_ => 5 | .pow => 15 | o => o.prec

def BinOp.rhs : BinOp → Nat
  | .or_ => 3 | .and_ => 4 | .pow => 13 | o => o.prec + 1

def UnOp.prec : UnOp → Nat
  | .not_ => 5 | _ => 13

def Node.prec : Node → Nat
  | .walrus .. => 0
  | .lambda .. => 1
  | .cond .. => 2
  | .op o _ _ => o.prec
  | .unary o _ => o.prec
  | .cmp .. => 6
  | .await _ => 15
  | .member .. | .call .. | .index .. => 16
  | .star _ | .slice .. | .ffield .. => 0
  | _ => 17

/-! ### the reference printer -/

/-- parenthesise iff the child's precedence is below the level its position requires -/
def wrap (level : Nat) (p : Nat) (ts : Toks) : Toks :=
  if p < level then [.t "("] ++ ts ++ [.t ")"] else ts

def hasBrace (v : Str) : Bool := v.any (fun c => c = '{' || c = '}')

def startsWithBrace : Toks → Bool
  | .t s :: _ => s = "{"
  | _ => false

/-- a pure-digit literal directly before `.` would be read as a float (`1.real`) -/
def isIntLit : Node → Bool
  | .int _ => true
  | _ => false

def isSliceB : Node → Bool
  | .slice .. => true
  | _ => false

mutual
/-- `pr e`: the text of `e` without outer parentheses; children via `wrap` -/
def pr : Node → Toks
  | .name s => [.name s]
  | .member e a => (if isIntLit e then lparen ++ pr e ++ rparen else wrap 16 e.prec (pr e)) ++ [.t ".", .name a]
  | .int v => [.num (intChars v)]
  | .float s => [.num s]
  | .complex s => [.num s]
  | .str v => [.str v]
  | .bytes v => [.bytes v]
  | .ellipsis => [.t "..."]
  | .dict items => [.t "{"] ++ commaSep (prDict items) ++ [.t "}"]
  | .tuple items => [.t "("] ++ commaSep (prItems items) ++ (if items.length = 1 then [.t ","] else []) ++ [.t ")"]
  | .list items => [.t "["] ++ commaSep (prItems items) ++ [.t "]"]
  | .set items => [.t "{"] ++ commaSep (prItems items) ++ [.t "}"]
  | .call f args => wrap 16 f.prec (pr f) ++ [.t "("] ++ commaSep (prArgs args) ++ [.t ")"]
  | .index b i => wrap 16 b.prec (pr b) ++ [.t "["] ++ prIndex i ++ [.t "]"]
  | .slice b e s => prOpt b ++ [.t ":"] ++ prOpt e ++ (match s with | some s => .t ":" :: wrap 1 s.prec (pr s) | none => [])
  | .op o l r => wrap o.lhs l.prec (pr l) ++ [.sp, .t o.text, .sp] ++ wrap o.rhs r.prec (pr r)
  | .cmp f rest => wrap 7 f.prec (pr f) ++ prCmp rest
  | .unary o e => (if o = .not_ then [.t o.text, .sp] else [.t o.text]) ++ wrap o.prec e.prec (pr e)
  | .lambda ps b =>
    [.t "lambda"] ++ (if ps.isEmpty then [] else .sp :: commaSep (ps.map (fun p => [.name p.1]))) ++ [.t ":", .sp]
      ++ prOpt b
  | .cond t c e =>
    wrap 3 t.prec (pr t) ++ [.sp, .t "if", .sp] ++ wrap 3 c.prec (pr c) ++ [.sp, .t "else", .sp] ++ wrap 1 e.prec (pr e)
  | .await e => [.t "await", .sp] ++ wrap 16 e.prec (pr e)
  | .walrus l r => pr l ++ [.sp, .t ":=", .sp] ++ wrap 1 r.prec (pr r)
  | .star e => .t "*" :: wrap 7 e.prec (pr e)
  | .fstr parts => [.t "f\""] ++ prParts parts ++ [.t "\""]
  | .ffield e conv spec =>
    [.t "{"] ++ (if startsWithBrace (wrap 3 e.prec (pr e)) then [.sp] else []) ++ wrap 3 e.prec (pr e)
      ++ (match conv with | some c => [.t (String.ofList ['!', c])] | none => [])
      ++ (if spec.isEmpty then [] else if spec.all plainSpecChar then [.t ":", .fspec spec] else [.t ":", .flit spec false])
      ++ [.t "}"]
  | .other i => [.hole i]

/-- an optional slice bound / lambda body, at expression level -/
def prOpt : Option Node → Toks
  | none => []
  | some e => wrap 1 e.prec (pr e)

/-- display items: `*e` or a (named) expression -/
def prItems : List Node → List Toks
  | [] => []
  | x :: xs => wrap 0 x.prec (pr x) :: prItems xs

def prDict : List (Option Node × Node) → List Toks
  | [] => []
  | (some k, v) :: xs => (wrap 1 k.prec (pr k) ++ [.t ":", .sp] ++ wrap 1 v.prec (pr v)) :: prDict xs
  | (none, v) :: xs => (.t "**" :: wrap 7 v.prec (pr v)) :: prDict xs

def prArgs : List (ArgKind × Str × Node) → List Toks
  | [] => []
  | (k, nm, a) :: xs =>
    (match k with
      | .named => [.name nm, .t "="] ++ wrap 1 a.prec (pr a)
      | .star => .t "*" :: wrap 1 a.prec (pr a)
      | .star2 => .t "**" :: wrap 1 a.prec (pr a)
      | _ => wrap 0 a.prec (pr a)) :: prArgs xs

def prCmp : List (CmpOp × Node) → Toks
  | [] => []
  | (o, e) :: xs => [.sp, .t o.text, .sp] ++ wrap 7 e.prec (pr e) ++ prCmp xs

/-- the subscript: a tuple is printed in parentheses (as `_stringify` does; same tree) unless it holds a slice -/
def prIndex : Node → Toks
  | .tuple items =>
    if items.any isSliceB then commaSep (prItems items) ++ (if items.length = 1 then [.t ","] else [])
    else [.t "("] ++ commaSep (prItems items) ++ (if items.length = 1 then [.t ","] else []) ++ [.t ")"]
  | e => pr e

def prParts : List Node → Toks
  | [] => []
  | .str v :: rest => .flit v (hasBrace v) :: prParts rest
  | p :: rest => pr p ++ prParts rest
end

/-- the reference printer at top level (a bare walrus needs parentheses there) -/
def ppRef (e : Node) : Toks := wrap 1 e.prec (pr e)

/-! ### which trees the Python parser can produce (`wf`), and on which of them `_stringify` is right (`safe`) -/

def isIdentStart (c : Char) : Bool := c.isAlpha || c = '_' || 128 ≤ c.toNat
def isIdentChar (c : Char) : Bool := isIdentStart c || c.isDigit

def keywords : List Str :=
  ["False", "None", "True", "and", "as", "assert", "async", "await", "break", "class", "continue", "def", "del",
   "elif", "else", "except", "finally", "for", "from", "global", "if", "import", "in", "is", "lambda", "nonlocal",
   "not", "or", "pass", "raise", "return", "try", "while", "with", "yield"].map String.toList

def constNames : List Str := ["False", "None", "True"].map String.toList

/-- an identifier that is not a keyword (ASCII rules; every non-ASCII character is taken for a letter) -/
def isIdent (s : Str) : Bool :=
  (match s with
    | [] => false
    | c :: cs => isIdentStart c && cs.all isIdentChar) && !keywords.contains s

/-- what a `NameExpr` can be called: an identifier, or one of the three constants mypy keeps as names -/
def isName (s : Str) : Bool := isIdent s || constNames.contains s

/-- a float/complex literal as `str()` spells a finite non-negative value: starts with a digit, made of
    digits `.` `e` `+` `-` `j`, and not a bare run of digits -/
def isNumText (s : Str) : Bool :=
  (match s with
    | [] => false
    | c :: _ => c.isDigit) && s.all (fun c => c.isDigit || c = '.' || c = 'e' || c = '+' || c = '-' || c = 'j')
    && !s.all Char.isDigit

def isConv (c : Char) : Bool := c = 'r' || c = 's' || c = 'a'

def isStrB : Node → Bool
  | .str _ => true
  | _ => false

def isFieldB : Node → Bool
  | .ffield .. => true
  | _ => false

/-- no two adjacent literal chunks (the parser merges them) -/
def noAdjLits : List Node → Bool
  | a :: b :: rest => !(isStrB a && isStrB b) && noAdjLits (b :: rest)
  | _ => true

/-- positional and `*` arguments first, then keyword and `**` arguments (the order mypy stores) -/
def argsOrdered : List ArgKind → Bool
  | [] => true
  | .pos :: rest | .star :: rest => argsOrdered rest
  | .named :: rest | .star2 :: rest => rest.all (fun k => k = .named || k = .star2)
  | _ => false

mutual
/-- trees the Python parser produces (with f-strings as written), over the node kinds of this model -/
def wf : Node → Bool
  | .name s => isName s
  | .member e a => wf e && isIdent a
  | .int v => decide (0 ≤ v)
  | .float s => isNumText s
  | .complex s => isNumText s
  | .str _ => true
  | .bytes _ => true
  | .ellipsis => true
  | .dict items => wfDict items
  | .tuple items => wfItems false items
  | .list items => wfItems false items
  | .set items => !items.isEmpty && wfItems false items
  | .call f args => wf f && wfArgs args && argsOrdered (args.map (·.1))
  | .index b i => wf b && wfIndex i
  | .slice .. => false
  | .op _ l r => wf l && wf r
  | .cmp f rest => wf f && !rest.isEmpty && wfCmp rest
  | .unary _ e => wf e
  | .lambda ps b => ps.all (fun p => p.2 = .pos && isIdent p.1) && (match b with | some e => wf e | none => false)
  | .cond t c e => wf t && wf c && wf e
  | .await e => wf e
  | .walrus l r => (match l with | .name s => isIdent s | _ => false) && wf r
  | .star _ => false
  | .fstr parts => wfParts parts && parts.any isFieldB && noAdjLits parts
  | .ffield .. => false
  | .other _ => false

def wfOpt : Option Node → Bool
  | none => true
  | some e => wf e

/-- display / subscript items: `*e`, an expression, or (`sl`) a slice -/
def wfItems (sl : Bool) : List Node → Bool
  | [] => true
  | .star e :: rest => wf e && wfItems sl rest
  | .slice b e s :: rest => sl && wfOpt b && wfOpt e && wfOpt s && wfItems sl rest
  | x :: rest => wf x && wfItems sl rest

def wfDict : List (Option Node × Node) → Bool
  | [] => true
  | (k, v) :: rest => wfOpt k && wf v && wfDict rest

def wfArgs : List (ArgKind × Str × Node) → Bool
  | [] => true
  | (k, nm, a) :: rest =>
    (match k with
      | .pos | .star | .star2 => true
      | .named => isIdent nm
      | _ => false) && wf a && wfArgs rest

def wfCmp : List (CmpOp × Node) → Bool
  | [] => true
  | (_, e) :: rest => wf e && wfCmp rest

def wfIndex : Node → Bool
  | .slice b e s => wfOpt b && wfOpt e && wfOpt s
  | .tuple items => wfItems (items.any isSliceB) items
  | e => wf e

def wfParts : List Node → Bool
  | [] => true
  | .str v :: rest => !v.isEmpty && wfParts rest
  | .ffield e conv spec :: rest =>
    wf e && (match conv with | some c => isConv c | none => true) && !hasBrace spec && wfParts rest
  | _ :: _ => false
end

/-- callee shapes `get_fstring_parts` looks for -/
def looksLikeFString : Node → Bool
  | .member (.str v) a => (v = fmtFormat && a = sFormat) || (v = [] && a = sJoin)
  | _ => false

def isStarB : Node → Bool
  | .star _ => true
  | _ => false

mutual
/-- `safe e`: a sufficient structural condition for `_stringify` to print `e` exactly as the reference printer
    does. Every child has at least the precedence its position requires (so no parentheses are missing), nothing
    `_stringify` has no case for occurs, no tuple subscript holds a slice, no call has the shape of a desugared
    f-string, and every f-string is made of brace-free chunks and fields without conversion whose spec is plain -/
def safe : Node → Bool
  | .name _ | .int _ | .float _ | .complex _ | .str _ | .bytes _ => true
  | .member e _ => safe e && !isIntLit e && 16 ≤ e.prec
  | .ellipsis => false
  | .dict items => safeDict items
  | .tuple items => safeItems items
  | .list items => safeItems items
  | .set items => safeItems items
  | .call f args => safe f && 16 ≤ f.prec && !looksLikeFString f && safeArgs args
  | .index b i => safe b && 16 ≤ b.prec && safeIndex i
  | .slice .. => false
  | .op o l r => safe l && safe r && o.lhs ≤ l.prec && o.rhs ≤ r.prec
  | .cmp f rest => safe f && 7 ≤ f.prec && safeCmp rest
  | .unary o e => safe e && o.prec ≤ e.prec
  | .lambda _ b => (match b with | some e => safe e && 1 ≤ e.prec | none => false)
  | .cond t c e => safe t && safe c && safe e && 3 ≤ t.prec && 3 ≤ c.prec && 1 ≤ e.prec
  | .await e => safe e && 16 ≤ e.prec
  | .walrus _ r => safe r && 1 ≤ r.prec
  | .star _ => false
  | .fstr parts => safeParts parts
  | .ffield .. => false
  | .other _ => false

def safeOpt : Option Node → Bool
  | none => true
  | some e => safe e && 1 ≤ e.prec

def safeItems : List Node → Bool
  | [] => true
  | x :: rest => safe x && safeItems rest

def safeDict : List (Option Node × Node) → Bool
  | [] => true
  | (some k, v) :: rest => safe k && 1 ≤ k.prec && safe v && 1 ≤ v.prec && safeDict rest
  | (none, v) :: rest => safe v && 7 ≤ v.prec && safeDict rest

def safeArgs : List (ArgKind × Str × Node) → Bool
  | [] => true
  | (k, _, a) :: rest => safe a && (k = .pos || 1 ≤ a.prec) && safeArgs rest

def safeCmp : List (CmpOp × Node) → Bool
  | [] => true
  | (_, e) :: rest => safe e && 7 ≤ e.prec && safeCmp rest

def safeIndex : Node → Bool
  | .slice b e s => safeOpt b && safeOpt e && safeOpt s
  | .tuple items => !items.any isSliceB && safeItems items
  | e => safe e

def safeParts : List Node → Bool
  | [] => true
  | .str v :: rest => !hasBrace v && safeParts rest
  | .ffield e conv spec :: rest =>
    safe e && 3 ≤ e.prec && conv.isNone && spec.all plainSpecChar && !startsWithBrace (pr e) && safeParts rest
  | _ :: _ => false
end

/-! ### message templates of the checks

A template is a tree whose holes are `.other i`; the text of the template is `pr` of it (hole `i` prints as the
token `.hole i`), a check fills hole `i` with the text `stringify` gave it for the operand it found there. -/

mutual
/-- put the tree `σ i` into hole `i` (holes are expression positions: not a walrus target, not an f-string part) -/
def fillN (σ : Nat → Node) : Node → Node
  | .other i => σ i
  | .member e a => .member (fillN σ e) a
  | .dict items => .dict (fillND σ items)
  | .tuple items => .tuple (fillNL σ items)
  | .list items => .list (fillNL σ items)
  | .set items => .set (fillNL σ items)
  | .call f args => .call (fillN σ f) (fillNA σ args)
  | .index b i => .index (fillN σ b) (fillN σ i)
  | .slice b e s => .slice (fillNO σ b) (fillNO σ e) (fillNO σ s)
  | .op o l r => .op o (fillN σ l) (fillN σ r)
  | .cmp f rest => .cmp (fillN σ f) (fillNC σ rest)
  | .unary o e => .unary o (fillN σ e)
  | .lambda ps b => .lambda ps (fillNO σ b)
  | .cond t c e => .cond (fillN σ t) (fillN σ c) (fillN σ e)
  | .await e => .await (fillN σ e)
  | .walrus l r => .walrus l (fillN σ r)
  | .star e => .star (fillN σ e)
  | .fstr parts => .fstr (fillNP σ parts)
  | .ffield e c s => .ffield (fillN σ e) c s
  | n => n
def fillNL (σ : Nat → Node) : List Node → List Node
  | [] => []
  | x :: xs => fillN σ x :: fillNL σ xs
def fillNO (σ : Nat → Node) : Option Node → Option Node
  | none => none
  | some x => some (fillN σ x)
def fillND (σ : Nat → Node) : List (Option Node × Node) → List (Option Node × Node)
  | [] => []
  | (k, v) :: xs => (fillNO σ k, fillN σ v) :: fillND σ xs
def fillNA (σ : Nat → Node) : List (ArgKind × Str × Node) → List (ArgKind × Str × Node)
  | [] => []
  | (k, n, a) :: xs => (k, n, fillN σ a) :: fillNA σ xs
def fillNC (σ : Nat → Node) : List (CmpOp × Node) → List (CmpOp × Node)
  | [] => []
  | (o, e) :: xs => (o, fillN σ e) :: fillNC σ xs
def fillNP (σ : Nat → Node) : List Node → List Node
  | [] => []
  | .ffield e c s :: xs => .ffield (fillN σ e) c s :: fillNP σ xs
  | p :: xs => p :: fillNP σ xs
end

def fillTok (f : Nat → Toks) : Tok → Toks
  | .hole i => f i
  | t => [t]

/-- put the text `f i` where hole `i` is printed -/
def fillT (f : Nat → Toks) (ts : Toks) : Toks := ts.flatMap (fillTok f)

/-- what a hole demands of the fragment put into it: the level it must derive at, whether it must not be a bare
    integer literal (`1.real`), whether its text must not begin with `{` (first thing in an f-string field) -/
structure Req where
  hole : Nat
  level : Nat
  notInt : Bool
  noBrace : Bool
  deriving DecidableEq, Repr

def isHoleB : Node → Bool
  | .other _ => true
  | _ => false

mutual
/-- the demands of the holes of a template (level 18 — no text derives there — marks a template shape that is not
    supported: an f-string field whose expression is neither a hole nor hole-free is not needed by any check); `ℓ ni nb` describe the position of the node itself -/
def reqs (ℓ : Nat) (ni nb : Bool) : Node → List Req
  | .other i => [⟨i, ℓ, ni, nb⟩]
  | .member e _ => reqs 16 true false e
  | .dict items => reqsD items
  | .tuple items => reqsL items
  | .list items => reqsL items
  | .set items => reqsL items
  | .call f args => reqs 16 false false f ++ reqsA args
  | .index b i => reqs 16 false false b ++ reqsI i
  | .slice b e s => reqsO b ++ reqsO e ++ reqsO s
  | .op o l r => reqs o.lhs false false l ++ reqs o.rhs false false r
  | .cmp f rest => reqs 7 false false f ++ reqsC rest
  | .unary o e => reqs o.prec false false e
  | .lambda _ b => reqsO b
  | .cond t c e => reqs 3 false false t ++ reqs 3 false false c ++ reqs 1 false false e
  | .await e => reqs 16 false false e
  | .walrus _ r => reqs 1 false false r
  | .star e => reqs 7 false false e
  | .fstr parts => reqsP parts
  | .ffield e _ _ => if isHoleB e then reqs 3 false true e else [⟨0, 18, false, false⟩]
  | _ => []
def reqsO : Option Node → List Req
  | none => []
  | some e => reqs 1 false false e
def reqsL : List Node → List Req
  | [] => []
  | x :: xs => reqs 0 false false x ++ reqsL xs
def reqsD : List (Option Node × Node) → List Req
  | [] => []
  | (some k, v) :: xs => reqs 1 false false k ++ reqs 1 false false v ++ reqsD xs
  | (none, v) :: xs => reqs 7 false false v ++ reqsD xs
def reqsA : List (ArgKind × Str × Node) → List Req
  | [] => []
  | (k, _, a) :: xs => reqs (if k = .pos then 0 else 1) false false a ++ reqsA xs
def reqsC : List (CmpOp × Node) → List Req
  | [] => []
  | (_, e) :: xs => reqs 7 false false e ++ reqsC xs
def reqsI : Node → List Req
  | .tuple items => reqsL items
  | i => reqs 0 false false i
def reqsP : List Node → List Req
  | [] => []
  | p :: xs => reqs 0 false false p ++ reqsP xs
end

/-- stand-in for a hole when a template's own structure is checked -/
def dummy : Node := .name ['h']

/-- the template's own structure is well-formed (holes taken for identifiers) -/
def wfT (T : Node) : Bool := wf (fillN (fun _ => dummy) T)

/-- one quoted fragment of a check's message, as a tree with holes -/
structure Template where
  check : String
  /-- `old`: the code being replaced, `new`: the proposed replacement -/
  role : String
  shape : Node
  deriving Repr

namespace T
def h (i : Nat) : Node := .other i
def nm (s : String) : Node := .name s.toList
def att (e : Node) (a : String) : Node := .member e a.toList
def call (f : Node) (args : List Node) : Node := .call f (args.map (fun a => (.pos, [], a)))
def meth (e : Node) (a : String) (args : List Node) : Node := call (att e a) args
def sliceAll : Node := .slice none none none
end T
open T in
/-- the message templates of the most frequently reported checks that quote operands (27 checks). A check whose
    OLD text is `stringify(node)` of the whole node is listed with the shape of that node. -/
def templates : List Template := [
  ⟨"FURB145", "old", .index (h 0) sliceAll⟩,                                   -- `{0}[:]`
  ⟨"FURB145", "new", meth (h 0) "copy" []⟩,                                     -- `{0}.copy()`
  ⟨"FURB110", "old", .cond (h 0) (h 0) (h 1)⟩,                                  -- `{0} if {0} else {1}`
  ⟨"FURB110", "new", .op .or_ (h 0) (h 1)⟩,                                     -- `{0} or {1}`
  ⟨"FURB143", "old", .op .or_ (h 0) (h 1)⟩,
  ⟨"FURB143", "new", h 0⟩,
  ⟨"FURB129", "old", meth (h 0) "readlines" []⟩,
  ⟨"FURB129", "new", h 0⟩,
  ⟨"FURB185", "old", meth (h 0) "copy" []⟩,
  ⟨"FURB185", "new", h 0⟩,
  ⟨"FURB131", "new", meth (h 0) "clear" []⟩,
  ⟨"FURB115", "new", .unary .not_ (h 0)⟩,                                       -- `not {0}`
  ⟨"FURB115", "new", h 0⟩,
  ⟨"FURB149", "new", .unary .not_ (h 0)⟩,
  ⟨"FURB149", "new", h 0⟩,
  ⟨"FURB166", "old", call (nm "int") [.index (h 0) (.slice (some (.int 2)) none none), h 1]⟩,   -- `int({0}[2:], {1})`
  ⟨"FURB166", "new", call (nm "int") [h 0, .int 0]⟩,
  ⟨"FURB169", "old", .cmp (call (nm "type") [h 0]) [(.is_, call (nm "type") [nm "None"])]⟩,
  ⟨"FURB169", "new", .cmp (h 0) [(.is_, nm "None")]⟩,                           -- `{0} is None`
  ⟨"FURB169", "old", .cmp (call (nm "type") [h 0]) [(.isNot, call (nm "type") [nm "None"])]⟩,
  ⟨"FURB169", "new", .cmp (h 0) [(.isNot, nm "None")]⟩,
  ⟨"FURB171", "old", .cmp (h 0) [(.in_, .tuple [h 1])]⟩,
  ⟨"FURB171", "new", .cmp (h 0) [(.eq, h 1)]⟩,                                  -- `{0} == {1}`
  ⟨"FURB183", "old", .fstr [.ffield (h 0) none []]⟩,                            -- `f"{{0}}"`
  ⟨"FURB183", "new", call (nm "str") [h 0]⟩,
  ⟨"FURB116", "new", .fstr [.ffield (h 0) none ['b']]⟩,                         -- `f"{{0}:b}"`
  ⟨"FURB123", "old", call (h 1) [h 0]⟩,                                        -- `{1}({0})`, `{1}` a builtin's name
  ⟨"FURB123", "new", h 0⟩,
  ⟨"FURB123", "new", meth (h 0) "copy" []⟩,
  ⟨"FURB122", "new", meth (h 0) "writelines" [h 1]⟩,
  ⟨"FURB132", "new", meth (h 0) "discard" [h 1]⟩,
  ⟨"FURB142", "new", meth (h 0) "update" [h 1]⟩,
  ⟨"FURB142", "new", meth (h 0) "difference_update" [h 1]⟩,
  ⟨"FURB113", "new", meth (h 0) "extend" [.tuple [.ellipsis, .ellipsis]]⟩,
  ⟨"FURB187", "new", meth (h 0) "reverse" []⟩,
  ⟨"FURB186", "new", meth (h 0) "sort" []⟩,
  ⟨"FURB181", "old", meth (meth (h 0) "digest" []) "hex" []⟩,
  ⟨"FURB181", "new", meth (h 0) "hexdigest" []⟩,
  ⟨"FURB173", "new", .op .bitor (h 0) (h 1)⟩,                                   -- `{0} | {1}`
  ⟨"FURB117", "old", call (nm "open") [call (nm "str") [h 0]]⟩,                 -- `open(str({0}))`
  ⟨"FURB117", "old", call (nm "open") [h 0]⟩,
  ⟨"FURB117", "new", meth (h 0) "open" []⟩,
  ⟨"FURB164", "new", call (h 0) [h 1]⟩,                                         -- `{0}({1})`: the hole is a callee
  ⟨"FURB192", "old", .index (call (nm "sorted") [h 0]) (.int 0)⟩,
  ⟨"FURB192", "old", .index (call (nm "sorted") [h 0]) (.unary .neg (.int 1))⟩,
  ⟨"FURB192", "new", call (nm "min") [h 0]⟩,
  ⟨"FURB192", "new", call (nm "max") [h 0]⟩,
  ⟨"FURB188", "new", meth (h 0) "removesuffix" [h 1]⟩,
  ⟨"FURB188", "new", meth (h 0) "removeprefix" [h 1]⟩,
  ⟨"FURB130", "new", .cmp (nm "_") [(.in_, h 0)]⟩,                              -- `in {0}` (a clause)
  ⟨"FURB135", "new", meth (h 0) "values" []⟩,                                   -- `for … in {0}.values()`
  ⟨"FURB118", "new", call (att (nm "operator") "itemgetter") [h 0]⟩
]

/-- what each hole of each template demands (computed), as `(check, role, [(hole, level, notInt, noBrace)])` -/
def templateReqs : List (String × String × List Req) :=
  templates.map (fun t => (t.check, t.role, reqs 1 false false t.shape))

/-- does the operand `e`, printed by `stringify`, meet the demand `r`? (decidable sufficient condition) -/
def meetsB (r : Req) (e : Node) : Bool :=
  wf e && safe e && decide (r.level ≤ e.prec) && decide (r.level ≤ 17) && (!r.notInt || !isIntLit e)
    && (!r.noBrace || !startsWithBrace (pr e))

end RefurbVerif.Sfy
