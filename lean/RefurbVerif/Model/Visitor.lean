/-
Model of how RefurbVisitor + load_checks + the tail of run_refurb combine the checks
(refurb/visitor/visitor.py, refurb/loader.py:161-180, refurb/main.py:194-232).

A check is a state machine of its own: `step st node` returns its new private state and the
diagnostics it appends for that node.  The visitor hands every visited node to every loaded check,
in load order, and appends what they return to one list.
-/
import RefurbVerif.Model.Report

namespace RefurbVerif

structure CheckM where
  pfx : Str
  code : Nat
  /-- private state of the check (module-level caches, id-sets, ...) encoded as data -/
  st : List Nat
  /-- what the check does with a node: new private state, diagnostics appended -/
  step : List Nat → (String × Nat) → List Nat × List Diag

def CheckM.key (c : CheckM) : Str × Nat := (c.pfx, c.code)
def Diag.key (d : Diag) : Str × Nat := (d.pfx, d.code)

/-- one visited node: every loaded check runs, in load order; the diagnostics are concatenated -/
def stepAll : List CheckM → (String × Nat) → List CheckM × List Diag
  | [], _ => ([], [])
  | c :: cs, n =>
    let r := c.step c.st n
    let rest := stepAll cs n
    ({ c with st := r.1 } :: rest.1, r.2 ++ rest.2)

/-- the whole traversal: `visitor.errors` after visiting the nodes in order -/
def visitAll : List CheckM → List (String × Nat) → List Diag
  | _, [] => []
  | cs, n :: ns =>
    let r := stepAll cs n
    r.2 ++ visitAll r.1 ns

/-- `run_refurb`'s result for one file: filter (noqa / amend), then stable sort -/
def reportOf (by_ : SortBy) (keep : Diag → Bool) (cs : List CheckM) (visits : List (String × Nat)) : List Item :=
  ssort (leItem by_) (((visitAll cs visits).filter keep).map Item.diag)

/-! ### Syntactic locality facts about a check module (regenerated: Generated/Locality.lean) -/

structure ModLocality where
  module : String
  /-- mutable containers imported from another check module (`module.NAME`) -/
  mutableImports : List String
  /-- assignment targets `x.attr = …` / `x[k] = …` whose root is neither `self` nor an object created in the function -/
  nodeWrites : List String
  /-- uses of the shared `errors` list other than append/extend or handing it to a helper -/
  errorsOtherUses : List String
  /-- diagnostics constructed from another module's Error class -/
  foreignErrorClasses : List String
  /-- informational: the module's own module-level mutable containers (private state, allowed) -/
  moduleState : List String
  deriving Repr, DecidableEq

/-- No check may write to a tree node.  (Until fix a45cc72 FURB120 filled in `Argument.initializer` on typeshed
    definitions and was allow-listed here on the argument that "the values written do not depend on the file being
    checked" — they did not, but WHETHER they had been written yet did: the report depended on the order of the files.) -/
def nodeWriteAllow : List String := []

/-- FURB120 compares `len(errors)` before and after its own inner loop: a delta, insensitive to what
    other checks appended earlier.  The allowance is for THAT use in THAT module only (module, source text of the use):
    any other look at the shared list (its truthiness, its tail, ...) is what lets one check's output depend on another's. -/
def errorsReadAllow : List (String × String) := [("refurb.checks.function.use_implicit_default", "len(errors)")]

/-- constant lookup tables that are shared but never mutated by either module (no store/method call on them) -/
def mutableImportAllow : List (String × String) := [
  ("refurb.checks.hashlib.simplify_ctor", "refurb.checks.hashlib.use_hexdigest.HASHLIB_ALGOS"),
  ("refurb.checks.readability.use_str_func", "refurb.checks.string.use_fstring_fmt.CONVERSIONS"),
  -- the visitor's method-name → node-class table: only iterated over
  ("refurb.checks.readability.no_len_cmp", "refurb.visitor.METHOD_NODE_MAPPINGS")]

end RefurbVerif
