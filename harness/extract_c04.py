"""Translator for C04: the child-edge table of refurb's traverser, by execution (harness/treeprobe.py)."""

from __future__ import annotations

import json
import shutil
import subprocess
from typing import Any

from . import core, extract
from .extract import HEADER, llist, lstr

_probe_cache: dict[str, Any] = {}


def probe_corpus() -> dict[str, Any]:
    """Run the tree probe (fresh process) on corpus/C04/*.py."""
    if "corpus" in _probe_cache:
        return _probe_cache["corpus"]
    files = sorted((core.VERIF / "corpus" / "C04").glob("*.py"))
    with core.scratch("rv-c04x-") as d:
        for f in files:
            shutil.copy(f, d / f.name)
        data = run_probe(d, [f.name for f in files])
    _probe_cache["corpus"] = data
    return data


def alias_fields() -> list[list[str]]:
    """the committed alias-field list, read from lean/RefurbVerif/Model/Tree.lean (single source of truth)"""
    import re

    text = (core.LEAN / "RefurbVerif" / "Model" / "Tree.lean").read_text()
    body = text[text.index("def aliasFields") :]
    body = body[: body.index("\n]")]
    return [[a, b] for a, b in re.findall(r'\("(\w+)",\s*"([\w.]+)"\)', body)]


def run_probe(cwd: Any, names: list[str], timeout: int = 900) -> dict[str, Any]:
    env = core.py_env()
    env["RV_ALIAS_FIELDS"] = json.dumps(alias_fields())
    env["PYTHONPATH"] = str(core.VERIF) + (":" + env["PYTHONPATH"] if env.get("PYTHONPATH") else "")
    p = subprocess.run([core.PY, "-m", "harness.treeprobe", "_probe.json", *names], cwd=cwd, capture_output=True, text=True, timeout=timeout, env=env)
    if p.returncode != 0:
        raise RuntimeError("tree probe failed: " + p.stderr[-3000:])
    import sys

    sys.setrecursionlimit(max(sys.getrecursionlimit(), 20000))  # the tree of a file with a long `a + b + c + ...` chain is deep
    text = (cwd / "_probe.json").read_text()
    try:
        return json.loads(text)
    except RecursionError:
        # the C scanner has its own fixed depth limit; the pure-Python one obeys sys.setrecursionlimit
        from json import decoder as _dec, scanner as _scan

        dec = json.JSONDecoder()
        dec.parse_string = _dec.py_scanstring
        dec.scan_once = _scan.py_make_scanner(dec)
        return dec.decode(text)


@extract.register("Edges")
def gen_edges() -> str:
    d = probe_corpus()
    if "error" in d:
        raise RuntimeError(f"probe: {d['error']}")
    edges = ["(%s, %s, %d, %d)" % (lstr(k), lstr(f), lo, hi) for k, f, lo, hi in d["refurb_edges"]]
    schema = ["(%s, %s)" % (lstr(k), lstr(f)) for k, f, _, _ in d["mypy_edges"]]
    dispatch: dict[str, set[str]] = {}
    for vs in d["visits"].values():
        for _id, kind, _l, _c, ty in vs:
            dispatch.setdefault(kind, set()).add(ty)
    disp = ["(%s, %s)" % (lstr(k), llist([lstr(t) for t in sorted(v)])) for k, v in sorted(dispatch.items())]
    shared = ["(%s, %s, %s)" % (lstr(a), lstr(b), lstr(c)) for a, b, c in d["shared_children"]]
    return (
        HEADER
        + "namespace RefurbVerif.Generated\n\n"
        + "/-- (node class, field, min, max): how many times refurb's visit method for that class handed a child stored in\n"
        + "    that field over to `accept`, over every occurrence in corpus/C04 (by execution, harness/treeprobe.py) -/\n"
        + "def refurbEdges : List (String × String × Nat × Nat) := [\n  " + ",\n  ".join(edges) + "\n]\n\n"
        + "/-- the child fields mypy's own traverser follows (read off mypy/traverser.py), restricted to those that held a\n"
        + "    child somewhere in the corpus -/\n"
        + "def refSchema : List (String × String) := [\n  " + ",\n  ".join(schema) + "\n]\n\n"
        + "/-- node class ↦ the subscribed node types whose checks were handed such a node -/\n"
        + "def dispatch : List (String × List String) := [\n  " + ",\n  ".join(disp) + "\n]\n\n"
        + "/-- (class, field₁, field₂): one child object stored in two fields of the same node -/\n"
        + "def sharedChildren : List (String × String × String) := %s\n\n" % llist(shared)
        + "def kindsSeen : List String := %s\n" % llist([lstr(k) for k in d["kinds_seen"]])
        + "\nend RefurbVerif.Generated\n"
    )
