/-
Model of `refurb gen` (refurb/gen.py) and of the part of the plugin loader that decides whether the
generated file is a usable check (refurb/loader.py: `get_error_class`, `extract_function_types`;
refurb/visitor/visitor.py: which visit methods hand a node to a subscribed check).

* `selected`, `groupByModule`, `buildImports`, `nextId`, `render`, `genMain`, `suffix`, `initFolders`
  mirror gen.py (`node_type_prompt`'s `sorted`, `build_imports`, `get_next_error_id … or 100`,
  `FILE_TEMPLATE.format`, `main`, `Path.suffix`, `folders_needing_init_file`).
* `tokens` / `read` are a token-level reading of a generated file: the `from m import a, b` lines, the
  class header, the `prefix`/`code` attributes, the parameters of `def check(...)` and the class
  patterns of the `case` arm.  The harness validates the reading against Python's own `ast` on every
  file `gen.main()` writes.
* `extractFunctionTypes` mirrors `loader.extract_function_types` on that reading; `getErrorClass`
  mirrors `loader.get_error_class`; `fireCount` is how often `RefurbVisitor` runs the check on a node
  of a given class.

Text is `List Char` (`Str`); the driver converts.  No proofs here.
-/
import RefurbVerif.Model.Report
import RefurbVerif.Model.Sort

namespace RefurbVerif
namespace Gen

/-- one row of `Generated/NodeTypes.lean`: an entry of `gen.NODES` -/
structure NodeType where
  /-- key of `gen.NODES` (= `cls.__name__`) -/
  name : String
  /-- `cls.__module__` -/
  module : String
  /-- `cls in loader.VALID_NODE_TYPES` -/
  valid : Bool
  /-- `getattr(importlib.import_module(module), name) is cls` -/
  importable : Bool
  /-- the `visit_*` key of `METHOD_NODE_MAPPINGS` -/
  method : String
  /-- offered node types that are proper base classes of `cls` (isinstance reaches them) -/
  supers : List String
  /-- offered node types whose visit method the base `TraverserVisitor.visit_<this>` calls on `self`
      (tabulated by running it on an exemplar with a recording visitor): a check subscribed to one
      of these is handed the same node again -/
  chainsTo : List String
  deriving Repr, DecidableEq

abbrev Table := List NodeType

def lookup (tbl : Table) (n : Str) : Option NodeType := tbl.find? (fun r => r.name.toList == n)

/-- `NODES[name].__module__` (`none` = `KeyError`) -/
def moduleOf? (tbl : Table) (n : Str) : Option Str := (lookup tbl n).map (·.module.toList)
def moduleOf (tbl : Table) (n : Str) : Str := (moduleOf? tbl n).getD []

/-- `sorted(fzf(...).splitlines())` -/
def selected (raw : List Str) : List Str := ssort leChars raw

/-! ### `build_imports` -/

/-- `modules[m].append(n)` on an insertion-ordered dict -/
def addTo (m n : Str) : List (Str × List Str) → List (Str × List Str)
  | [] => [(m, [n])]
  | (k, ns) :: rest => if k = m then (k, ns ++ [n]) :: rest else (k, ns) :: addTo m n rest

def groupByModule (modOf : Str → Str) (sel : List Str) : List (Str × List Str) :=
  sel.foldl (fun acc n => addTo (modOf n) n acc) []

/-- `sorted(modules.items(), key=itemgetter(0))` -/
def sortedGroups (modOf : Str → Str) (sel : List Str) : List (Str × List Str) :=
  ssort (fun a b => leChars a.1 b.1) (groupByModule modOf sel)

/-- `sep.join(parts)` -/
def joinStr (sep : Str) : List Str → Str
  | [] => []
  | [p] => p
  | p :: ps => p ++ sep ++ joinStr sep ps

def importLine (g : Str × List Str) : Str :=
  "from ".toList ++ g.1 ++ " import ".toList ++ joinStr ", ".toList g.2

def buildImports (modOf : Str → Str) (sel : List Str) : Str :=
  joinStr ['\n'] ((sortedGroups modOf sel).map importLine)

/-! ### `get_next_error_id(prefix) or 100` -/

/-- `highest = max(highest, id + 1)` over the modules whose error class has this prefix -/
def highest (ids : List (Str × Nat)) (pfx : Str) : Nat :=
  ids.foldl (fun h e => if e.1 = pfx then max h (e.2 + 1) else h) 0

def nextId (ids : List (Str × Nat)) (pfx : Str) : Nat :=
  if highest ids pfx = 0 then 100 else highest ids pfx

/-! ### `FILE_TEMPLATE.format(...)`, as lines -/

def acceptType (sel : List Str) : Str := joinStr " | ".toList sel
def pattern (sel : List Str) : Str := joinStr " | ".toList (sel.map (· ++ "()".toList))

def headLines : List Str := ["from dataclasses import dataclass".toList, []]

/-- the lines `{imports}` expands to (`"".split("\n") = [""]`) -/
def importLines (modOf : Str → Str) (sel : List Str) : List Str :=
  match sortedGroups modOf sel with
  | [] => [[]]
  | gs => gs.map importLine

def classLines : List Str := [
  [],
  "from refurb.error import Error".toList,
  [],
  [],
  "@dataclass".toList,
  "class ErrorInfo(Error):".toList,
  "    \"\"\"".toList,
  "    TODO: fill this in".toList,
  [],
  "    Bad:".toList,
  [],
  "    ```".toList,
  "    # TODO: fill this in".toList,
  "    ```".toList,
  [],
  "    Good:".toList,
  [],
  "    ```".toList,
  "    # TODO: fill this in".toList,
  "    ```".toList,
  "    \"\"\"".toList,
  []]

def prefixLine (pfx : Str) : Str := "    prefix = \"".toList ++ pfx ++ ['"']
def codeLine (id : Nat) : Str := "    code = ".toList ++ natChars id
def msgLines : List Str := ["    msg: str = \"Your message here\"".toList, [], []]
def defLine (sel : List Str) : Str :=
  "def check(node: ".toList ++ acceptType sel ++ ", errors: list[Error]) -> None:".toList
def matchLine : Str := "    match node:".toList
def caseLine (sel : List Str) : Str := "        case ".toList ++ pattern sel ++ [':']
def appendLine : Str := "            errors.append(ErrorInfo.from_node(node))".toList

def fileLines (modOf : Str → Str) (sel : List Str) (pfx : Str) (id : Nat) : List Str :=
  headLines ++ importLines modOf sel ++ classLines ++ [prefixLine pfx, codeLine id] ++ msgLines
    ++ [defLine sel, matchLine, caseLine sel, appendLine]

/-- every line followed by a newline -/
def unlines (ls : List Str) : Str := ls.flatMap (· ++ ['\n'])

/-- the text `gen.main()` writes -/
def render (modOf : Str → Str) (sel : List Str) (pfx : Str) (id : Nat) : Str :=
  unlines (fileLines modOf sel pfx id)

/-! ### `main`: suffix check, KeyError, `__init__.py` folders -/

/-- split at every occurrence of `x` (n occurrences give n+1 pieces) -/
def splitOn {α} [DecidableEq α] (x : α) : List α → List (List α)
  | [] => [[]]
  | a :: as =>
    match splitOn x as with
    | [] => [[a]]   -- unreachable
    | p :: ps => if a = x then [] :: p :: ps else (a :: p) :: ps

/-- path components as pathlib keeps them (`//` and `/./` collapse) -/
def parts (path : Str) : List Str := (splitOn '/' path).filter (fun p => p ≠ [] ∧ p ≠ ['.'])

def rfind (c : Char) (s : Str) : Option Nat :=
  match s.reverse.idxOf? c with
  | some i => some (s.length - 1 - i)
  | none => none

/-- `PurePath.suffix` (3.12): the final component from its last dot, unless the dot is first or last -/
def suffix (path : Str) : Str :=
  match (parts path).getLast? with
  | none => []
  | some name =>
    match rfind '.' name with
    | some i => if 0 < i ∧ i < name.length - 1 then name.drop i else []
    | none => []

/-- `folders_needing_init_file(file.parent)` for a parent inside the working directory, as component
    lists relative to it: the folder and its ancestors strictly below the working directory — and the
    working directory itself (`[]`) when the file is placed directly in it -/
def initFolders : List Str → List (List Str)
  | [] => [[]]
  | p :: ps => ((List.range (ps.length + 1)).map (fun k => (p :: ps).take (ps.length + 1 - k)))

inductive Outcome where
  /-- `refurb: File must end in ".py"`, exit 1 -/
  | badSuffix
  /-- `NODES[name]` raised -/
  | keyError (name : Str)
  | written (text : Str) (id : Nat)
  deriving Repr, DecidableEq

/-- `main()` after the three prompts returned `raw` (lines of the multi-selection), `file`, `pfx` -/
def genMain (tbl : Table) (ids : List (Str × Nat)) (raw : List Str) (file : Str) (pfx : Str) : Outcome :=
  let sel := selected raw
  if suffix file ≠ ".py".toList then .badSuffix
  else match sel.find? (fun n => (lookup tbl n).isNone) with
    | some n => .keyError n
    | none => .written (render (moduleOf tbl) sel pfx (nextId ids pfx)) (nextId ids pfx)

/-! ### Token-level reading of a generated file -/

inductive Tok where
  | word (s : Str)
  | punct (c : Char)
  deriving Repr, DecidableEq

/-- characters of identifiers, dotted module names and numbers -/
def isWordChar (c : Char) : Bool := c.isAlphanum || c == '_' || c == '.'

def startsWord : Str → Bool
  | [] => false
  | c :: _ => isWordChar c

/-- maximal runs of word characters are words, blanks separate, anything else is one punctuation token -/
def tokens : Str → List Tok
  | [] => []
  | c :: r =>
    if isWordChar c then
      match tokens r with
      | .word w :: ts => if startsWord r then .word (c :: w) :: ts else .word [c] :: .word w :: ts
      | ts => .word [c] :: ts
    else if c = ' ' then tokens r
    else .punct c :: tokens r

def Tok.word? : Tok → Option Str
  | .word s => some s
  | .punct _ => none

/-- `w (p w)*` → the words -/
def parseSep (p : Char) : List Tok → Option (List Str)
  | [.word n] => some [n]
  | .word n :: .punct q :: rest =>
    if q = p then (parseSep p rest).map (n :: ·) else none
  | _ => none

/-- `w ( ) (| w ( ))*` → the class names of an or-pattern of class patterns without arguments -/
def parsePattern : List Tok → Option (List Str)
  | [.word n, .punct '(', .punct ')'] => some [n]
  | .word n :: .punct '(' :: .punct ')' :: .punct '|' :: rest => (parsePattern rest).map (n :: ·)
  | _ => none

def wd (s : String) : Tok := .word s.toList

/-- a line that starts with a word: that word and the remaining tokens -/
def keyword (l : Str) : Option (Str × List Tok) :=
  match tokens l with
  | .word k :: rest => some (k, rest)
  | _ => none

/-- `from` · `m import a, b, c` → `[(m, a), (m, b), (m, c)]` -/
def importsOfToks : List Tok → List (Str × Str)
  | .word m :: .word i :: rest =>
    if i = "import".toList then
      match parseSep ',' rest with
      | some ns => ns.map (fun n => (m, n))
      | none => []
    else []
  | _ => []

def importsOfLine (l : Str) : List (Str × Str) :=
  match keyword l with
  | some (k, rest) => if k = "from".toList then importsOfToks rest else []
  | none => []

/-- `class` · `C(B):` → `(C, B)` -/
def classOfToks : List Tok → Option (Str × Str)
  | [.word n, .punct '(', .word b, .punct ')', .punct ':'] => some (n, b)
  | _ => none

def classOfLine (l : Str) : Option (Str × Str) :=
  match keyword l with
  | some (k, rest) => if k = "class".toList then classOfToks rest else none
  | none => none

/-- `prefix` · `= "XYZ"` → `XYZ` -/
def prefixOfToks : List Tok → Option Str
  | [.punct '=', .punct '"', .word v, .punct '"'] => some v
  | [.punct '=', .punct '"', .punct '"'] => some []
  | _ => none

def prefixOfLine (l : Str) : Option Str :=
  match keyword l with
  | some (k, rest) => if k = "prefix".toList then prefixOfToks rest else none
  | none => none

/-- `code` · `= 123` → the digits -/
def codeOfToks : List Tok → Option Str
  | [.punct '=', .word v] => some v
  | _ => none

def codeOfLine (l : Str) : Option Str :=
  match keyword l with
  | some (k, rest) => if k = "code".toList then codeOfToks rest else none
  | none => none

/-- one parameter `name: annotation tokens` -/
def paramOf : List Tok → Option (Str × List Tok)
  | .word n :: .punct ':' :: ann => some (n, ann)
  | _ => none

/-- `def` · `check(p1: T1, p2: T2) -> None:` → the parameters with their annotation tokens -/
def paramsOfToks : List Tok → Option (List (Str × List Tok))
  | .word f :: .punct '(' :: rest =>
    if f = "check".toList then
      some ((splitOn (.punct ',') (rest.takeWhile (fun t => decide (t ≠ Tok.punct ')')))).filterMap paramOf)
    else none
  | _ => none

def paramsOfLine (l : Str) : Option (List (Str × List Tok)) :=
  match keyword l with
  | some (k, rest) => if k = "def".toList then paramsOfToks rest else none
  | none => none

/-- `case` · `A() | B():` → `[A, B]` -/
def patternOfToks (rest : List Tok) : Option (List Str) :=
  match rest.getLast? with
  | some (.punct ':') => parsePattern rest.dropLast
  | _ => none

def patternOfLine (l : Str) : Option (List Str) :=
  match keyword l with
  | some (k, rest) => if k = "case".toList then patternOfToks rest else none
  | none => none

structure Reading where
  /-- `(module, name)` of every `from module import name, …`, in file order -/
  imports : List (Str × Str)
  /-- `(class, base)` of every one-base class header -/
  classes : List (Str × Str)
  pfx : Option Str
  code : Option Str
  /-- parameters of `def check` with annotation tokens -/
  params : Option (List (Str × List Tok))
  /-- class names in the `case` arm -/
  pattern : Option (List Str)
  deriving Repr, DecidableEq

/-- nothing read -/
def Reading.empty : Reading := { imports := [], classes := [], pfx := none, code := none, params := none, pattern := none }

/-- readings of consecutive blocks of lines combine field by field (first hit wins) -/
def Reading.append (a b : Reading) : Reading :=
  { imports := a.imports ++ b.imports, classes := a.classes ++ b.classes, pfx := a.pfx.or b.pfx, code := a.code.or b.code,
    params := a.params.or b.params, pattern := a.pattern.or b.pattern }

def readLines (ls : List Str) : Reading :=
  { imports := ls.flatMap importsOfLine
    classes := ls.filterMap classOfLine
    pfx := ls.findSome? prefixOfLine
    code := ls.findSome? codeOfLine
    params := ls.findSome? paramsOfLine
    pattern := ls.findSome? patternOfLine }

def read (file : Str) : Reading := readLines (splitOn '\n' file)

/-- what the name `n` is bound to at module level by the imports: the module of the last import of it -/
def Reading.resolve (r : Reading) (n : Str) : Option Str :=
  (r.imports.reverse.find? (fun p => p.2 = n)).map (·.1)

/-! ### The loader on that reading -/

inductive LoadErr where
  | noCheck            -- no `def check` (the loader then loads an error class without a function)
  | arity              -- "Check function must take 2-3 parameters"
  | errorParam         -- '"error" param must be of type list[Error]'
  | service (name : Str)        -- '"name: T" is not a valid service'
  | notAType (toks : List Tok)  -- the annotation is not `A | B | …` (outside the generated shape)
  | unbound (name : Str)        -- NameError when the module is imported
  | invalidNode (name : Str)    -- '"X" is not a valid Mypy node type'
  deriving Repr, DecidableEq

/-- `list[Error]` -/
def errorAnn : List Tok := [wd "list", .punct '[', wd "Error", .punct ']']

/-- `extract_function_types` on `def check(node: A | B | …, errors: list[Error][, settings: Settings])`.
    `bound n` — the name is bound when the `def` is evaluated; `valid n` — the class it is bound to is
    in `VALID_NODE_TYPES`.  A union of classes keeps its distinct members in order (`A | A` is `A`);
    a single class and a union are validated member by member either way. -/
def extractFunctionTypes (bound valid : Str → Bool) (params : Option (List (Str × List Tok))) :
    Except LoadErr (List Str) :=
  match params with
  | none => .error .noCheck
  | some [] => .error .arity
  | some ((_, nodeAnn) :: rest) =>
    match parseSep '|' nodeAnn with
    | none => .error (.notAType nodeAnn)
    | some names =>
      -- the annotation is evaluated when the module is imported
      match names.find? (fun n => !bound n) with
      | some n => .error (.unbound n)
      | none =>
        match rest with
        | (_, errAnn) :: opt =>
          if opt.length > 1 then .error .arity
          else if errAnn ≠ errorAnn then .error .errorParam
          else match opt.find? (fun p => p ≠ ("settings".toList, [wd "Settings"])) with
            | some p => .error (.service p.1)
            | none =>
              match names.eraseDups.find? (fun n => !valid n) with
              | some n => .error (.invalidNode n)
              | none => .ok names.eraseDups
        | [] => .error .arity

/-- the name is bound at module level when `def check` is evaluated -/
def Reading.bound (r : Reading) (n : Str) : Bool := (r.resolve n).isSome

/-- the name is bound to the offered node class of that name (imported from the module that defines
    it) and that class is in `VALID_NODE_TYPES` -/
def validIn (tbl : Table) (r : Reading) (n : Str) : Bool :=
  match lookup tbl n with
  | some row => row.valid && r.resolve n == some row.module.toList
  | none => false

/-- the node types `load_checks` registers the module's `check` under -/
def loadTypes (tbl : Table) (r : Reading) : Except LoadErr (List Str) :=
  extractFunctionTypes r.bound (validIn tbl r) r.params

def startsWith (p s : Str) : Bool := p.isPrefixOf s

/-- `get_error_class`: the first name of `dir(module)` (sorted) that starts with `Error`, is not one of
    the ignored names and is a subclass of `Error` -/
def getErrorClass (r : Reading) : Option Str :=
  let names := ssort leChars (r.imports.map (·.2) ++ r.classes.map (·.1) ++ ["check".toList])
  names.find? (fun n =>
    startsWith "Error".toList n
      && !(["Error".toList, "ErrorCode".toList, "ErrorCategory".toList].contains n)
      && r.classes.contains (n, "Error".toList))

/-! ### When the check fires -/

def supersOf (tbl : Table) (k : Str) : List Str :=
  match lookup tbl k with
  | some r => r.supers.map String.toList
  | none => []

def chainOf (tbl : Table) (k : Str) : List Str :=
  match lookup tbl k with
  | some r => r.chainsTo.map String.toList
  | none => []

/-- `issubclass(k, n)` among offered node types -/
def isSub (tbl : Table) (k n : Str) : Bool := k == n || (supersOf tbl k).contains n

/-- `case A() | B():` against a node whose class is `k` -/
def patternMatches (tbl : Table) (pat : List Str) (k : Str) : Bool := pat.any (isSub tbl k)

/-- the node types whose (rebuilt) visit method sees a node of class `k`: its own, then the ones the
    base method chains to -/
def handedTo (tbl : Table) (k : Str) : List Str := k :: chainOf tbl k

/-- number of diagnostics the generated check produces for one node of class `k`, when the loader
    registered it under `types` and its `case` arm lists `pat` -/
def fireCount (tbl : Table) (types pat : List Str) (k : Str) : Nat :=
  if patternMatches tbl pat k then ((handedTo tbl k).filter (types.contains ·)).length else 0

end Gen
end RefurbVerif
