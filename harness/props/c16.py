"""C16 — plugin contract: checks load once, obey selection, bad ones fail cleanly.

Lean: Props/C16.lean over Model/Loader.lean (get_modules = first-occurrence dedup of the walks, for any
forest / target list; spelling irrelevant; unselected never called; selected+invalid rejected with the
located error; the parameter-count arity rule proved right for every accepted check, the former
`__annotations__` rule refuted as history; a keyword-only `settings` still refutes "the call binds").

GEN-PLUGIN writes REAL packages into scratch directories (nested sub-packages, a directory without
__init__, every signature shape, modules without / with two Error classes, an entry-point plugin).
Correspondence (one fresh worker process per world, because sys.modules / sys.path are process-global):
  model getModules      vs  refurb.loader.get_modules            (order included, incl. how it ends)
  model validSignature  vs  refurb.loader.extract_function_types (built-in checks included)
  model annotations / runCheckArity / binds  vs  check.__annotations__ / RefurbVisitor.run_check
  model loadChecks      vs  refurb.loader.load_checks            (whole dispatch table, per node type, in order)
  model visit           vs  the call log of real CLI runs
Oracle (on the CLI, fresh process per run, independent of the model): every selected valid check reports
once per matching node and is called once per matching node; an unselected check's call log is empty; the
three-parameter form receives the Settings; a selected invalid check gives exactly one `file:line: reason`
line, exit status 1, no traceback; a target that cannot be imported must end in one line, not a traceback.
"""

from __future__ import annotations

import json
import os
import re
import subprocess
from collections import Counter
from concurrent.futures import ThreadPoolExecutor
from pathlib import Path
from typing import Any

from .. import core

GENERATED: list[str] = []

PFX = "XYZ"
CAT = "c16"
F_PY = 'x = 1\ny = 2\ns = "a"\n'
NODE_COUNTS = {"IntExpr": 2, "StrExpr": 1}
NODES = ["IntExpr", "IntExpr", "StrExpr"]
BUILTIN = "refurb.checks"

# --------------------------------------------------------------------------------------------
# signature shapes.  spec: what the property says about the shape when the check is selected
#   valid   -> must work (diagnostics once per matching node, settings passed when asked for)
#   invalid -> must be rejected: one `file:line: reason` line, exit 1
#   either  -> outside the documented forms: rejected cleanly or working, never a crash


def fn(sig: str) -> str:
    return f"def check{sig}:\n    _rv_call(dict(locals()))\n"


def shape(sid: str, src: str, spec: str, types: list[str] | None = None, settings: bool = False, **kw: Any) -> dict[str, Any]:
    return {"id": sid, "cls": sid, "src": src, "spec": spec, "types": types or [], "settings": settings, **kw}


E = "errors: list[Error]"
WRAP = "import functools\n\n\ndef _deco(f):\n    @functools.wraps(f)\n    def wrapper(*args, **kwargs):\n        return f(*args, **kwargs)\n\n    return wrapper\n\n\n"
SHAPES: list[dict[str, Any]] = [
    shape("v2", fn(f"(node: IntExpr, {E}) -> None"), "valid", ["IntExpr"]),
    shape("v2_noret", fn(f"(node: IntExpr, {E})"), "valid", ["IntExpr"]),
    shape("v2_str", fn(f"(node: StrExpr, {E}) -> None"), "valid", ["StrExpr"]),
    shape("v2_union", fn(f"(node: IntExpr | StrExpr, {E}) -> None"), "valid", ["IntExpr", "StrExpr"]),
    shape("v2_union_noret", fn(f"(node: StrExpr | IntExpr, {E})"), "valid", ["IntExpr", "StrExpr"]),
    shape("v2_names", fn("(n: IntExpr, errs: list[Error]) -> None"), "valid", ["IntExpr"]),
    shape("v2_retint", fn(f"(node: IntExpr, {E}) -> int"), "valid", ["IntExpr"]),
    shape("v3", fn(f"(node: IntExpr, {E}, settings: Settings) -> None"), "valid", ["IntExpr"], True),
    shape("v3_union", fn(f"(node: StrExpr | IntExpr, {E}, settings: Settings) -> None"), "valid", ["IntExpr", "StrExpr"], True),
    shape("v3_noret", fn(f"(node: IntExpr, {E}, settings: Settings)"), "valid", ["IntExpr"], True, cls="three-params-no-return-annotation"),
    shape("v3_union_noret", fn(f"(node: IntExpr | StrExpr, {E}, settings: Settings)"), "valid", ["IntExpr", "StrExpr"], True, cls="three-params-no-return-annotation"),
    # arity
    shape("a0", fn("() -> None"), "invalid"),
    shape("a1", fn("(node: IntExpr) -> None"), "invalid"),
    shape("a4", fn(f"(node: IntExpr, {E}, settings: Settings, extra: int) -> None"), "invalid"),
    shape("a4_three_ann", fn(f"(node: IntExpr, {E}, settings: Settings, extra)"), "invalid"),
    shape("a5", fn(f"(node: IntExpr, {E}, settings: Settings, a: int, b: int) -> None"), "invalid"),
    # missing annotations
    shape("unann_node", fn(f"(node, {E}) -> None"), "invalid"),
    shape("unann_err", fn("(node: IntExpr, errors) -> None"), "invalid"),
    shape("unann_all", fn("(node, errors)"), "invalid"),
    shape("unann_settings", fn(f"(node: IntExpr, {E}, settings) -> None"), "invalid"),
    shape("lambda_unann", "check = lambda node, errors: None\n", "invalid"),
    # wrong error parameter
    shape("err_list", fn("(node: IntExpr, errors: list) -> None"), "invalid"),
    shape("err_listint", fn("(node: IntExpr, errors: list[int]) -> None"), "invalid"),
    shape("err_typing", fn("(node: IntExpr, errors: typing.List[Error]) -> None"), "invalid"),
    shape("err_tuple", fn("(node: IntExpr, errors: tuple[Error]) -> None"), "invalid"),
    shape("err_union", fn("(node: IntExpr, errors: list[Error] | None) -> None"), "invalid"),
    shape("err_quoted", fn("(node: IntExpr, errors: 'list[Error]') -> None"), "invalid"),
    shape("swapped", fn(f"(node: IntExpr, settings: Settings, {E}) -> None"), "invalid"),
    # wrong node parameter
    shape("node_int", fn(f"(node: int, {E}) -> None"), "invalid"),
    shape("node_base", fn(f"(node: Node, {E}) -> None"), "invalid"),
    shape("node_settings", fn(f"(node: Settings, {E}) -> None"), "invalid"),
    shape("node_listerror", fn(f"(node: list[Error], {E}) -> None"), "invalid"),
    shape("node_union_int", fn(f"(node: IntExpr | int, {E}) -> None"), "invalid"),
    shape("node_union_first_bad", fn(f"(node: int | IntExpr, {E}) -> None"), "invalid"),
    shape("node_union_none", fn(f"(node: IntExpr | None, {E}) -> None"), "invalid"),
    shape("node_typing_union", fn(f"(node: typing.Union[IntExpr, StrExpr], {E}) -> None"), "invalid"),
    shape("node_optional", fn(f"(node: typing.Optional[IntExpr], {E}) -> None"), "invalid"),
    shape("node_quoted", fn(f"(node: 'IntExpr', {E}) -> None"), "invalid", cls="annotation-without-__name__"),
    shape("node_unhashable", fn(f"(node: [IntExpr], {E}) -> None"), "invalid"),
    # wrong optional parameter
    shape("set_name", fn(f"(node: IntExpr, {E}, s: Settings) -> None"), "invalid"),
    shape("set_type", fn(f"(node: IntExpr, {E}, settings: int) -> None"), "invalid"),
    shape("set_quoted", fn(f"(node: IntExpr, {E}, settings: 'Settings') -> None"), "invalid", cls="annotation-without-__name__"),
    shape("set_optional", fn(f"(node: IntExpr, {E}, settings: Settings | None) -> None"), "invalid", cls="annotation-without-__name__"),
    shape("set_unhashable", fn(f"(node: IntExpr, {E}, settings: [Settings]) -> None"), "invalid", cls="annotation-without-__name__"),
    # not a function
    shape("noncallable", "check = 5\n", "invalid", located=False),
    # outside the documented forms
    shape("kwonly_settings", fn(f"(node: IntExpr, {E}, *, settings: Settings) -> None"), "either", ["IntExpr"], True),
    shape("default_settings", fn(f"(node: IntExpr, {E}, settings: Settings = None) -> None"), "either", ["IntExpr"]),
    shape("default_settings_noret", fn(f"(node: IntExpr, {E}, settings: Settings = None)"), "either", ["IntExpr"]),
    shape("posonly", fn(f"(node: IntExpr, errors: list[Error], /) -> None"), "either", ["IntExpr"]),
    shape("posonly_settings", fn(f"(node: IntExpr, {E}, settings: Settings, /) -> None"), "either", ["IntExpr"], True),
    shape("future_annotations", fn(f"(node: IntExpr, {E}) -> None"), "either", ["IntExpr"], future=True),
    # a check wrapped by a functools.wraps decorator (timing, logging, caching wrappers): the loader validates the wrapped
    # signature, so whoever calls it must count the same parameters
    shape("wrapped_v2", WRAP + "@_deco\n" + fn(f"(node: IntExpr, {E}) -> None"), "either", ["IntExpr"]),
    shape("wrapped_v3", WRAP + "@_deco\n" + fn(f"(node: IntExpr, {E}, settings: Settings) -> None"), "either", ["IntExpr"], True),
    shape("wrapped_v3_args", WRAP.replace("*args, **kwargs", "*args") + "@_deco\n" + fn(f"(node: IntExpr, {E}, settings: Settings) -> None"), "either", ["IntExpr"], True),
    # invalid signatures behind the same wrapper: still rejected at the check's own definition (its decorator line or its def line)
    shape("wrapped_bad_node", WRAP + "@_deco\n" + fn(f"(node: int, {E}) -> None"), "invalid"),
    shape("wrapped_bad_errors", WRAP + "@_deco\n" + fn("(node: IntExpr, errors: list) -> None"), "invalid"),
    shape("falsy", "check = 0\n", "nocheck"),
    shape("absent", "", "nocheck"),
    # in-process only (their bodies cannot run as a check)
    shape("varargs_errors", fn("(node: IntExpr, *errors: list[Error]) -> None"), "either", cli=False),
    shape("varkw_errors", fn("(node: IntExpr, **errors: list[Error]) -> None"), "either", cli=False),
    shape("varargs_settings", fn(f"(node: IntExpr, {E}, *settings: Settings) -> None"), "either", cli=False),
    shape("kwonly_default", fn(f"(node: IntExpr, {E}, *, settings: Settings = None) -> None"), "either", ["IntExpr"], cli=False),
]
SHAPE = {s["id"]: s for s in SHAPES}
VALID_IDS = [s["id"] for s in SHAPES if s["spec"] == "valid"]

HEAD = '''\
import os
import typing
from dataclasses import dataclass

from mypy.nodes import Expression, IntExpr, NameExpr, Node, StrExpr
from refurb.error import Error
from refurb.settings import Settings


def _rv_log(kind, detail=""):
    p = os.environ.get("RV_C16_LOG")
    if p:
        with open(p, "a") as fh:
            fh.write(f"{kind}\\t{__name__}\\t{detail}\\n")


_rv_log("import")
_rv_last = None


def _rv_call(loc):
    global _rv_last
    _rv_last = sorted(loc)
    s = loc.get("settings")
    _rv_log("call", f"{len(loc)}\\t{type(s).__name__}\\t{','.join(getattr(s, 'load', None) or [])}")
    vals = list(loc.values())
    node = next((v for v in vals if isinstance(v, Node)), None)
    errs = next((v for v in vals if isinstance(v, list)), None)
    cls = globals().get("ErrorInfo")
    if node is not None and errs is not None and cls is not None:
        errs.append(cls.from_node(node))


'''


def error_class(name: str, code: int, enabled: bool, cats: tuple[str, ...]) -> str:
    return (
        f"@dataclass\nclass {name}(Error):\n    \"\"\"probe\"\"\"\n\n    prefix = {PFX!r}\n    code = {code}\n"
        f"    name = \"probe-{code}\"\n    categories = {cats!r}\n    enabled = {enabled!r}\n    msg: str = \"probe {code}\"\n\n\n"
    )


def leaf_source(leaf: dict[str, Any]) -> str:
    sh = SHAPE[leaf["shape"]]
    out = ("from __future__ import annotations\n" if sh.get("future") else "") + HEAD
    cats = tuple(leaf["cats"])
    ek = leaf["errkind"]
    if ek == "one":
        out += error_class("ErrorInfo", leaf["code"], leaf["enabled"], cats)
    elif ek == "two":
        # `dir()` order: ErrorAaa first; it carries the other code and the opposite default
        out += error_class("ErrorAaa", leaf["code"] + 500, not leaf["enabled"], cats)
        out += error_class("ErrorInfo", leaf["code"], leaf["enabled"], cats)
    elif ek == "errint":
        out += "ErrorCount = 3\nErrorCodes = ErrorInfoX = None\n\n"
        out += error_class("ErrorInfo", leaf["code"], leaf["enabled"], cats)
    # "none": no error class at all
    return out + sh["src"]


def def_line(src: str) -> int:
    for i, line in enumerate(src.split("\n"), 1):
        if line.startswith("def check") or line.startswith("check ="):
            return i
    return 0


def def_lines(src: str) -> list[int]:
    """the lines at which the definition of `check` may be located: its def line, or the line of its first decorator"""
    lines = src.split("\n")
    d = def_line(src)
    out = [d]
    k = d - 1
    while k >= 1 and lines[k - 1].startswith("@"):
        out.append(k)
        k -= 1
    return out


# --------------------------------------------------------------------------------------------
# worlds


def mk_leaf(name: str, shape_id: str, code: int, enabled: bool = True, cats: tuple[str, ...] = (), errkind: str = "one") -> dict[str, Any]:
    return {"k": "leaf", "name": name, "shape": shape_id, "code": code, "enabled": enabled, "cats": list(cats), "errkind": errkind}


def mk_pkg(name: str, kids: list[dict[str, Any]], init: bool = True) -> dict[str, Any]:
    return {"k": "pkg", "name": name, "kids": kids, "init": init}


def walk_world(tree: list[dict[str, Any]], pre: str = "") -> Any:
    """(dotted, node, visible) for every node; a directory without __init__ hides what is below it"""
    for n in tree:
        d = pre + n["name"]
        yield d, n
        if n["k"] == "pkg" and n.get("init", True):
            yield from walk_world(n["kids"], d + ".")


def render_world(tree: list[dict[str, Any]], pre: Path = Path()) -> dict[str, str]:
    files: dict[str, str] = {}
    for n in tree:
        if n["k"] == "leaf":
            files[str(pre / (n["name"] + ".py"))] = leaf_source(n)
        else:
            if n.get("init", True):
                files[str(pre / n["name"] / "__init__.py")] = n.get("init_src", "")
            files.update(render_world(n["kids"], pre / n["name"]))
    return files


def shape_world() -> dict[str, Any]:
    """W0: one package holding one module per signature shape (+ the error-class variants)"""
    kids = []
    code = 100
    for sh in SHAPES:
        kids.append(mk_leaf("m_" + sh["id"], sh["id"], code, enabled=True, cats=(CAT,) if code % 3 == 0 else ()))
        code += 1
    kids.append(mk_leaf("e_none", "v2", code, errkind="none"))
    kids.append(mk_leaf("e_none_bad", "a1", code + 1, errkind="none"))
    kids.append(mk_leaf("e_two", "v2", code + 2, errkind="two"))
    kids.append(mk_leaf("e_errint", "v2", code + 3, errkind="errint"))
    kids.append(mk_leaf("d_off", "v2", code + 4, enabled=False))
    kids.append(mk_leaf("d_off_bad", "set_name", code + 5, enabled=False))
    kids.append(mk_leaf("d_off3", "v3", code + 6, enabled=False, cats=(CAT,)))
    return {"id": "shapes", "tree": [mk_pkg("rvs", kids)], "ep": None}


def nest_world() -> dict[str, Any]:
    """W1: nesting, for the spelling cases"""
    tree = [
        mk_pkg(
            "rvq",
            [
                mk_leaf("a", "v2", 200),
                mk_leaf("b", "v3", 201, cats=(CAT,)),
                mk_leaf("z_off", "v2_union", 202, enabled=False),
                mk_pkg("sub", [mk_leaf("c", "v2_str", 203), mk_pkg("deep", [mk_leaf("d", "v3_union", 204), mk_leaf("e", "v2", 205, errkind="none")])]),
                mk_pkg("a_empty", []),
                mk_pkg("nsdir", [mk_leaf("hidden", "v2", 206)], init=False),
            ],
        ),
        mk_leaf("rvm", "v2_union", 207),
        mk_pkg("rvep", [mk_leaf("p", "v2", 208)]),
        # two distinct check modules reporting under one error code (a copy-pasted ErrorInfo): each is a check of its own
        mk_pkg("rvd", [mk_leaf("one", "v2", 210), mk_leaf("two", "v3", 210), mk_leaf("three", "v2_str", 211)]),
    ]
    return {"id": "nest", "tree": tree, "ep": "rvep"}


def random_world(rng: Any, idx: int) -> dict[str, Any]:
    code = [300]

    def leaf(name: str) -> dict[str, Any]:
        r = rng.random()
        if r < 0.6:
            sid = rng.choice(VALID_IDS[:9])  # the forms that work today
        else:
            sid = rng.choice([s["id"] for s in SHAPES if s.get("cli", True)])
        code[0] += 1
        ek = "one" if rng.random() < 0.85 else "none"
        return mk_leaf(name, sid, code[0], enabled=rng.random() < 0.75, cats=(CAT,) if rng.random() < 0.3 else (), errkind=ek)

    def pkg(name: str, depth: int) -> dict[str, Any]:
        names = rng.sample(["a", "b", "b_x", "c", "m0", "z", "_p"], rng.randint(0, 3))
        kids = [leaf(n) for n in names]
        if depth < 3:
            # "sub"/"sub2", "x1"/"x1y": siblings one of whose dotted names is a textual prefix of the other's
            for sn in rng.sample(["sub", "sub2", "a_sub", "x1", "x1y"], rng.randint(0, 3)):
                kids.append(pkg(sn, depth + 1))
        rng.shuffle(kids)
        return mk_pkg(name, kids)

    tree = [pkg(f"rvp{idx}", 1)]
    if rng.random() < 0.7:
        tree.append(pkg(f"rvo{idx}", 2))
    for i in range(rng.randint(0, 2)):
        tree.append(leaf(f"rvm{idx}_{i}"))
    # load targets whose names extend the name of another target without being inside it
    if rng.random() < 0.6:
        tree.append(pkg(f"rvp{idx}x", 2))
    if rng.random() < 0.5:
        tree.append(leaf(f"rvp{idx}_m"))
    # two distinct check modules that report under the SAME error code (copy-pasted ErrorInfo): both are checks of their own
    lv = [n for _d, n in walk_world(tree) if n["k"] == "leaf"]
    if len(lv) >= 2 and rng.random() < 0.5:
        a, b = rng.sample(lv, 2)
        b["code"] = a["code"]
    return {"id": f"rand{idx}", "tree": tree, "ep": None}


def fs_forest(root: Path) -> list[dict[str, Any]]:
    """The modules below a directory as pkgutil's FileFinder lists them: sorted os.listdir, a directory
    with __init__.py is a package (listed, then walked), a .py file is a module."""
    out = []
    seen: set[str] = set()
    for fn_ in sorted(os.listdir(root)):
        p = root / fn_
        if p.is_dir() and "." not in fn_ and (p / "__init__.py").exists():
            name, node = fn_, {"k": "pkg", "name": fn_, "kids": fs_forest(p)}
        elif fn_.endswith(".py") and fn_ != "__init__.py" and p.is_file():
            name, node = fn_[:-3], {"k": "leaf", "name": fn_[:-3]}
        else:
            continue
        if name in seen or "." in name:
            continue
        seen.add(name)
        out.append(node)
    return out


def forest_leaves(forest: list[dict[str, Any]], pre: str = "") -> Any:
    for n in forest:
        if n["k"] == "leaf":
            yield pre + n["name"], n
        else:
            yield from forest_leaves(n["kids"], pre + n["name"] + ".")


def forest_names(forest: list[dict[str, Any]], pre: str = "") -> Any:
    for n in forest:
        yield pre + n["name"]
        if n["k"] == "pkg":
            yield from forest_names(n["kids"], pre + n["name"] + ".")


# --------------------------------------------------------------------------------------------
# the worker: everything that needs the real modules imported, in a fresh process per world

WORKER = r'''
import sys, json, os, inspect, importlib, types
req = json.load(sys.stdin)
sys.path.append(os.getcwd())
from refurb import loader
from refurb.error import Error, ErrorCode, ErrorCategory
from refurb.settings import Settings, load_settings
from refurb.visitor.visitor import RefurbVisitor

def atom(a):
    if a is inspect.Parameter.empty:
        return {"a": "empty"}
    try:
        hash(a)
    except TypeError:
        return {"a": "unhashable", "n": type(a).__name__, "r": repr(a)}
    if a in loader.VALID_NODE_TYPES:
        return {"a": "node", "n": a.__name__}
    if a is Settings:
        return {"a": "settings"}
    if isinstance(a, types.GenericAlias) and a == list[Error]:
        return {"a": "listError"}
    n = getattr(a, "__name__", None)
    if isinstance(n, str):
        return {"a": "cls", "n": n}
    return {"a": "opaque", "r": repr(a)}

def ann(a):
    if isinstance(a, types.UnionType):
        return {"u": [atom(x) for x in a.__args__], "r": repr(a)}
    return atom(a)

P = inspect.Parameter
def kind(p):
    d = p.default is not P.empty
    if p.kind in (P.POSITIONAL_ONLY, P.POSITIONAL_OR_KEYWORD):
        return "posDefault" if d else "pos"
    if p.kind is P.VAR_POSITIONAL:
        return "varPos"
    if p.kind is P.KEYWORD_ONLY:
        return "kwOnlyDefault" if d else "kwOnly"
    return "varKw"

def clsf(c):
    if isinstance(c, ErrorCode):
        return {"k": "code", "p": c.prefix, "i": c.id, "path": None if c.path is None else str(c.path)}
    return {"k": "cat", "n": c.value, "path": None if c.path is None else str(c.path)}

def leaf_info(name):
    try:
        m = importlib.import_module(name)
    except BaseException as e:
        return {"import_error": type(e).__name__}
    info = {"errs": [], "check": None, "file": "", "line": 0}
    for attr in dir(m):
        if attr.startswith("Error"):
            obj = getattr(m, attr)
            sub = isinstance(obj, type) and issubclass(obj, Error)
            cn = getattr(obj, "__name__", "")
            sel = {"prefix": "", "code": 0, "categories": [], "enabled": False}
            if sub and hasattr(obj, "code"):
                sel = {"prefix": obj.prefix, "code": obj.code, "categories": list(obj.categories), "enabled": bool(obj.enabled)}
            info["errs"].append({"attr": attr, "cls": cn if isinstance(cn, str) else "", "sub": bool(sub), "sel": sel})
    ec = loader.get_error_class(m)
    info["real_error_class"] = None if ec is None else [ec.prefix, ec.code]
    check = getattr(m, "check", None)
    info["has_check"] = bool(check)
    if check:
        if callable(check):
            s = inspect.signature(check)
            info["check"] = {"callable": True, "ret": s.return_annotation is not inspect.Signature.empty,
                "params": [{"name": p.name, "ann": ann(p.annotation), "kind": kind(p)} for p in s.parameters.values()]}
            try:
                info["file"] = inspect.getsourcefile(check) or ""
                info["line"] = inspect.getsourcelines(check)[1]
            except Exception:
                pass
        else:
            info["check"] = {"callable": False, "ret": False, "params": []}
        info["real_annotations"] = list(getattr(check, "__annotations__", {}))
        try:
            info["real_extract"] = {"r": "ok", "types": [t.__name__ for t in loader.extract_function_types(check)]}
        except TypeError as e:
            info["real_extract"] = {"r": "typeError", "text": str(e)}
        except Exception as e:
            info["real_extract"] = {"r": "crash", "exc": type(e).__name__}
        # the real run_check, given a stand-in that has the function's __annotations__ and records the call
        if callable(check):
            rec = {"nargs": None}
            class Spy:
                __annotations__ = getattr(check, "__annotations__", {})
                __signature__ = inspect.signature(check)
                __code__ = getattr(check, "__code__", None)
                __defaults__ = getattr(check, "__defaults__", None)
                __kwdefaults__ = getattr(check, "__kwdefaults__", None)
                def __call__(self, *a):
                    rec["nargs"] = len(a)
                    return check(*a)
            dummy = types.SimpleNamespace(errors=[], settings=Settings())
            bind_error = False
            try:
                RefurbVisitor.run_check(dummy, None, Spy())
            except TypeError as e:
                import re as _re
                bind_error = bool(_re.search(r"\(\) (missing \d+ required|takes )", str(e)))
            except Exception:
                pass
            info["real_call"] = {"nargs": rec["nargs"], "bind_error": bind_error}
    return info

out = {"leaves": {n: leaf_info(n) for n in req["leaves"]}, "cases": []}
for case in req["cases"]:
    ans = {}
    mods, err = [], None
    try:
        for m in loader.get_modules(list(case["targets"])):
            mods.append(m.__name__)
    except ImportError as e:
        err = {"exc": type(e).__name__, "text": str(e)}
    except BaseException as e:
        err = {"exc": type(e).__name__, "text": None}
    ans["modules"] = {"out": mods, "err": err}
    if "flags" in case:
        argv = ["f.py", *case["flags"]]
        for t in case["targets"]:
            argv += ["--load", t]
        st = load_settings(argv)
        ans["settings"] = {"ignore": [clsf(c) for c in st.ignore], "enable": [clsf(c) for c in st.enable],
            "disable": [clsf(c) for c in st.disable], "enable_all": st.enable_all, "disable_all": st.disable_all}
        try:
            found = loader.load_checks(st)
            ans["load"] = {"r": "ok", "table": {ty.__name__: [f.__module__ for f in fs] for ty, fs in found.items() if fs}}
        except TypeError as e:
            ans["load"] = {"r": "typeError", "text": str(e)}
        except ImportError as e:
            ans["load"] = {"r": "importError", "text": str(e)}
        except BaseException as e:
            ans["load"] = {"r": "crash", "exc": type(e).__name__}
    out["cases"].append(ans)
json.dump(out, sys.stdout)
'''


def run_worker(cwd: Path, req: dict[str, Any]) -> dict[str, Any]:
    env = core.py_env()
    env.pop("RV_C16_LOG", None)
    p = subprocess.run([core.PY, "-c", WORKER], cwd=cwd, input=json.dumps(req), capture_output=True, text=True, timeout=900, env=env)
    if p.returncode != 0:
        raise RuntimeError(f"C16 worker failed in {cwd}: {p.stderr[-1500:]}")
    return json.loads(p.stdout)


# --------------------------------------------------------------------------------------------
# selections (flags are built so that no classifier is mentioned twice and an all-switch comes first)


def flagsets(codes: list[int], rng: Any) -> list[list[str]]:
    c = [f"{PFX}{x}" for x in codes] or [f"{PFX}999"]
    pick = lambda: rng.choice(c)  # noqa: E731
    return [
        [],
        ["--disable-all"],
        ["--enable-all"],
        ["--enable", pick()],
        ["--disable", pick()],
        ["--ignore", pick()],
        ["--disable-all", "--enable", pick()],
        ["--enable", f"#{CAT}"],
        ["--disable", f"#{CAT}"],
        ["--enable-all", "--ignore", f"#{CAT}"],
        ["--disable-all", "--enable", f"#{CAT}", "--disable", pick()],
    ]


def selected_spec(leaf: dict[str, Any], flags: list[str]) -> bool:
    """README precedence for the restricted flag lists above (C09 checks the general case)."""
    enable, disable, ignore = set(), set(), set()
    ea = da = False
    i = 0
    while i < len(flags):
        f_ = flags[i]
        if f_ == "--enable-all":
            ea = True
        elif f_ == "--disable-all":
            da = True
        else:
            {"--enable": enable, "--disable": disable, "--ignore": ignore}[f_].add(flags[i + 1])
            i += 1
        i += 1
    me = f"{PFX}{leaf['code']}"
    cats = {"#" + c for c in leaf["cats"]}
    if me in ignore or cats & ignore:
        return False
    if me in enable:
        return True
    if me in disable:
        return False
    if cats & enable:
        return True
    if cats & disable or da:
        return False
    return leaf["enabled"] or ea


# --------------------------------------------------------------------------------------------
# CLI runs and the property oracle


def cli_run(wdir: Path, idx: int, targets: list[str], flags: list[str], extra: list[str] | None = None) -> dict[str, Any]:
    log = wdir / f"calls{idx}.log"
    argv = ["f.py", "--quiet", *flags]
    for t in targets:
        argv += ["--load", t]
    argv += extra or []
    rc, out, err = core.refurb_cli(argv, cwd=wdir, env_extra={"RV_C16_LOG": str(log)})
    calls = []
    if log.exists():
        for line in log.read_text().splitlines():
            parts = line.split("\t")
            if parts[0] == "call":
                calls.append({"mod": parts[1], "nlocals": int(parts[2]), "settings_type": parts[3], "load": parts[4] if len(parts) > 4 else ""})
        log.unlink()
    return {"argv": argv, "rc": rc, "stdout": out, "stderr": err, "calls": calls}


def covers(target: str, dotted: str) -> bool:
    return dotted == target or dotted.startswith(target + ".")


def classify_targets(targets: list[str]) -> str:
    tags = []
    if len(set(targets)) < len(targets):
        tags.append("dup")
    for i, a in enumerate(targets):
        for j, b in enumerate(targets):
            if a != b and covers(a, b):
                tags.append("pkg+sub" if i < j else "sub+pkg")
    if any(t == BUILTIN for t in targets):
        tags.append("builtin-pkg")
    if any(t.startswith(BUILTIN + ".") for t in targets):
        tags.append("builtin-sub")
    return ",".join(sorted(set(tags))) or "plain"


def judge(world: dict[str, Any], wdir: Path, targets: list[str], flags: list[str], obs: dict[str, Any]) -> list[tuple[str, dict[str, Any], dict[str, Any]]]:
    """The property, applied to one CLI run.  Returns (what, signature, required)."""
    leaves = {d: n for d, n in walk_world(world["tree"]) if n["k"] == "leaf"}
    all_targets = list(targets) + ([world["ep"]] if world.get("ep") else [])
    reach = {d: n for d, n in leaves.items() if any(covers(t, d) for t in all_targets)}
    sel = {d: n for d, n in reach.items() if n["errkind"] in ("one", "errint") and selected_spec(n, flags)}
    out: list[tuple[str, dict[str, Any], dict[str, Any]]] = []
    tclass = classify_targets(targets)
    calls = Counter(c["mod"] for c in obs["calls"])
    diags, other = core.parse_plain(obs["stdout"])
    dcount = Counter(d["code"] for d in diags if d["prefix"] == PFX)
    traceback = "Traceback (most recent call last)" in obs["stderr"]

    def file_of(d: str) -> str:
        return str(wdir / (d.replace(".", "/") + ".py"))

    # (1) a check that is not selected is never called
    for d in leaves:
        if d not in sel and calls[d]:
            why = "not reachable from the targets" if d not in reach else ("no error class" if leaves[d]["errkind"] == "none" else "not selected")
            out.append((f"check {d} ({why}) was called {calls[d]} time(s) with {flags}", {"kind": "unselected-check-called", "why": why}, {"calls": 0}))

    must_reject = [d for d, n in sel.items() if SHAPE[n["shape"]]["spec"] == "invalid"]
    may_reject = [d for d, n in sel.items() if SHAPE[n["shape"]]["spec"] in ("invalid", "either")]
    located = {f"{file_of(d)}:{ln}": d for d in may_reject for ln in def_lines(leaf_source(leaves[d]))}
    loc_m = re.match(r"^(.*?:\d+): (.+)$", other[0]) if len(other) == 1 else None
    rejected_by = located.get(loc_m.group(1)) if loc_m else None

    if traceback:
        shapes = sorted({SHAPE[n["shape"]]["cls"] for d, n in sel.items() if SHAPE[n["shape"]]["spec"] != "valid"})
        last = obs["stderr"].strip().splitlines()[-1] if obs["stderr"].strip() else ""
        exc = last.split(":")[0]
        if len(shapes) == 1:
            out.append((f"selected check with signature shape {shapes[0]} ends in a traceback ({last})", {"kind": "invalid-check-traceback", "shape": shapes[0], "exc": exc}, {"stdout": "one `file:line: reason` line", "exit": 1, "traceback": False}))
        else:
            out.append((f"traceback with selected shapes {shapes}: {last}", {"kind": "traceback", "shapes": shapes, "exc": exc, "targets": tclass}, {"traceback": False}))
        return out

    if must_reject or rejected_by:
        unlocated_ok = [d for d in must_reject if not SHAPE[leaves[d]["shape"]].get("located", True)]
        ok = obs["rc"] == 1 and not diags and len(other) == 1 and (rejected_by is not None or (unlocated_ok and other[0].strip()))
        if not ok:
            shapes = sorted({SHAPE[leaves[d]["shape"]]["cls"] for d in must_reject})
            sig: dict[str, Any] = {"kind": "invalid-check-not-rejected-cleanly"}
            if len(shapes) == 1:
                sig["shape"] = shapes[0]
            else:
                sig.update({"shapes": shapes, "targets": tclass})
            if obs["rc"] == 1 and len(other) == 1 and not diags:
                sig["kind"] = "rejection-without-location"
            out.append((f"selected invalid check(s) {shapes}: exit {obs['rc']}, stdout {obs['stdout'][:200]!r}", sig, {"stdout": "exactly one line `<file of the check>:<line of def check>: reason`", "candidates": sorted(located), "exit": 1}))
        return out

    # (2) nothing must be rejected: every selected check works, once
    if other:
        all_files = {f"{file_of(d)}": d for d in leaves}
        stray = all_files.get(loc_m.group(1).rsplit(":", 1)[0]) if loc_m else None
        if stray is not None and stray not in sel:
            out.append((f"check {stray} is not selected (flags {flags}) but its signature error stops the run: {other[0][:160]!r}",
                        {"kind": "unselected-check-rejected", "shape": SHAPE[leaves[stray]["shape"]]["cls"]}, {"stdout": "diagnostics of the selected checks only", "unselected": "neither called nor validated"}))
            return out
        # which selected check does not survive being called?
        culprits = sorted({SHAPE[n["shape"]]["cls"] for d, n in sel.items() if calls[d] < sum(NODE_COUNTS.get(t, 0) for t in SHAPE[n["shape"]]["types"]) and SHAPE[n["shape"]]["types"]})
        sig = {"kind": "accepted-check-fails-at-call", "message": re.sub(r"'[^']*'", "'…'", other[0])[:80]}
        if len(culprits) == 1:
            sig["shape"] = culprits[0]
        else:
            sig.update({"shapes": culprits, "targets": tclass})
        out.append((f"selected checks {culprits} passed validation but the run ends with {other[0][:160]!r} (exit {obs['rc']})", sig, {"stdout": "diagnostics only", "each_selected_valid_check": "called once per matching node"}))
        return out
    # several selected modules may share one error code: the diagnostics of a code are those of all of them
    want_by_code: Counter = Counter()
    for d, n in sel.items():
        sh = SHAPE[n["shape"]]
        if not (sh["spec"] == "nocheck" or not sh["types"]):
            want_by_code[n["code"]] += sum(NODE_COUNTS[t] for t in sh["types"])
    for d, n in sel.items():
        sh = SHAPE[n["shape"]]
        if sh["spec"] == "nocheck" or not sh["types"]:
            if calls[d] or (dcount[n["code"]] and not want_by_code[n["code"]]):
                out.append((f"module {d} has no usable check but was called", {"kind": "nocheck-called", "shape": n["shape"]}, {"calls": 0}))
            continue
        want = sum(NODE_COUNTS[t] for t in sh["types"])
        if dcount[n["code"]] != want_by_code[n["code"]] or calls[d] != want:
            out.append((
                f"check {d} ({n['shape']}) selected via targets {targets} [{tclass}] flags {flags}: {dcount[n['code']]} diagnostics and {calls[d]} calls, required {want} each",
                {"kind": "diagnostics-not-once", "targets": tclass, "ratio": f"{dcount[n['code']]}/{want}"},
                {"diagnostics": want, "calls": want},
            ))
        if sh["settings"] and sh["spec"] == "valid":
            bad = [c for c in obs["calls"] if c["mod"] == d and (c["settings_type"] != "Settings" or c["load"] != ",".join(targets))]
            if bad:
                out.append((f"check {d} opted into settings but received {bad[0]}", {"kind": "settings-not-passed", "shape": n["shape"]}, {"settings_type": "Settings", "load": targets}))
    extra_codes = set(dcount) - {n["code"] for n in sel.values()} - {n["code"] + 500 for n in sel.values()}
    if extra_codes:
        out.append((f"diagnostics of unselected probe checks: {sorted(extra_codes)}", {"kind": "unselected-check-reports"}, {"codes": []}))
    want_rc = 1 if diags else 0
    if obs["rc"] != want_rc:
        out.append((f"exit status {obs['rc']} with {len(diags)} diagnostics", {"kind": "exit-status", "rc": obs["rc"]}, {"exit": want_rc}))
    return out


# --------------------------------------------------------------------------------------------


def shrink(world: dict[str, Any], pw: dict[str, Any], targets: list[str], flags: list[str], cache: dict[str, list[Any]]) -> list[Any]:
    """Re-run with each selected, not-obviously-fine check alone (one leaf per signature shape)."""
    wl = pw["wl"]
    sel = [d for d, n in wl.items() if any(covers(t, d) for t in targets) and n["errkind"] in ("one", "errint") and selected_spec(n, flags)]
    out: list[Any] = []
    seen_shapes: set[str] = set()
    for d in sel:
        sh = wl[d]["shape"]
        if sh in seen_shapes:
            continue
        seen_shapes.add(sh)
        if sh not in cache:
            t, fl = [d], ["--enable", f"{PFX}{wl[d]['code']}"]
            obs = cli_run(pw["wdir"], 100000 + len(cache), t, fl)
            vs = judge(world, pw["wdir"], t, fl, obs)
            cache[sh] = [(v, t, obs) for v in vs] or [(None, t, obs)]
        out += cache[sh]
    return out if any(x[0] is not None for x in out) else []


def canon_table_model(table: list[list[str]]) -> dict[str, list[str]]:
    d: dict[str, list[str]] = {}
    for ty, mod in table:
        d.setdefault(ty, []).append(mod)
    return d


def norm_model_err(e: dict[str, Any]) -> dict[str, Any]:
    if e["r"] in ("typeError", "importError"):
        return {"r": e["r"], "text": e["text"]}
    return {"r": "crash", "exc": e["exc"]}


def process_world(ctx: Any, world: dict[str, Any], root: Path, builtin_forest: list[dict[str, Any]], n_cases: int, n_cli: int) -> dict[str, Any]:
    """Write the world, run worker + model + CLI runs.  Returns everything `run` needs to account."""
    rng = ctx.rng("world:" + world["id"])
    wdir = root / world["id"]
    wdir.mkdir()
    files = render_world(world["tree"])
    files["f.py"] = F_PY
    if world.get("ep"):
        files["rvdist-0.1.dist-info/METADATA"] = "Metadata-Version: 2.1\nName: rvdist\nVersion: 0.1\n"
        files["rvdist-0.1.dist-info/entry_points.txt"] = f"[refurb.plugins]\nprobe = {world['ep']}\n"
    for rel, src in files.items():
        p = wdir / rel
        p.parent.mkdir(parents=True, exist_ok=True)
        p.write_text(src)
    wforest = [n for n in fs_forest(wdir) if n["name"] != "f"]
    names = list(forest_names(wforest))
    leaves = dict(forest_leaves(wforest))
    wl = {d: n for d, n in walk_world(world["tree"]) if n["k"] == "leaf"}
    codes = [n["code"] for n in wl.values()]
    bnames = list(forest_names(builtin_forest, BUILTIN + "."))
    b_sub = next((n for n in bnames if n.count(".") == 2 and any(x.startswith(n + ".") for x in bnames)), None)
    b_leaf = next((n for n in bnames if n.count(".") == 3), None)
    universe = names + [BUILTIN] + [x for x in (b_sub, b_leaf) if x]
    bogus = ["rv_nope", names[0] + ".nope"] + ([next(iter(leaves)) + ".x"] if leaves else [])

    # ---- target lists
    tlists: list[list[str]] = [[]]
    if world["id"] == "shapes":
        tlists += [[d] for d in leaves] + [["rvs"], ["rvs", "rvs"], ["rvs.m_v3", "rvs", BUILTIN]]
    else:
        tlists += [[a] for a in universe]
        pairs = [[a, b] for a in universe for b in universe]
        tlists += pairs if len(pairs) <= 400 else rng.sample(pairs, 400)
        tlists += [[a, b, a] for a, b in rng.sample(pairs, min(len(pairs), 20))]
    while len(tlists) < n_cases:
        k = rng.randint(3, 6)
        tl = [rng.choice(universe) for _ in range(k)]
        if rng.random() < 0.15:
            tl.insert(rng.randint(0, k), rng.choice(bogus))
        tlists.append(tl)
    tlists += [[bogus[0]], [names[0], bogus[1]], [bogus[-1], names[0]], [""], [names[0], "", bogus[0]], [bogus[0], ""],
               [names[0] + ".nope.deeper"], [bogus[-1] + ".y"]]
    fsets = flagsets(codes, rng)
    cases = []
    for i, tl in enumerate(tlists):
        if world["id"] == "shapes" and len(tl) == 1 and tl[0] in wl:
            me = f"{PFX}{wl[tl[0]]['code']}"
            for fl in ([], ["--disable", me], ["--disable-all", "--enable", me], ["--ignore", me], ["--enable", me]):
                cases.append({"targets": tl, "flags": fl})
        else:
            cases.append({"targets": tl, "flags": fsets[i % len(fsets)] if i % 3 else rng.choice(flagsets(codes, rng))})

    # ---- CLI cases (also run in-process, so that the model's calls can be compared with the call log)
    cli_cases: list[tuple[list[str], list[str]]] = []
    code_of = lambda d: f"{PFX}{wl[d]['code']}"  # noqa: E731
    if world["id"] == "shapes":
        cli_leaves = [d for d, n in wl.items() if SHAPE[n["shape"]].get("cli", True) and n["errkind"] != "two"]
        batchable = [d for d in cli_leaves if SHAPE[wl[d]["shape"]]["spec"] == "valid" and SHAPE[wl[d]["shape"]]["cls"] == wl[d]["shape"] and wl[d]["errkind"] == "one"]
        if n_cli > 100:
            for d in cli_leaves:
                cli_cases.append(([d], ["--enable", code_of(d)]))
                cli_cases.append(([d], ["--disable", code_of(d)]))
        else:
            for d in cli_leaves:
                if d not in batchable:
                    cli_cases.append(([d], ["--enable", code_of(d)]))
        fl: list[str] = ["--disable-all"]
        for d in batchable:
            fl += ["--enable", code_of(d)]
        cli_cases.append((["rvs"], fl))
        cli_cases.append((["rvs", "rvs"], ["--disable-all"]))
        fl = []
        for d in wl:
            if d not in batchable:
                fl += ["--disable", code_of(d)]
        cli_cases.append((["rvs.m_v3", "rvs", BUILTIN], fl))
        cli_cases.append((["rvs", "rvs.m_v3"], ["--disable-all", "--enable", f"#{CAT}", *[x for d in wl if d not in batchable and CAT in wl[d]["cats"] for x in ("--disable", code_of(d))]]))
    else:
        ok_tl = [tl for tl in tlists if all(t in universe for t in tl)]
        if world["id"] == "nest":
            fixed = [["rvq"], ["rvq", "rvq"], ["rvq", "rvq.a"], ["rvq.a", "rvq"], ["rvq.sub.deep.d", "rvq.sub", "rvq"], ["rvq.sub", "rvq.sub.deep"],
                     [BUILTIN, "rvq.b"], ["rvq.b", b_leaf or BUILTIN, "rvq.b"], ["rvm", "rvm"], ["rvep"], ["rvep.p"], [], ["rvd"], ["rvd.two", "rvd.one"], ["rvd.two"]]
            for i, tl in enumerate(fixed):
                cli_cases.append((tl, fsets[i % len(fsets)]))
                if i % 3 == 0 or n_cli > 20:
                    cli_cases.append((tl, ["--enable-all"]))
        # targets whose dotted name merely EXTENDS another target's name (rvp3 / rvp3x, a.sub / a.sub2.b): both must be walked
        sib = [[a, b] for a in universe for b in universe if a != b and b.startswith(a) and not covers(a, b)]
        for tl in sib[:6]:
            cli_cases.append((tl, ["--enable-all"]))
        for tl in rng.sample(ok_tl, min(len(ok_tl), max(0, n_cli - len(cli_cases)))):
            cli_cases.append((tl, rng.choice(fsets)))
    have = {(tuple(c["targets"]), tuple(c["flags"])) for c in cases}
    for tl, fl in cli_cases:
        if (tuple(tl), tuple(fl)) not in have:
            cases.append({"targets": tl, "flags": fl})
            have.add((tuple(tl), tuple(fl)))

    bleaves = [d for d, _ in forest_leaves(builtin_forest, BUILTIN + ".")]
    w = run_worker(wdir, {"leaves": list(leaves) + bleaves, "cases": cases})

    # ---- forest for the model: file-system skeleton + introspected payloads
    def fill(forest: list[dict[str, Any]], pre: str) -> list[dict[str, Any]]:
        res = []
        for n in forest:
            if n["k"] == "pkg":
                res.append({"k": "pkg", "name": n["name"], "kids": fill(n["kids"], pre + n["name"] + ".")})
            else:
                info = w["leaves"].get(pre + n["name"], {})
                res.append({"k": "leaf", "name": n["name"], "errs": info.get("errs", []), "check": info.get("check"), "file": info.get("file", ""), "line": info.get("line", 0)})
        return res

    forest = fill(wforest, "") + [{"k": "pkg", "name": "refurb", "kids": [{"k": "pkg", "name": "checks", "kids": fill(builtin_forest, BUILTIN + ".")}]}]
    ep = [world["ep"]] if world.get("ep") else []
    model_cases = [{"targets": c["targets"] + ep, "settings": a["settings"], "nodes": NODES} for c, a in zip(cases, w["cases"])]
    sig_items = [{"sig": info["check"], "file": info["file"], "line": info["line"], "name": d} for d, info in w["leaves"].items() if info.get("check")]
    model: dict[str, Any] = {"cases": None, "sigs": None}
    if ctx.driver.available():
        ans = ctx.driver.batch([
            {"verb": "loader_batch", "forest": forest, "builtin": BUILTIN, "cases": model_cases},
            {"verb": "valid_signatures", "items": sig_items},
        ])
        if isinstance(ans[0], list) and isinstance(ans[1], list):
            model = {"cases": ans[0], "sigs": ans[1]}
        else:  # a stale driver executable (its build failed): reported as a broken correspondence, not a crash
            model["error"] = json.dumps(ans)[:300]

    return {"world": world, "wdir": wdir, "files": files, "cases": cases, "worker": w, "model": model, "model_cases": model_cases,
            "sig_items": sig_items, "cli_cases": cli_cases, "leaves": leaves, "wl": wl}


def account_world(ctx: Any, pw: dict[str, Any], cli_obs: list[dict[str, Any]], seen_viol: set[str]) -> None:
    res = ctx.res
    world, w, model = pw["world"], pw["worker"], pw["model"]
    wid = world["id"]
    # ---- signatures
    if model["sigs"] is None:
        res.disagree("driver", wid, None, model.get("error", "driver executable not built"))
    else:
        for item, m in zip(pw["sig_items"], model["sigs"]):
            info = w["leaves"][item["name"]]
            builtin = item["name"].startswith(BUILTIN + ".")
            if builtin and wid != "shapes":
                continue
            res.case(("sig", json.dumps(item["sig"], sort_keys=True)), nontrivial=True)
            res.bump("sig:builtin" if builtin else "sig:probe")
            mres = m["res"]
            mnorm = {"r": "ok", "types": mres["types"]} if mres["r"] == "ok" else norm_model_err(mres)
            rnorm = info["real_extract"]
            if mnorm != rnorm:
                res.disagree("validSignature vs extract_function_types", {"module": item["name"], "sig": item["sig"]}, mnorm, rnorm)
            res.bump("sig_outcome:" + (mres["r"] if mres["r"] != "typeError" else ("located" if mres["located"] else "unlocated")))
            if item["sig"]["callable"] and m["annotations"] != info.get("real_annotations"):
                res.disagree("Sig.annotations vs check.__annotations__", item["name"], m["annotations"], info.get("real_annotations"))
            rc_ = info.get("real_call")
            if rc_ is not None and mres["r"] == "ok":
                mcall = {"nargs": m["arity"], "bind_error": not m["binds"]}
                if mcall != rc_:
                    res.disagree("runCheckArity/binds vs RefurbVisitor.run_check", {"module": item["name"], "sig": item["sig"]}, mcall, rc_)
    # ---- get_error_class
    for d, info in w["leaves"].items():
        if "import_error" in info:
            res.disagree("worker import", d, None, info["import_error"])
    # ---- get_modules / load_checks
    if model["cases"] is not None:
        for c, a, m, mc in zip(pw["cases"], w["cases"], model["cases"], pw["model_cases"]):
            key = (wid, tuple(c["targets"]), tuple(c["flags"]))
            res.case(key, nontrivial=bool(c["targets"]))
            res.bump("targets:" + classify_targets(c["targets"]).split(",")[0])
            me = m["modules"]["err"]
            if me is not None:
                me = {"exc": "ModuleNotFoundError", "text": me["text"]} if me["r"] == "importError" else {"exc": me.get("exc"), "text": None}
            mm = {"out": m["modules"]["out"], "err": me}
            if mm != a["modules"]:
                res.disagree("getModules vs get_modules", {"world": wid, "targets": mc["targets"]}, mm, a["modules"])
            if len(set(a["modules"]["out"])) != len(a["modules"]["out"]):
                dup = [x for x, k in Counter(a["modules"]["out"]).items() if k > 1]
                sig = {"kind": "module-yielded-twice", "targets": classify_targets(c["targets"])}
                if json.dumps(sig) not in seen_viol:
                    seen_viol.add(json.dumps(sig))
                    res.violate(f"get_modules({c['targets']}) yields {dup[:3]} more than once", sig,
                                {"files": pw["files"], "call": f"[m.__name__ for m in refurb.loader.get_modules({c['targets']!r})]", "cwd": "a directory holding `files`", "observed": a["modules"], "required": "each module once"})
            ml = m["load"]
            if ml["r"] == "ok":
                mln: dict[str, Any] = {"r": "ok", "table": canon_table_model(ml["table"])}
            else:
                mln = norm_model_err(ml["err"])
            if mln != a["load"]:
                res.disagree("loadChecks vs load_checks", {"world": wid, "targets": mc["targets"], "flags": c["flags"]}, _short(mln), _short(a["load"]))
            res.bump("load:" + a["load"]["r"])
        mid = len(pw["cases"]) // 2
        res.sample({"world": wid, "targets": pw["cases"][mid]["targets"], "flags": pw["cases"][mid]["flags"], "get_modules_probe_part": [x for x in w["cases"][mid]["modules"]["out"] if not x.startswith(BUILTIN)], "ends": w["cases"][mid]["modules"]["err"]})
    # ---- CLI oracle + call-log correspondence
    by_case = {(tuple(c["targets"]), tuple(c["flags"])): m for c, m in zip(pw["cases"], model["cases"] or [])}
    shrink_cache: dict[str, list[Any]] = {}
    for (targets, flags), obs in zip(pw["cli_cases"], cli_obs):
        res.case(("cli", wid, tuple(targets), tuple(flags)), nontrivial=any(covers(t, d) for t in targets for d in pw["wl"]) or bool(world.get("ep")))
        res.bump("cli_runs")
        res.bump("cli_targets:" + classify_targets(targets).split(",")[0])
        verdicts = [(v, targets, obs) for v in judge(world, pw["wdir"], targets, flags, obs)]
        if any("shapes" in v[1] for v, _, _ in verdicts):
            # several suspicious checks were selected at once: shrink to one selected check per run
            shrunk = shrink(world, pw, targets, flags, shrink_cache)
            if shrunk:
                res.bump("cli_shrink_runs", len(shrunk))
                verdicts = [x for x in verdicts if "shapes" not in x[0][1]] + [x for x in shrunk if x[0] is not None]
        for (what, sig, required), vt, vobs in verdicts:
            k = json.dumps(sig, sort_keys=True)
            if k in seen_viol:
                continue
            seen_viol.add(k)
            res.violate(what, sig, {
                "files": {r: s for r, s in pw["files"].items() if r == "f.py" or any(covers(t, r[:-3].replace("/", ".")) or r.endswith("__init__.py") or "dist-info" in r for t in vt)} or pw["files"],
                "argv": vobs["argv"], "env": {"RV_C16_LOG": "calls.log"}, "cwd": "a directory holding `files`",
                "observed": {"rc": vobs["rc"], "stdout": vobs["stdout"][-1500:], "stderr": vobs["stderr"][-1500:], "calls": vobs["calls"][:20]},
                "required": required,
                "how": "write `files` into an empty directory, cd there, run `python -m refurb` + argv (RV_C16_LOG=calls.log records the calls)",
            })
        # model's calls vs the real call log (same targets, same selection)
        m = by_case.get((tuple(targets), tuple(flags)))
        if m is not None and m["load"]["r"] == "ok" and m["load"]["run"]["r"] == "ok":
            probe = pw["wl"]
            star = lambda mod, n: "*" if "default" in probe[mod]["shape"] else n  # noqa: E731  (locals != arguments when a default fills in)
            mcalls = Counter((c[0], star(c[0], c[2])) for c in m["load"]["run"]["calls"] if c[0] in probe)
            rcalls = Counter((c["mod"], star(c["mod"], c["nlocals"])) for c in obs["calls"])
            if mcalls != rcalls and "Traceback" not in obs["stderr"]:
                res.disagree("visit (calls, nargs) vs call log", {"world": wid, "targets": targets, "flags": flags}, sorted(mcalls.items()), sorted(rcalls.items()))
    if cli_obs:
        o = cli_obs[len(cli_obs) // 2]
        res.sample({"world": wid, "argv": o["argv"], "rc": o["rc"], "stdout": o["stdout"][:200], "calls": len(o["calls"])})


def _short(x: Any) -> Any:
    s = json.dumps(x, sort_keys=True)
    return x if len(s) < 1500 else s[:1500] + "…"


def probes(ctx: Any, root: Path) -> None:
    """Load targets that cannot be imported, and malformed plugins outside the signature contract."""
    res = ctx.res
    d = root / "probes"
    d.mkdir()
    files = {
        "f.py": F_PY,
        "rvok.py": leaf_source(mk_leaf("rvok", "v2", 900)),
        "rvpk/__init__.py": "",
        "rvpk/m.py": leaf_source(mk_leaf("m", "v2", 901)),
        "rvboom.py": 'raise RuntimeError("boom at import")\n',
        "rvnocode.py": leaf_source(mk_leaf("rvnocode", "v2", 902)).replace("    code = 902\n", ""),
    }
    for rel, src in files.items():
        (d / rel).parent.mkdir(parents=True, exist_ok=True)
        (d / rel).write_text(src)
    runs = [
        ("missing-top", ["f.py", "--quiet", "--load", "rv_nonexistent_mod"], "lint"),
        ("missing-top", ["--load", "rv_nonexistent_mod", "--explain", "FURB100"], "explain"),
        ("missing-sub", ["f.py", "--quiet", "--load", "rvpk.nope"], "lint"),
        ("leaf-as-package", ["f.py", "--quiet", "--load", "rvok.x"], "lint"),
        ("after-good-target", ["f.py", "--quiet", "--load", "rvok", "--load", "rv_nonexistent_mod"], "lint"),
        ("empty-name", ["f.py", "--quiet", "--load", ""], "lint"),
        ("relative-name", ["f.py", "--quiet", "--load", ".rvok"], "lint"),
        ("note:plugin-raises-on-import", ["f.py", "--quiet", "--load", "rvboom"], "lint"),
        ("note:error-class-without-code", ["f.py", "--quiet", "--load", "rvnocode"], "lint"),
    ]
    with ThreadPoolExecutor(8) as ex:
        outs = list(ex.map(lambda r: core.refurb_cli(r[1], cwd=d), runs))
    for (cls, argv, mode), (rc, out, err) in zip(runs, outs):
        res.case(("probe", cls, mode), nontrivial=True)
        res.bump("probe_runs")
        tb = "Traceback (most recent call last)" in err
        last = err.strip().splitlines()[-1] if err.strip() else ""
        lines = [l for l in out.split("\n") if l.strip()]
        if cls.startswith("note:"):
            res.notes.append(f"{cls[5:]}: `refurb {' '.join(argv)}` -> exit {rc}, " + (f"traceback ending `{last}`" if tb else f"stdout {out.strip()[:120]!r}") + " (outside the signature contract; recorded, not judged)")
            continue
        target = [argv[i + 1] for i, a_ in enumerate(argv) if a_ == "--load"][-1]  # the one that cannot be imported
        clean = rc == 1 and not tb and len(lines) == 1 and (not target or target.lstrip(".") in lines[0])
        if not clean:
            exc = last.split(":")[0] if tb else "none"
            res.violate(
                f"`--load` target that cannot be imported ({cls}, {mode}): exit {rc}, " + (f"traceback ending `{last}`" if tb else f"stdout {out[:200]!r}"),
                {"kind": "load-target-not-importable", "exc": exc, "mode": mode},
                {"files": {k: v for k, v in files.items() if k in ("f.py", "rvok.py", "rvpk/__init__.py", "rvpk/m.py")}, "argv": argv, "cwd": "a directory holding `files`",
                 "observed": {"rc": rc, "stdout": out[-800:], "stderr": err[-1500:]},
                 "required": {"exit": 1, "stdout": "one line naming the target that cannot be loaded", "traceback": False},
                 "how": "write `files` into an empty directory, cd there, run `python -m refurb` + argv"},
            )


def run(ctx: Any) -> None:
    res = ctx.res
    rng = ctx.rng("worlds")
    n_rand = 4 if ctx.quick else 16
    n_cases = 150 if ctx.quick else 700
    n_cli = 6 if ctx.quick else 24
    builtin_forest = fs_forest(core.REPO / "refurb" / "checks")
    worlds = [shape_world(), nest_world()] + [random_world(rng, i) for i in range(n_rand)]
    seen_viol: set[str] = set()
    with core.scratch("rv-c16-") as root:
        with ThreadPoolExecutor(8) as ex:
            pws = list(ex.map(lambda wd: process_world(ctx, wd, root, builtin_forest, n_cases, 200 if (wd["id"] == "shapes" and not ctx.quick) else n_cli), worlds))
        jobs = [(pw, i, t, f) for pw in pws for i, (t, f) in enumerate(pw["cli_cases"])]
        with ThreadPoolExecutor(16) as ex:
            obs = list(ex.map(lambda j: cli_run(j[0]["wdir"], j[1], j[2], j[3]), jobs))
        k = 0
        for pw in pws:
            n = len(pw["cli_cases"])
            account_world(ctx, pw, obs[k : k + n], seen_viol)
            k += n
        probes(ctx, root)
    res.rule = (
        "GEN-PLUGIN worlds = real package trees in scratch directories: `shapes` (one module per signature shape: "
        f"{len(SHAPES)} shapes = arity 0-5, missing/wrong/quoted/unhashable annotations, unions, settings misnamed/mistyped/optional/keyword-only/defaulted, "
        "with and without return annotation, non-callable, falsy, absent; modules with no / two Error classes), `nest` (sub-packages to depth 3, empty package, "
        "directory without __init__, entry-point plugin) and seeded random trees. A correspondence case = (world, target list, selection flags): all lists of length <=2 over "
        "every dotted name of the world + refurb.checks + one of its sub-packages + one of its modules, random lists to length 7, with non-importable names mixed in; "
        "11 selection flag lists (--enable/--disable/--ignore code or #category, --enable-all, --disable-all and combinations). A signature case = one check object "
        "(probe shapes and all built-in checks). A CLI case = one fresh `python -m refurb` run. Non-trivial = non-empty target list (correspondence) / a probe module is reachable (CLI); "
        "distinct = distinct (world, targets, flags) / distinct signature"
    )
    res.assumptions += [
        "module identity = dotted name: one sys.path root per file (the same file reachable under two names, e.g. via two sys.path entries, is two modules to Python and to refurb)",
        "pkgutil.walk_packages lists a directory in sorted os.listdir order, packages before their contents, and skips directories without __init__.py (harness/props/c16.py:fs_forest); a sub-package whose __init__ raises ImportError is skipped silently by pkgutil and is not modelled",
        "`check` is a plain def/lambda (its __annotations__ are what the def statement made) or a non-callable object; classes and functools.partial objects as `check` are outside the model",
        "selection itself (should_load_check) is C09's subject; here it is a parameter, exercised through 11 flag lists whose README reading is unambiguous",
        "a non-callable `check` has no source line: for it the oracle requires one line + exit 1 without demanding `file:line:`",
    ]
    res.not_proved += [
        "what the visitor visits (node sequence) is a parameter of `visit` (C04)",
        "entry-point plugins are treated as additional targets (modelled in the harness by appending them to the target list; exercised by one world)",
    ]


def replay(path: Any) -> int:
    data = json.loads(Path(path).read_text())
    rp = data.get("replay", {})
    print(json.dumps({k: v for k, v in data.items() if k != "replay"}, indent=1))
    if "argv" not in rp or "files" not in rp:
        print(json.dumps(rp, indent=1)[:4000])
        return 0
    with core.scratch("rv-c16-replay-") as d:
        for rel, src in rp["files"].items():
            (d / rel).parent.mkdir(parents=True, exist_ok=True)
            (d / rel).write_text(src)
        rc, out, err = core.refurb_cli(rp["argv"], cwd=d, env_extra={"RV_C16_LOG": str(d / "calls.log")})
        print("argv:", rp["argv"])
        print("exit:", rc)
        print("stdout:", out[-2000:])
        print("stderr:", err[-2000:])
        if (d / "calls.log").exists():
            print("calls.log:", (d / "calls.log").read_text()[-1500:])
        print("required:", json.dumps(rp.get("required"), indent=1))
    return 0
