/-
C18 — Refurb only reads: sources untouched, side outputs confined and well-formed.

Part A: the temp-file lifecycle of `run_refurb` (Model/Lifecycle.lean, `run fin`), for the two shapes of
the code the translator distinguishes (Generated/LifecycleShape.lean): `fin = false` — refurb 2.0.0,
`unlink()` is a plain statement after `output_timing_stats` — and `fin = true` — the unlink sits in a
`finally` clause.  The full statement "no temporary file is left behind" (`NoTempLeft`) is FALSE for
`fin = false` (refuted by the `CompileError` path; proved under the guard that makes it true) and TRUE
for `fin = true`; `leak_iff` says exactly which fault sequences leak.
Part B: the statistics file (`timingData rs`, `renderObj`) for timing files, module lists and numbers
of any size, for the two shapes of the line parse the translator distinguishes by probing
(`Generated.timingRsplit`): `rs = false` — refurb 2.0.0, `module, micro_seconds = line.split()` — and
`rs = true` — `line.rsplit(maxsplit=1)`.  Shape, keys, order, values and text of the file are proved for
both (`stats_shape`, `stats_values`, `text_printable_ascii`, …).  The full statement "every line mypy
writes is cut into its module name and its count" (`MypyLinesParse`) is FALSE for `rs = false` (refuted
by the module `a b`; proved for names without whitespace) and TRUE for `rs = true`, from which
`mypy_file_never_raises` follows for build graphs of any size.

All statements are about the model; the correspondence run (harness/props/c18.py) ties `run` to an
instrumented `run_refurb` and `timingJson` to `output_timing_stats`, and the file-system snapshots
of the oracle are what give `no_source_write` force.
-/
import RefurbVerif.Model.Lifecycle
import RefurbVerif.Lemmas.Sort

namespace RefurbVerif.C18
open RefurbVerif RefurbVerif.Lifecycle

/-! ## Part A — lifecycle -/

/-- every step between `mkstemp()` and `unlink()` succeeds -/
def Completes (s : Scenario) : Prop :=
  s.build = .ok ∧ s.load = .ok ∧ (∀ v ∈ s.visits, v = Visit.ok) ∧ s.ots = .ok

theorem visitAll_events (i : Nat) (vs : List Visit) :
    ∀ e ∈ (visitAll i vs).1, ∃ j r, e = Event.visit j r := by
  induction vs generalizing i with
  | nil => simp [visitAll]
  | cons v vs ih =>
    cases v with
    | ok =>
      intro e he
      simp only [visitAll, List.mem_cons] at he
      rcases he with rfl | he
      · exact ⟨i, .ok, rfl⟩
      · exact ih (i + 1) e he
    | raises =>
      intro e he
      simp only [visitAll, List.mem_cons, List.not_mem_nil, or_false] at he
      exact ⟨i, .raises, he⟩

theorem visitAll_complete (i : Nat) (vs : List Visit) :
    (visitAll i vs).2 = true ↔ ∀ v ∈ vs, v = Visit.ok := by
  induction vs generalizing i with
  | nil => simp [visitAll]
  | cons v vs ih =>
    cases v with
    | ok => simp [visitAll, ih (i + 1)]
    | raises => simp [visitAll]

theorem step_visit (t : Temp) (j : Nat) (r : Visit) : t.step (.visit j r) = some t := by
  cases t <;> rfl

theorem steps_visits (t : Temp) (vs rest : List Event) (h : ∀ e ∈ vs, ∃ j r, e = Event.visit j r) :
    t.steps (vs ++ rest) = t.steps rest := by
  induction vs with
  | nil => rfl
  | cons e vs ih =>
    obtain ⟨j, r, rfl⟩ := h _ List.mem_cons_self
    simp only [List.cons_append, Temp.steps, step_visit]
    exact ih (fun e he => h e (List.mem_cons_of_mem _ he))

/-- The state of the temp file after any run, in closed form, for both shapes of the code (`fin` = the
    unlink is in a `finally` clause): the file exists only if `--timing-stats` was given and mypy's
    options were accepted; it is removed iff the code has the `finally` or every later step succeeded. -/
theorem finalTemp_eq (fin : Bool) (s : Scenario) [Decidable (Completes s)] :
    finalTemp fin s = some (if s.timingStats = true ∧ s.popts = .ok then
                          (if fin = true ∨ Completes s then Temp.unlinked else Temp.created)
                        else Temp.none) := by
  obtain ⟨ts, po, b, l, vs, o⟩ := s
  have hv := visitAll_events 0 vs
  have hc := visitAll_complete 0 vs
  cases po
  case systemExit => simp [finalTemp, run, Temp.steps, Temp.step]
  case ok =>
    cases b
    case compileError =>
      cases ts <;> cases fin <;> simp [finalTemp, run, fromBuild, leave, Temp.steps, Temp.step, Completes]
    case otherExc =>
      cases ts <;> cases fin <;> simp [finalTemp, run, fromBuild, leave, Temp.steps, Temp.step, Completes]
    case ok =>
      cases l
      case typeError =>
        cases ts <;> cases fin <;>
          simp [finalTemp, run, fromBuild, afterBuild, leave, Temp.steps, Temp.step, Completes]
      case ok =>
        by_cases hall : ∀ v ∈ vs, v = Visit.ok
        · have h2 : (visitAll 0 vs).2 = true := hc.mpr hall
          cases ts <;> cases fin <;> cases o <;>
            simp [finalTemp, run, fromBuild, afterBuild, tail, leave, Temp.steps, Temp.step, Completes, h2,
              steps_visits _ _ _ hv] <;> exact hall
        · have h2 : (visitAll 0 vs).2 = false := by
            cases h : (visitAll 0 vs).2
            · rfl
            · exact absurd (hc.mp h) hall
          cases ts <;> cases fin <;>
            simp [finalTemp, run, fromBuild, afterBuild, leave, Temp.steps, Temp.step, Completes, h2,
              steps_visits _ _ _ hv, hall]

/-- The trace never creates a second temp file and never unlinks one that does not exist. -/
theorem legal (fin : Bool) (s : Scenario) : ∃ t, finalTemp fin s = some t := by
  classical
  exact ⟨_, finalTemp_eq fin s⟩

/-- FULL STATEMENT: whatever fails, no temp file is left in `$TMPDIR`. -/
def NoTempLeft (fin : Bool) : Prop :=
  ∀ s : Scenario, finalTemp fin s = some Temp.none ∨ finalTemp fin s = some Temp.unlinked

/-- `refurb broken.py --timing-stats out.json`: mkstemp · build ↦ CompileError · return -/
def leakCompileError : Scenario :=
  { timingStats := true, popts := .ok, build := .compileError, load := .ok, visits := [], ots := .ok }

/-- `refurb ok.py --timing-stats nodir/out.json`: everything succeeds until FILE cannot be written -/
def leakWriteError : Scenario :=
  { timingStats := true, popts := .ok, build := .ok, load := .ok, visits := [.ok], ots := .writeError }

/-- The property FAILS for the code of refurb 2.0.0 (unlink as a plain statement after
    `output_timing_stats`): a syntax error or a missing file with `--timing-stats` leaves the temp file. -/
theorem no_temp_left_refuted : ¬ NoTempLeft false := by
  intro h
  have := h leakCompileError
  revert this
  decide

/-- …and so does an unwritable stats path, which also ends in a traceback. -/
theorem write_error_leaks_and_crashes :
    finalTemp false leakWriteError = some Temp.created ∧ outcome false leakWriteError = some Outcome.crashed := by
  decide

/-- With the unlink in a `finally` clause that covers build … output_timing_stats the property HOLDS,
    for every fault sequence. -/
theorem no_temp_left_with_finally : NoTempLeft true := by
  classical
  intro s
  rw [finalTemp_eq true s]
  by_cases h1 : s.timingStats = true ∧ s.popts = .ok <;> simp [h1]

/-- The property holds of the code exactly when it has that `finally`. -/
theorem no_temp_left_iff (fin : Bool) : NoTempLeft fin ↔ fin = true := by
  cases fin
  · simp only [Bool.false_eq_true, iff_false]; exact no_temp_left_refuted
  · simp only [iff_true]; exact no_temp_left_with_finally

/-- For the working tree as the translator read it (Generated/LifecycleShape.lean). -/
theorem no_temp_left_now : NoTempLeft Generated.unlinkInFinally ↔ Generated.unlinkInFinally = true :=
  no_temp_left_iff _

/-- Exactly the runs that leak: no `finally`, `--timing-stats` given, options accepted, and some step
    between `mkstemp()` and `unlink()` failed (build, loading the checks, a check, `output_timing_stats`). -/
theorem leak_iff (fin : Bool) (s : Scenario) :
    finalTemp fin s = some Temp.created ↔
      fin = false ∧ s.timingStats = true ∧ s.popts = .ok ∧ ¬ Completes s := by
  classical
  rw [finalTemp_eq fin s]
  by_cases h1 : s.timingStats = true ∧ s.popts = .ok
  · by_cases h2 : Completes s <;> cases fin <;> simp [h1, h2]
  · simp only [h1, if_false]
    constructor
    · intro h; cases h
    · intro h; exact absurd ⟨h.2.1, h.2.2.1⟩ h1

/-- What holds of either shape: when the build, the loading of the checks, every visit and
    `output_timing_stats` succeed, nothing is left behind. -/
theorem no_temp_left_partial (fin : Bool) (s : Scenario) (h : Completes s) :
    finalTemp fin s = some Temp.none ∨ finalTemp fin s = some Temp.unlinked := by
  classical
  rw [finalTemp_eq fin s]
  by_cases h1 : s.timingStats = true ∧ s.popts = .ok <;> simp [h1, h]

/-- …and in that case the temp file that was created is the one that was removed. -/
theorem completes_unlinked (fin : Bool) (s : Scenario) (h : Completes s) (ht : s.timingStats = true)
    (hp : s.popts = .ok) : finalTemp fin s = some Temp.unlinked := by
  classical
  rw [finalTemp_eq fin s]; simp [h, ht, hp]

/-- the events that involve neither the temp file nor FILE -/
def plainEvent : Event → Bool
  | .processOptions _ | .build _ | .loadChecks _ | .visit _ _ | .outputTimingStats .skipped | .done _ => true
  | _ => false

theorem no_timing_plain (fin : Bool) (s : Scenario) (h : s.timingStats = false) :
    ∀ e ∈ run fin s, plainEvent e = true := by
  obtain ⟨ts, po, b, l, vs, o⟩ := s
  simp only at h
  subst h
  have hv : ∀ e ∈ (visitAll 0 vs).1, plainEvent e = true := by
    intro e he
    obtain ⟨j, r, rfl⟩ := visitAll_events 0 vs e he
    rfl
  have ht : ∀ e ∈ (if (visitAll 0 vs).2 = true then
        [Event.outputTimingStats OtsResult.skipped, Event.done Outcome.returned]
      else [Event.done Outcome.crashed]), plainEvent e = true := by
    intro e he
    split at he <;> simp at he <;> rcases he with rfl | rfl <;> rfl
  intro e he
  cases po <;> cases b <;> cases l <;> simp [run, fromBuild, afterBuild, tail, leave] at he
  all_goals first
    | (rcases he with rfl | rfl <;> rfl)
    | (rcases he with rfl | rfl | rfl <;> rfl)
    | (rcases he with rfl | rfl | rfl | rfl <;> rfl)
    | (rcases he with rfl | rfl | rfl | he | he
       · rfl
       · rfl
       · rfl
       · exact hv e he
       · exact ht e he)

/-- Without `--timing-stats` no temp file is ever created, whatever fails. -/
theorem no_timing_no_temp (fin : Bool) (s : Scenario) (h : s.timingStats = false) :
    finalTemp fin s = some Temp.none ∧ Event.mkstemp ∉ run fin s ∧ Event.unlink ∉ run fin s := by
  classical
  refine ⟨by rw [finalTemp_eq fin s]; simp [h], ?_, ?_⟩
  · intro hm; exact absurd (no_timing_plain fin s h _ hm) (by decide)
  · intro hm; exact absurd (no_timing_plain fin s h _ hm) (by decide)

/-- When mypy rejects its options (bad flag after `--`, empty package directory) nothing was created yet. -/
theorem system_exit_no_temp (fin : Bool) (s : Scenario) (h : s.popts = .systemExit) :
    finalTemp fin s = some Temp.none := by
  classical
  rw [finalTemp_eq fin s]; simp [h]

/-! ### Ordering -/

/-- in `l`, every event satisfying `isB` is preceded by the event `a` -/
def Precedes (a : Event) (isB : Event → Prop) (l : List Event) : Prop :=
  ∀ pre x post, l = pre ++ x :: post → isB x → a ∈ pre

theorem Precedes.head {a : Event} {isB : Event → Prop} (l : List Event) (h : ¬ isB a) :
    Precedes a isB (a :: l) := by
  intro pre x post heq hx
  cases pre with
  | nil => simp only [List.nil_append, List.cons.injEq] at heq; exact absurd (heq.1 ▸ hx) h
  | cons c pre => simp only [List.cons_append, List.cons.injEq] at heq; simp [heq.1]

theorem Precedes.skip {a c : Event} {isB : Event → Prop} {l : List Event} (hc : ¬ isB c)
    (h : Precedes a isB l) : Precedes a isB (c :: l) := by
  intro pre x post heq hx
  cases pre with
  | nil => simp only [List.nil_append, List.cons.injEq] at heq; exact absurd (heq.1 ▸ hx) hc
  | cons d pre =>
    simp only [List.cons_append, List.cons.injEq] at heq
    exact List.mem_cons_of_mem _ (h pre x post heq.2 hx)

theorem Precedes.absent {a : Event} {isB : Event → Prop} {l : List Event} (h : ∀ x ∈ l, ¬ isB x) :
    Precedes a isB l := by
  intro pre x post heq hx
  exact absurd hx (h x (by simp [heq]))

theorem Precedes.skips {a : Event} {isB : Event → Prop} {cs l : List Event} (hc : ∀ c ∈ cs, ¬ isB c)
    (h : Precedes a isB l) : Precedes a isB (cs ++ l) := by
  induction cs with
  | nil => exact h
  | cons c cs ih =>
    exact Precedes.skip (hc c List.mem_cons_self) (ih (fun c hc' => hc c (List.mem_cons_of_mem _ hc')))

def isBuild (e : Event) : Prop := ∃ r, e = Event.build r

/-- `mkstemp()` happens before the build — which is why a failing build strands the file when there is
    no `finally`. -/
theorem mkstemp_before_build (fin : Bool) (s : Scenario) (h : s.timingStats = true) :
    Precedes .mkstemp isBuild (run fin s) := by
  unfold run
  cases s.popts with
  | systemExit => exact Precedes.absent (by simp [isBuild])
  | ok =>
    simp only [h, if_true, List.singleton_append]
    exact Precedes.skip (by simp [isBuild]) (Precedes.head _ (by simp [isBuild]))

/-- The options are processed before anything is created. -/
theorem processOptions_before_mkstemp (fin : Bool) (s : Scenario) :
    Precedes (.processOptions .ok) (· = Event.mkstemp) (run fin s) := by
  unfold run
  cases s.popts with
  | systemExit => exact Precedes.absent (by simp)
  | ok => exact Precedes.head _ (by simp)

/-- Whatever is unlinked was created before (in either shape of the code). -/
theorem mkstemp_before_unlink (fin : Bool) (s : Scenario) :
    Precedes .mkstemp (· = Event.unlink) (run fin s) := by
  cases ht : s.timingStats
  · exact Precedes.absent (fun x hx hu => (no_timing_no_temp fin s ht).2.2 (hu ▸ hx))
  · unfold run
    cases s.popts with
    | systemExit => exact Precedes.absent (by simp)
    | ok =>
      simp only [ht, if_true, List.singleton_append]
      exact Precedes.skip (by simp) (Precedes.head _ (by simp))

theorem visit_ne {vs : List Visit} {b : Event} (hb : ∀ j r, b ≠ Event.visit j r) :
    ∀ c ∈ (visitAll 0 vs).1, ¬ (c = b) := by
  intro c hc heq
  obtain ⟨j, r, rfl⟩ := visitAll_events 0 vs c hc
  exact hb j r heq.symm

/-- In refurb 2.0.0 (no `finally`) `unlink()` comes only after `output_timing_stats` returned normally,
    i.e. after FILE was written. -/
theorem unlink_after_output (s : Scenario) :
    Precedes (.outputTimingStats .ok) (· = Event.unlink) (run false s) ∧
    Precedes (.writeStats true) (· = Event.unlink) (run false s) := by
  have key : ∀ a : Event, (a = .outputTimingStats .ok ∨ a = .writeStats true) →
      Precedes a (· = Event.unlink) (run false s) := by
    intro a ha
    unfold run
    cases s.popts with
    | systemExit => exact Precedes.absent (by simp)
    | ok =>
      refine Precedes.skip (by simp) (Precedes.skips ?_ ?_)
      · intro c hc; split at hc <;> simp at hc; simp [hc]
      · unfold fromBuild
        cases s.build with
        | compileError => exact Precedes.absent (by simp [leave])
        | otherExc => exact Precedes.absent (by simp [leave])
        | ok =>
          refine Precedes.skip (by simp) ?_
          unfold afterBuild
          cases s.load with
          | typeError => exact Precedes.absent (by simp [leave])
          | ok =>
            refine Precedes.skip (by simp) (Precedes.skips (visit_ne (by simp)) ?_)
            split
            · unfold tail
              split
              · cases s.ots with
                | ok =>
                  rcases ha with rfl | rfl
                  · exact Precedes.skip (by simp) (Precedes.skip (by simp) (Precedes.skip (by simp)
                      (Precedes.head _ (by simp))))
                  · exact Precedes.skip (by simp) (Precedes.skip (by simp) (Precedes.head _ (by simp)))
                | readError => exact Precedes.absent (by simp [leave])
                | valueError => exact Precedes.absent (by simp [leave])
                | writeError => exact Precedes.absent (by simp [leave])
              · exact Precedes.absent (by simp)
            · exact Precedes.absent (by simp [leave])
  exact ⟨key _ (Or.inl rfl), key _ (Or.inr rfl)⟩

/-! ### The alphabet writes nowhere near the sources -/

/-- No event of the automaton creates, modifies or deletes anything in the checked tree.  This is a
    statement about the model's alphabet, i.e. about the reading of `main.py` that it encodes (the only
    writers are `mkstemp`, mypy's cache and timing dump, `write_text(FILE)` and `unlink`); the
    file-system snapshots of the oracle are what test that reading against the real program. -/
theorem no_source_write (e : Event) : Loc.checkedTree ∉ e.writes := by
  cases e <;> simp [Event.writes]

/-- Every write of every run goes to mypy's cache, to `$TMPDIR` or to FILE. -/
theorem writes_confined (fin : Bool) (s : Scenario) :
    ∀ e ∈ run fin s, ∀ l ∈ e.writes, l = Loc.mypyCache ∨ l = Loc.tmpDir ∨ l = Loc.statsFile := by
  intro e _ l hl
  cases e <;> simp_all [Event.writes]
  rcases hl with h | h <;> simp [h]

/-- FILE is written at most when `--timing-stats` is given. -/
theorem stats_file_only_with_flag (fin : Bool) (s : Scenario) (h : s.timingStats = false) :
    ∀ e ∈ run fin s, Loc.statsFile ∉ e.writes := by
  intro e he
  have hp := no_timing_plain fin s h e he
  cases e <;> simp_all [Event.writes, plainEvent]

/-! ## Part B — the statistics file -/

/-- the keys of a `dict[str, int]`, in iteration order -/
def keys (d : List (Str × Int)) : List Str := d.map Prod.fst

/-- `d.get(k)` -/
def get : List (Str × Int) → Str → Option Int
  | [], _ => none
  | (k', v) :: r, k => if k' = k then some v else get r k

/-- `d[k] = v` keeps the position of an existing key and appends a new one. -/
theorem keys_dictSet (d : List (Str × Int)) (k : Str) (v : Int) :
    keys (dictSet d k v) = if k ∈ keys d then keys d else keys d ++ [k] := by
  induction d with
  | nil => simp [dictSet, keys]
  | cons kv r ih =>
    obtain ⟨k', v'⟩ := kv
    unfold keys at ih ⊢
    by_cases h : k' = k
    · simp [dictSet, h]
    · have h' : ¬ k = k' := fun e => h e.symm
      simp only [dictSet, h, if_false, List.map_cons, ih, List.mem_cons, h', false_or]
      split <;> simp

theorem mem_keys_dictSet (d : List (Str × Int)) (k : Str) (v : Int) (x : Str) :
    x ∈ keys (dictSet d k v) ↔ x = k ∨ x ∈ keys d := by
  rw [keys_dictSet]
  split
  · constructor
    · exact Or.inr
    · rintro (rfl | h) <;> assumption
  · simp [or_comm]

theorem nodup_dictSet (d : List (Str × Int)) (k : Str) (v : Int) (h : (keys d).Nodup) :
    (keys (dictSet d k v)).Nodup := by
  rw [keys_dictSet]
  split
  · exact h
  · rename_i hk
    rw [List.nodup_append]
    refine ⟨h, by simp, ?_⟩
    intro a ha b hb
    simp only [List.mem_singleton] at hb
    subst hb
    intro e; exact hk (e ▸ ha)

theorem get_dictSet_self (d : List (Str × Int)) (k : Str) (v : Int) : get (dictSet d k v) k = some v := by
  induction d with
  | nil => simp [dictSet, get]
  | cons kv r ih =>
    obtain ⟨k', v'⟩ := kv
    by_cases h : k' = k <;> simp [dictSet, get, h, ih]

theorem get_dictSet_ne (d : List (Str × Int)) (k k' : Str) (v : Int) (hne : k' ≠ k) :
    get (dictSet d k v) k' = get d k' := by
  induction d with
  | nil => simp [dictSet, get, Ne.symm hne]
  | cons kv r ih =>
    obtain ⟨k'', v''⟩ := kv
    by_cases h : k'' = k
    · subst h; simp [dictSet, get, Ne.symm hne]
    · by_cases h2 : k'' = k'
      · subst h2; simp [dictSet, get, h]
      · simp [dictSet, get, h, h2, ih]

/-- one more assignment = one `d[k] = v` on the dict built so far -/
theorem dictOf_snoc (assigns : List (Str × Int)) (k : Str) (v : Int) :
    dictOf (assigns ++ [(k, v)]) = dictSet (dictOf assigns) k v := by
  simp [dictOf, List.foldl_append]

/-- **Later value wins**: after `…; d[k] = v` the entry of `k` is `v`, and every other entry is unchanged. -/
theorem later_assignment_wins (assigns : List (Str × Int)) (k : Str) (v : Int) :
    get (dictOf (assigns ++ [(k, v)])) k = some v ∧
    ∀ k', k' ≠ k → get (dictOf (assigns ++ [(k, v)])) k' = get (dictOf assigns) k' := by
  rw [dictOf_snoc]
  exact ⟨get_dictSet_self _ _ _, fun k' h => get_dictSet_ne _ _ _ _ h⟩

/-- **Position of the first insertion is kept**: re-assigning a module does not move it. -/
theorem first_insertion_position (assigns : List (Str × Int)) (k : Str) (v : Int) :
    keys (dictOf (assigns ++ [(k, v)])) =
      if k ∈ keys (dictOf assigns) then keys (dictOf assigns) else keys (dictOf assigns) ++ [k] := by
  rw [dictOf_snoc, keys_dictSet]

theorem mem_keys_fold (assigns d : List (Str × Int)) (x : Str) :
    x ∈ keys (assigns.foldl (fun d kv => dictSet d kv.1 kv.2) d) ↔ x ∈ keys d ∨ x ∈ assigns.map Prod.fst := by
  induction assigns generalizing d with
  | nil => simp
  | cons a r ih =>
    simp only [List.foldl_cons, ih, mem_keys_dictSet, List.map_cons, List.mem_cons]
    constructor
    · rintro ((h | h) | h) <;> simp [h]
    · rintro (h | h | h) <;> simp [h]

theorem nodup_keys_fold (assigns d : List (Str × Int)) (h : (keys d).Nodup) :
    (keys (assigns.foldl (fun d kv => dictSet d kv.1 kv.2) d)).Nodup := by
  induction assigns generalizing d with
  | nil => exact h
  | cons a r ih => exact ih _ (nodup_dictSet d a.1 a.2 h)

/-- the dict has an entry for exactly the assigned keys -/
theorem mem_keys_dictOf (assigns : List (Str × Int)) (x : Str) :
    x ∈ keys (dictOf assigns) ↔ x ∈ assigns.map Prod.fst := by
  unfold dictOf
  rw [mem_keys_fold]
  simp [keys]

/-- …and each key once (what makes the output a well-formed JSON object) -/
theorem nodup_keys_dictOf (assigns : List (Str × Int)) : (keys (dictOf assigns)).Nodup :=
  nodup_keys_fold assigns [] (by simp [keys])

/-! ### sorting by value, descending -/

theorem geVal_total (a b : Str × Int) : geVal a b = true ∨ geVal b a = true := by
  simp only [geVal, decide_eq_true_eq]; omega

theorem geVal_trans (a b c : Str × Int) (h1 : geVal a b = true) (h2 : geVal b c = true) : geVal a c = true := by
  simp only [geVal, decide_eq_true_eq] at *; omega

/-- each value is at least every later value -/
def NonIncreasing (d : List (Str × Int)) : Prop := List.Pairwise (fun a b => b.2 ≤ a.2) d

theorem nonIncreasing_of_sorted (d : List (Str × Int)) (h : Sorted geVal d) : NonIncreasing d := by
  induction d with
  | nil => exact List.Pairwise.nil
  | cons a r ih =>
    refine List.Pairwise.cons ?_ (ih h.2)
    intro b hb
    have := h.1 b hb
    simpa [geVal] using this

theorem nonIncreasing_byValueDesc (d : List (Str × Int)) : NonIncreasing (byValueDesc d) :=
  nonIncreasing_of_sorted _ (sorted_ssort geVal geVal_total geVal_trans d)

theorem keys_perm_byValueDesc (d : List (Str × Int)) : (keys (byValueDesc d)).Perm (keys d) :=
  (ssort_perm geVal d).map Prod.fst

theorem mem_keys_byValueDesc (d : List (Str × Int)) (x : Str) : x ∈ keys (byValueDesc d) ↔ x ∈ keys d :=
  (keys_perm_byValueDesc d).mem_iff

theorem nodup_keys_byValueDesc (d : List (Str × Int)) (h : (keys d).Nodup) : (keys (byValueDesc d)).Nodup :=
  (keys_perm_byValueDesc d).nodup_iff.mpr h

theorem get_eq_some_iff (d : List (Str × Int)) (h : (keys d).Nodup) (k : Str) (v : Int) :
    get d k = some v ↔ (k, v) ∈ d := by
  induction d with
  | nil => simp [get]
  | cons kv r ih =>
    obtain ⟨k', v'⟩ := kv
    simp only [keys, List.map_cons, List.nodup_cons] at h
    by_cases hk : k' = k
    · subst hk
      have : ∀ v, (k', v) ∉ r := fun v hm => h.1 (List.mem_map.mpr ⟨_, hm, rfl⟩)
      simp [get, this]
      exact eq_comm
    · have hk' : ¬ k = k' := fun e => hk e.symm
      simp [get, hk, hk', ih h.2]

/-- sorting moves entries but never changes the value stored for a module -/
theorem get_byValueDesc (d : List (Str × Int)) (h : (keys d).Nodup) (k : Str) :
    get (byValueDesc d) k = get d k := by
  apply Option.ext
  intro v
  rw [get_eq_some_iff _ (nodup_keys_byValueDesc d h), get_eq_some_iff _ h]
  exact mem_ssort geVal _ d

theorem sorted_of_all_le {α : Type} (le : α → α → Bool) (l : List α)
    (h : ∀ a ∈ l, ∀ b ∈ l, le a b = true) : Sorted le l := by
  induction l with
  | nil => trivial
  | cons a r ih =>
    exact ⟨fun b hb => h a List.mem_cons_self b (List.mem_cons_of_mem _ hb),
      ih (fun x hx y hy => h x (List.mem_cons_of_mem _ hx) y (List.mem_cons_of_mem _ hy))⟩

theorem ssort_of_sorted {α : Type} (le : α → α → Bool) (l : List α) (h : Sorted le l) : ssort le l = l := by
  induction l with
  | nil => rfl
  | cons a r ih =>
    show ins le a (ssort le r) = a :: r
    rw [ih h.2]
    cases r with
    | nil => rfl
    | cons b r' => simp [ins, h.1 b List.mem_cons_self]

/-- **Ties keep insertion order** (`sorted` is stable, also with `reverse=True`): the modules that took
    the same number of milliseconds appear in the order in which they were first inserted. -/
theorem ties_keep_insertion_order (d : List (Str × Int)) (v : Int) :
    (byValueDesc d).filter (fun kv => kv.2 == v) = d.filter (fun kv => kv.2 == v) := by
  unfold byValueDesc
  rw [filter_ssort geVal geVal_total geVal_trans]
  apply ssort_of_sorted
  apply sorted_of_all_le
  intro a ha b hb
  have ha' := (List.mem_filter.mp ha).2
  have hb' := (List.mem_filter.mp hb).2
  simp only [beq_iff_eq] at ha' hb'
  simp [geVal, ha', hb']

/-! ### parsing mypy's timing file -/

theorem parseLines_ok_iff (rs : Bool) (ls : List Str) (kvs : List (Str × Int)) :
    parseLines rs ls = .ok kvs ↔ ls.map (parseLineOf rs) = kvs.map Except.ok := by
  induction ls generalizing kvs with
  | nil => cases kvs <;> simp [parseLines]
  | cons l ls ih =>
    cases hl : parseLineOf rs l with
    | error e => cases kvs <;> simp [parseLines, hl]
    | ok kv =>
      cases hr : parseLines rs ls with
      | error e =>
        cases kvs with
        | nil => simp [parseLines, hl, hr]
        | cons kv' kvs' =>
          have : ¬ ls.map (parseLineOf rs) = kvs'.map Except.ok := fun h => by
            have := (ih kvs').mpr h; rw [hr] at this; cases this
          simp [parseLines, hl, hr, this]
      | ok kvs0 =>
        have h0 := (ih kvs0).mp hr
        cases kvs with
        | nil => simp [parseLines, hl, hr]
        | cons kv' kvs' =>
          simp only [parseLines, hl, hr, List.map_cons, List.cons.injEq, Except.ok.injEq]
          constructor
          · rintro ⟨rfl, rfl⟩; exact ⟨rfl, h0⟩
          · rintro ⟨rfl, h⟩
            refine ⟨rfl, ?_⟩
            have := (ih kvs').mpr h
            rw [hr] at this
            exact Except.ok.inj this

/-- `output_timing_stats` raises `ValueError` exactly when some line is not `module integer` (in the
    reading of "module" of the shape `rs`). -/
theorem parseLines_error_iff (rs : Bool) (ls : List Str) :
    parseLines rs ls = .error .valueError ↔ ∃ l ∈ ls, parseLineOf rs l = .error .valueError := by
  induction ls with
  | nil => simp [parseLines]
  | cons l ls ih =>
    cases hl : parseLineOf rs l with
    | error e => cases e; simp [parseLines, hl]
    | ok kv =>
      cases hr : parseLines rs ls with
      | error e =>
        cases e
        have := ih.mp hr
        simp [parseLines, hl, hr, this]
      | ok kvs =>
        have : ¬ ∃ l ∈ ls, parseLineOf rs l = .error .valueError := fun h => by
          have := ih.mpr h; rw [hr] at this; cases this
        simp [parseLines, hl, hr]
        intro a ha
        exact fun h => this ⟨a, ha, h⟩

theorem timingJson_error_iff (rs : Bool) (content : Str) (total : Int) (refurb : List (Str × Int)) :
    timingJson rs content total refurb = .error .valueError ↔
      ∃ l ∈ pySplitlines content, parseLineOf rs l = .error .valueError := by
  rw [← parseLines_error_iff]
  unfold timingJson timingData
  cases h : parseLines rs (pySplitlines content) with
  | error e => cases e; simp
  | ok kvs => simp

/-- the outcome `otsOf` computes is `ok` iff the temp file is readable, every line parses and FILE is writable -/
theorem otsOf_ok_iff (rs : Bool) (readable writable : Bool) (content : Str) :
    otsOf rs readable content writable = .ok ↔
      readable = true ∧ writable = true ∧ ∀ l ∈ pySplitlines content, ∃ kv, parseLineOf rs l = .ok kv := by
  unfold otsOf
  cases readable
  · simp
  · cases h : parseLines rs (pySplitlines content) with
    | error e =>
      cases e
      obtain ⟨l, hl, he⟩ := (parseLines_error_iff _ _).mp h
      simp only [Bool.not_true, Bool.false_eq_true, if_false, true_and]
      constructor
      · intro h'; cases h'
      · intro h'; obtain ⟨kv, hkv⟩ := h'.2 l hl; rw [he] at hkv; cases hkv
    | ok kvs =>
      have hall : ∀ l ∈ pySplitlines content, ∃ kv, parseLineOf rs l = .ok kv := by
        intro l hl
        cases hp : parseLineOf rs l with
        | ok kv => exact ⟨kv, rfl⟩
        | error e =>
          cases e
          have := (parseLines_error_iff _ _).mpr ⟨l, hl, hp⟩
          rw [h] at this; cases this
      cases writable
      · simp
      · simp only [Bool.not_true, Bool.false_eq_true, if_false, if_true, true_and]
        exact ⟨fun _ => hall, fun _ => trivial⟩

/-! ### the shape of the file -/

/-- **stats_shape.**  Whenever `output_timing_stats` gets as far as writing, for a timing file, a total
    and a visiting loop of ANY size, and for BOTH shapes of the line parse (`rs`):
    1. the object has exactly the three documented keys, in this order; the first value is an integer
       and the other two are dicts from module names to integers (in the model by typing: `V.int`,
       `V.dict : List (Str × Int)`; on the implementation by the oracle's `isinstance(v, int)`);
    2. every checked module (every `file.module` the loop assigned) has an entry in the refurb section;
    3. every line `module n` of mypy's file has an entry in the mypy section;
    4. no key occurs twice in a section;
    5. each section is in non-increasing order of value;
    6. the total is passed through. -/
theorem stats_shape (rs : Bool) (content : Str) (total : Int) (refurb : List (Str × Int)) (st : Stats)
    (h : timingData rs content total refurb = .ok st) :
    st.data.map Prod.fst = [keyTotal, keyMypy, keyRefurb] ∧
    st.data = [(keyTotal, .int total), (keyMypy, .dict st.mypy), (keyRefurb, .dict st.refurb)] ∧
    (∀ m ∈ refurb.map Prod.fst, m ∈ keys st.refurb) ∧
    (∀ l ∈ pySplitlines content, ∀ m v, parseLineOf rs l = .ok (m, v) → m ∈ keys st.mypy) ∧
    (keys st.mypy).Nodup ∧ (keys st.refurb).Nodup ∧
    NonIncreasing st.mypy ∧ NonIncreasing st.refurb := by
  unfold timingData at h
  cases hp : parseLines rs (pySplitlines content) with
  | error e => rw [hp] at h; cases h
  | ok kvs =>
    rw [hp] at h
    simp only [Except.ok.injEq] at h
    subst h
    refine ⟨rfl, rfl, ?_, ?_, ?_, ?_, nonIncreasing_byValueDesc _, nonIncreasing_byValueDesc _⟩
    · intro m hm
      exact (mem_keys_byValueDesc _ _).mpr ((mem_keys_dictOf _ _).mpr hm)
    · intro l hl m v hlv
      apply (mem_keys_byValueDesc _ _).mpr
      apply (mem_keys_dictOf _ _).mpr
      have hmap := (parseLines_ok_iff _ _ _).mp hp
      have : Except.ok (m, v) ∈ (pySplitlines content).map (parseLineOf rs) :=
        List.mem_map.mpr ⟨l, hl, hlv⟩
      rw [hmap] at this
      obtain ⟨kv, hkv, he⟩ := List.mem_map.mp this
      cases he
      exact List.mem_map.mpr ⟨_, hkv, rfl⟩
    · exact nodup_keys_byValueDesc _ (nodup_keys_dictOf _)
    · exact nodup_keys_byValueDesc _ (nodup_keys_dictOf _)

/-- the value reported for a module is the one the dict held before sorting (for the refurb section: the
    last `int(elapsed * 1000)` assigned to it; for the mypy section: `microseconds // 1000` of its last line) -/
theorem stats_values (rs : Bool) (content : Str) (total : Int) (refurb : List (Str × Int)) (st : Stats)
    (h : timingData rs content total refurb = .ok st) (m : Str) :
    get st.refurb m = get (dictOf refurb) m ∧
    ∃ kvs, parseLines rs (pySplitlines content) = .ok kvs ∧ get st.mypy m = get (dictOf kvs) m := by
  unfold timingData at h
  cases hp : parseLines rs (pySplitlines content) with
  | error e => rw [hp] at h; cases h
  | ok kvs =>
    rw [hp] at h
    simp only [Except.ok.injEq] at h
    subst h
    exact ⟨get_byValueDesc _ (nodup_keys_dictOf _) m, kvs, rfl, get_byValueDesc _ (nodup_keys_dictOf _) m⟩

/-! ### the text -/

abbrev Printable (c : Char) : Prop := 32 ≤ c.toNat ∧ c.toNat ≤ 126

theorem hexDigit_printable : ∀ n, n < 16 → Printable (hexDigit n) := by decide

theorem u4_printable (n : Nat) : ∀ c ∈ u4 n, Printable c := by
  intro c hc
  simp only [u4, List.mem_cons, List.not_mem_nil, or_false] at hc
  rcases hc with rfl | rfl | rfl | rfl | rfl | rfl
  · decide
  · decide
  all_goals exact hexDigit_printable _ (Nat.mod_lt _ (by decide))

theorem escChar_printable (c : Char) : ∀ x ∈ escChar c, Printable x := by
  unfold escChar
  repeat' split
  all_goals first
    | decide
    | (rename_i h; intro x hx; simp only [List.mem_cons, List.not_mem_nil, or_false] at hx; subst hx; exact h)
    | exact u4_printable _
    | (intro x hx; rcases List.mem_append.mp hx with h | h <;> exact u4_printable _ x h)

theorem jsonStr_printable (s : Str) : ∀ x ∈ jsonStr s, Printable x := by
  intro x hx
  simp only [jsonStr, List.mem_cons, List.mem_append, List.mem_flatMap, List.not_mem_nil, or_false] at hx
  rcases hx with rfl | ⟨c, _, hc⟩ | rfl
  · decide
  · exact escChar_printable c x hc
  · decide

theorem isDigit_printable (c : Char) (h : c.isDigit = true) : Printable c := by
  simp only [Char.isDigit, Bool.and_eq_true, decide_eq_true_eq] at h
  have h1 : (48 : UInt32).toNat ≤ c.val.toNat := UInt32.le_iff_toNat_le.mp h.1
  have h2 : c.val.toNat ≤ (57 : UInt32).toNat := UInt32.le_iff_toNat_le.mp h.2
  have e1 : (48 : UInt32).toNat = 48 := by decide
  have e2 : (57 : UInt32).toNat = 57 := by decide
  have e3 : c.toNat = c.val.toNat := rfl
  unfold Printable
  omega

theorem intChars_printable (i : Int) : ∀ x ∈ intChars i, Printable x := by
  intro x hx
  have hd : ∀ n, ∀ y ∈ natChars n, Printable y := fun n y hy =>
    isDigit_printable y (Nat.isDigit_of_mem_toDigits (by decide) (by decide) hy)
  unfold intChars at hx
  split at hx
  · rcases List.mem_cons.mp hx with rfl | hx
    · decide
    · exact hd _ x hx
  · exact hd _ x hx

theorem renderInts_printable (d : List (Str × Int)) : ∀ x ∈ renderInts d, Printable x := by
  induction d with
  | nil => simp [renderInts]
  | cons kv r ih =>
    obtain ⟨k, v⟩ := kv
    intro x hx
    cases r with
    | nil =>
      simp only [renderInts, List.mem_append, List.mem_cons] at hx
      rcases hx with h | rfl | h
      · exact jsonStr_printable k x h
      · decide
      · exact intChars_printable v x h
    | cons f fs =>
      simp only [renderInts, List.mem_append, List.mem_cons] at hx
      rcases hx with (h | rfl | h) | rfl | h
      · exact jsonStr_printable k x h
      · decide
      · exact intChars_printable v x h
      · decide
      · exact ih x h

theorem V.render_printable (v : V) : ∀ x ∈ v.render, Printable x := by
  intro x hx
  cases v with
  | int i => exact intChars_printable i x hx
  | dict d =>
    simp only [V.render, List.mem_cons, List.mem_append, List.not_mem_nil, or_false] at hx
    rcases hx with rfl | h | rfl
    · decide
    · exact renderInts_printable d x h
    · decide

theorem renderFields_printable (fs : List (Str × V)) : ∀ x ∈ renderFields fs, Printable x := by
  induction fs with
  | nil => simp [renderFields]
  | cons kv r ih =>
    obtain ⟨k, v⟩ := kv
    intro x hx
    cases r with
    | nil =>
      simp only [renderFields, List.mem_append, List.mem_cons] at hx
      rcases hx with h | rfl | h
      · exact jsonStr_printable k x h
      · decide
      · exact V.render_printable v x h
    | cons f fs =>
      simp only [renderFields, List.mem_append, List.mem_cons] at hx
      rcases hx with (h | rfl | h) | rfl | h
      · exact jsonStr_printable k x h
      · decide
      · exact V.render_printable v x h
      · decide
      · exact ih x h

/-- The file is ONE line of printable ASCII whatever the module names contain (quotes, backslashes,
    control characters, non-ASCII): nothing in it can end the object early or break `write_text`. -/
theorem text_printable_ascii (fields : List (Str × V)) : ∀ x ∈ renderObj fields, Printable x := by
  intro x hx
  simp only [renderObj, List.mem_cons, List.mem_append, List.not_mem_nil, or_false] at hx
  rcases hx with rfl | h | rfl
  · decide
  · exact renderFields_printable fields x h
  · decide

/-- the text, spelled out: `{"…total…":N,"…mypy…":{…},"…refurb…":{…}}` with `,` and `:` as the only separators -/
theorem text_form (st : Stats) :
    renderObj st.data =
      "{\"mypy_total_time_spent_in_ms\":".toList ++ intChars st.total ++
      ",\"mypy_time_spent_parsing_modules_in_ms\":{".toList ++ renderInts st.mypy ++
      "},\"refurb_time_spent_checking_file_in_ms\":{".toList ++ renderInts st.refurb ++ "}}".toList := by
  have h1 : jsonStr keyTotal = "\"mypy_total_time_spent_in_ms\"".toList := by decide
  have h2 : jsonStr keyMypy = "\"mypy_time_spent_parsing_modules_in_ms\"".toList := by decide
  have h3 : jsonStr keyRefurb = "\"refurb_time_spent_checking_file_in_ms\"".toList := by decide
  simp only [renderObj, Stats.data, renderFields, V.render, h1, h2, h3]
  simp

/-! ### cutting a line: `str.split()` (refurb 2.0.0) and `str.rsplit(maxsplit=1)` (now) -/

theorem dropWhile_append_all {p : Char → Bool} {a b : Str} (h : ∀ x ∈ a, p x = true) :
    (a ++ b).dropWhile p = b.dropWhile p := by
  induction a with
  | nil => rfl
  | cons x a ih =>
    have hx := h x List.mem_cons_self
    simp only [List.cons_append, List.dropWhile_cons, hx, if_true]
    exact ih (fun y hy => h y (List.mem_cons_of_mem _ hy))

theorem takeWhile_append_all {p : Char → Bool} {a b : Str} (h : ∀ x ∈ a, p x = true) :
    (a ++ b).takeWhile p = a ++ b.takeWhile p := by
  induction a with
  | nil => rfl
  | cons x a ih =>
    have hx := h x List.mem_cons_self
    simp only [List.cons_append, List.takeWhile_cons, hx, if_true]
    rw [ih (fun y hy => h y (List.mem_cons_of_mem _ hy))]

theorem exists_reverse_cons {l : Str} (h : l ≠ []) : ∃ d r, l.reverse = d :: r := by
  cases hr : l.reverse with
  | nil => exact absurd (List.reverse_eq_nil_iff.mp hr) h
  | cons d r => exact ⟨d, r, rfl⟩

/-- A blank line has no fields. -/
theorem rsplit1_blank (s : Str) (h : ∀ x ∈ s, isPySpace x = true) : pyRsplit1 s = [] := by
  have : s.reverse.dropWhile isPySpace = [] := by
    have := dropWhile_append_all (p := isPySpace) (a := s.reverse) (b := []) (by simpa using h)
    simpa using this
  simp [pyRsplit1, this]

/-- One run of non-whitespace, whatever whitespace surrounds it, is ONE field (the unpacking
    `module, micro_seconds = …` then raises `ValueError: not enough values to unpack`). -/
theorem rsplit1_one (ld us tr : Str) (hl : ∀ x ∈ ld, isPySpace x = true) (hus : us ≠ [])
    (hu : ∀ x ∈ us, isPySpace x = false) (ht : ∀ x ∈ tr, isPySpace x = true) :
    pyRsplit1 (ld ++ us ++ tr) = [us] := by
  obtain ⟨d, u', hd⟩ := exists_reverse_cons hus
  have hu' : ∀ x ∈ d :: u', notPySpace x = true := by
    intro x hx
    have : x ∈ us := by rw [← List.mem_reverse, hd]; exact hx
    simp [notPySpace, hu x this]
  have hdn : isPySpace d = false := by
    have := hu' d List.mem_cons_self
    simpa [notPySpace] using this
  have e1 : (ld ++ us ++ tr).reverse = tr.reverse ++ (d :: (u' ++ ld.reverse)) := by
    simp [List.reverse_append, hd]
  have e2 : (d :: (u' ++ ld.reverse)) = (d :: u') ++ ld.reverse := rfl
  have hlr : ∀ x ∈ ld.reverse, isPySpace x = true := by simpa using hl
  have e3 : ld.reverse.dropWhile isPySpace = [] := by
    have := dropWhile_append_all (p := isPySpace) (a := ld.reverse) (b := []) hlr
    simpa using this
  have e4 : ld.reverse.takeWhile notPySpace = [] := by
    cases hlr' : ld.reverse with
    | nil => rfl
    | cons w w' =>
      have : isPySpace w = true := hlr w (by simp [hlr'])
      simp [notPySpace, this]
  have e5 : ld.reverse.dropWhile notPySpace = ld.reverse := by
    cases hlr' : ld.reverse with
    | nil => rfl
    | cons w w' =>
      have : isPySpace w = true := hlr w (by simp [hlr'])
      simp [notPySpace, this]
  have e6 : (d :: u').reverse = us := by rw [← hd, List.reverse_reverse]
  unfold pyRsplit1
  rw [e1, dropWhile_append_all (by simpa using ht), List.dropWhile_cons_of_neg (by simp [hdn])]
  simp only []
  rw [e2, takeWhile_append_all hu', dropWhile_append_all hu', e4, e5, e3, List.append_nil, e6]
  rfl

/-- **The new cut.**  `line.rsplit(maxsplit=1)`: the last run of non-whitespace is the second field; the
    first field is EVERYTHING before the whitespace in front of it — leading and inner whitespace of the
    module name included — as long as it ends in a non-whitespace character. -/
theorem rsplit1_two (m0 : Str) (c : Char) (ws us tr : Str) (hc : isPySpace c = false)
    (hws : ws ≠ []) (hw : ∀ x ∈ ws, isPySpace x = true)
    (hus : us ≠ []) (hu : ∀ x ∈ us, isPySpace x = false) (ht : ∀ x ∈ tr, isPySpace x = true) :
    pyRsplit1 (m0 ++ [c] ++ ws ++ us ++ tr) = [m0 ++ [c], us] := by
  obtain ⟨d, u', hd⟩ := exists_reverse_cons hus
  obtain ⟨w, w', hwr⟩ := exists_reverse_cons hws
  have hu' : ∀ x ∈ d :: u', notPySpace x = true := by
    intro x hx
    have : x ∈ us := by rw [← List.mem_reverse, hd]; exact hx
    simp [notPySpace, hu x this]
  have hdn : isPySpace d = false := by
    have := hu' d List.mem_cons_self
    simpa [notPySpace] using this
  have hw' : ∀ x ∈ w :: w', isPySpace x = true := by
    intro x hx
    exact hw x (by rw [← List.mem_reverse, hwr]; exact hx)
  have hwn : isPySpace w = true := hw' w List.mem_cons_self
  have e1 : (m0 ++ [c] ++ ws ++ us ++ tr).reverse =
      tr.reverse ++ (d :: (u' ++ (w :: (w' ++ c :: m0.reverse)))) := by
    simp [List.reverse_append, hd, hwr]
  have e2 : (d :: (u' ++ (w :: (w' ++ c :: m0.reverse)))) = (d :: u') ++ (w :: (w' ++ c :: m0.reverse)) := rfl
  have e3 : (w :: (w' ++ c :: m0.reverse)) = (w :: w') ++ (c :: m0.reverse) := rfl
  have e6 : (d :: u').reverse = us := by rw [← hd, List.reverse_reverse]
  have e7 : (c :: m0.reverse).reverse = m0 ++ [c] := by simp
  unfold pyRsplit1
  rw [e1, dropWhile_append_all (by simpa using ht), List.dropWhile_cons_of_neg (by simp [hdn])]
  simp only []
  rw [e2, takeWhile_append_all hu', dropWhile_append_all hu',
    List.takeWhile_cons_of_neg (by simp [notPySpace, hwn]),
    List.dropWhile_cons_of_neg (by simp [notPySpace, hwn]), e3, dropWhile_append_all hw',
    List.dropWhile_cons_of_neg (by simp [hc]), List.append_nil, e6, e7]
  cases m0 <;> rfl

/-- `rsplit(maxsplit=1)` never yields more than two fields (no "too many values to unpack"). -/
theorem rsplit1_length (s : Str) : (pyRsplit1 s).length ≤ 2 := by
  unfold pyRsplit1
  split
  · simp
  · split <;> simp

theorem splitAux_run (m cur rest : Str) (h : ∀ x ∈ m, isPySpace x = false) :
    splitAux cur (m ++ rest) = splitAux (m.reverse ++ cur) rest := by
  induction m generalizing cur with
  | nil => rfl
  | cons x m ih =>
    have hx := h x List.mem_cons_self
    simp only [List.cons_append, splitAux, hx, Bool.false_eq_true, if_false]
    rw [ih _ (fun y hy => h y (List.mem_cons_of_mem _ hy))]
    simp

/-- **The old cut** on `module<space>number`: two fields when the module name has no whitespace. -/
theorem split_two (m us : Str) (hm : m ≠ []) (hmm : ∀ x ∈ m, isPySpace x = false)
    (hus : us ≠ []) (hu : ∀ x ∈ us, isPySpace x = false) :
    pySplit (m ++ ' ' :: us) = [m, us] := by
  have hsp : isPySpace ' ' = true := by decide
  have h1 : (m.reverse ++ ([] : Str)).isEmpty = false := by
    cases hr : m.reverse with
    | nil => exact absurd (List.reverse_eq_nil_iff.mp hr) hm
    | cons a b => rfl
  have h2 : (us.reverse ++ ([] : Str)).isEmpty = false := by
    cases hr : us.reverse with
    | nil => exact absurd (List.reverse_eq_nil_iff.mp hr) hus
    | cons a b => rfl
  unfold pySplit
  rw [splitAux_run m [] _ hmm]
  simp only [splitAux, hsp, if_true, h1, Bool.false_eq_true, if_false]
  have := splitAux_run us [] [] hu
  rw [List.append_nil] at this
  rw [this]
  simp only [splitAux, h2, Bool.false_eq_true, if_false]
  simp

/-! ### `int()` of what mypy writes -/

theorem digitZeros_head : ∃ t, Generated.digitZeros = 48 :: t := ⟨_, rfl⟩

theorem isDigit_range (c : Char) (h : c.isDigit = true) : 48 ≤ c.toNat ∧ c.toNat ≤ 57 := by
  have := isDigit_printable c h
  simp only [Char.isDigit, Bool.and_eq_true, decide_eq_true_eq] at h
  have h1 : (48 : UInt32).toNat ≤ c.val.toNat := UInt32.le_iff_toNat_le.mp h.1
  have h2 : c.val.toNat ≤ (57 : UInt32).toNat := UInt32.le_iff_toNat_le.mp h.2
  have e1 : (48 : UInt32).toNat = 48 := by decide
  have e2 : (57 : UInt32).toNat = 57 := by decide
  have e3 : c.toNat = c.val.toNat := rfl
  omega

theorem digitVal_of_isDigit (c : Char) (h : c.isDigit = true) : digitVal c = some (c.toNat - 48) := by
  obtain ⟨t, ht⟩ := digitZeros_head
  have hr := isDigit_range c h
  have : (decide (48 ≤ c.toNat) && decide (c.toNat ≤ 48 + 9)) = true := by
    simp only [Bool.and_eq_true, decide_eq_true_eq]; omega
  simp [digitVal, ht, this]

theorem isDigit_not_space (c : Char) (h : c.isDigit = true) : isPySpace c = false := by
  have hr := isDigit_range c h
  simp only [isPySpace, Bool.or_eq_false_iff, Bool.and_eq_false_iff, decide_eq_false_iff_not, beq_eq_false_iff_ne]
  omega

theorem isDigit_not_linebreak (c : Char) (h : c.isDigit = true) : isLineBreak c = false := by
  have hr := isDigit_range c h
  simp only [isLineBreak, Bool.or_eq_false_iff, Bool.and_eq_false_iff, decide_eq_false_iff_not, beq_eq_false_iff_ne]
  omega

theorem char_ne_of_toNat {c d : Char} (h : c.toNat ≠ d.toNat) : c ≠ d := fun e => h (e ▸ rfl)

theorem digitsAux_digits (l : Str) (h : ∀ c ∈ l, c.isDigit = true) (acc n : Nat) (pd : Bool)
    (hne : l ≠ [] ∨ pd = true) :
    digitsAux acc n pd l = some (Nat.ofDigitChars 10 l acc, n + l.length) := by
  induction l generalizing acc n pd with
  | nil =>
    rcases hne with h' | h'
    · exact absurd rfl h'
    · simp [digitsAux, h']
  | cons c l ih =>
    have hc := h c List.mem_cons_self
    have hr := isDigit_range c hc
    have hu : c ≠ '_' := char_ne_of_toNat (by have : ('_' : Char).toNat = 95 := rfl; omega)
    have e48 : ('0' : Char).toNat = 48 := rfl
    simp only [digitsAux, hu, if_false, digitVal_of_isDigit c hc]
    rw [ih (fun x hx => h x (List.mem_cons_of_mem _ hx)) _ _ true (Or.inr rfl), Nat.ofDigitChars_cons, e48,
      Nat.mul_comm acc 10]
    simp only [List.length_cons]
    congr 2
    omega

/-- `int(str(n)) == n` for every non-negative `n` of at most 4300 digits (what mypy writes after the
    module name: `time_spent_us`, an `int`). -/
theorem parsePyInt_natChars (n : Nat) (h : (natChars n).length ≤ maxStrDigits) :
    parsePyInt (natChars n) = some (n : Int) := by
  have hd : ∀ c ∈ natChars n, c.isDigit = true := fun c hc =>
    Nat.isDigit_of_mem_toDigits (by decide) (by decide) hc
  have hne : natChars n ≠ [] := Nat.toDigits_ne_nil
  have hv := digitsAux_digits (natChars n) hd 0 0 false (Or.inl hne)
  have hval : Nat.ofDigitChars 10 (natChars n) 0 = n := Nat.ofDigitChars_ten_toDigits
  rw [hval, Nat.zero_add] at hv
  cases hs : natChars n with
  | nil => exact absurd hs hne
  | cons c cs =>
    have hc : c.isDigit = true := hd c (by simp [hs])
    have hr := isDigit_range c hc
    have h1 : c ≠ '-' := char_ne_of_toNat (by have : ('-' : Char).toNat = 45 := rfl; omega)
    have h2 : c ≠ '+' := char_ne_of_toNat (by have : ('+' : Char).toNat = 43 := rfl; omega)
    rw [hs] at hv h
    unfold parsePyInt
    split
    rename_i x neg body heq
    have hb : neg = false ∧ body = c :: cs := by
      split at heq
      · rename_i e; simp only [List.cons.injEq] at e; exact absurd e.1 h1
      · rename_i e; simp only [List.cons.injEq] at e; exact absurd e.1 h2
      · simp only [Prod.mk.injEq] at heq; exact ⟨heq.1.symm, heq.2.symm⟩
    obtain ⟨rfl, rfl⟩ := hb
    have h' : cs.length + 1 ≤ maxStrDigits := by simpa using h
    simp [hv, h']

/-! ### a line as mypy writes it: `f"{id} {time_spent_us}"` -/

/-- the line `mypy.build.dump_timing_stats` writes for module `m` (without the final `\n`) -/
def mypyLine (m : Str) (us : Nat) : Str := m ++ ' ' :: natChars us

theorem err_of_toOption_none {α : Type} (x : Except TErr α) (h : x.toOption = none) : x = .error .valueError := by
  cases x with
  | error e => cases e; rfl
  | ok v => cases h

/-- a module name: not empty, last character not whitespace (`a b` for the file `a b.py`; leading and
    inner whitespace of any kind allowed) -/
def ModName (m : Str) : Prop := ∃ m0 c, m = m0 ++ [c] ∧ isPySpace c = false

/-- FULL STATEMENT: every line mypy writes — any module name, any count of at most 4300 digits — is cut
    into exactly that module name and `count // 1000`. -/
def MypyLinesParse (rs : Bool) : Prop :=
  ∀ m us, ModName m → (natChars us).length ≤ maxStrDigits →
    parseLineOf rs (mypyLine m us) = .ok (m, (us : Int) / 1000)

theorem natChars_no_space (n : Nat) : ∀ x ∈ natChars n, isPySpace x = false := fun x hx =>
  isDigit_not_space x (Nat.isDigit_of_mem_toDigits (by decide) (by decide) hx)

/-- With `rsplit(maxsplit=1)` it HOLDS: a file called `a b.py` (module `a b`), `a  b.py`, ` a.py`,
    `a\tb.py` … gets its own entry and nothing raises. -/
theorem mypy_lines_parse_rsplit : MypyLinesParse true := by
  intro m us ⟨m0, c, hm, hc⟩ hlen
  have hcut : pyRsplit1 (mypyLine m us) = [m, natChars us] := by
    have := rsplit1_two m0 c [' '] (natChars us) [] hc (by simp) (by decide) Nat.toDigits_ne_nil
      (natChars_no_space us) (by simp)
    subst hm
    simpa [mypyLine] using this
  simp [parseLineOf, parseLineR, hcut, parsePyInt_natChars us hlen]

/-- `refurb "a b.py" --timing-stats out.json`: mypy writes the line `a b 1000` -/
theorem old_cut_three_fields : parseLine (mypyLine "a b".toList 1000) = .error .valueError :=
  err_of_toOption_none _ (by decide +kernel)

/-- With `split()` (refurb 2.0.0) it FAILS: the line of a module whose name contains a space has three
    fields, the unpacking raises ValueError and no statistics file is written at all. -/
theorem mypy_lines_parse_refuted : ¬ MypyLinesParse false := by
  intro h
  have := h "a b".toList 1000 ⟨"a ".toList, 'b', rfl, by decide⟩ (by decide)
  simp only [parseLineOf, Bool.false_eq_true, if_false] at this
  rw [old_cut_three_fields] at this
  cases this

/-- What holds of the old shape: module names WITHOUT whitespace are cut correctly. -/
theorem mypy_lines_parse_partial (m : Str) (us : Nat) (hm : m ≠ []) (hmm : ∀ x ∈ m, isPySpace x = false)
    (hlen : (natChars us).length ≤ maxStrDigits) :
    parseLineOf false (mypyLine m us) = .ok (m, (us : Int) / 1000) := by
  have hcut := split_two m (natChars us) hm hmm Nat.toDigits_ne_nil (natChars_no_space us)
  simp [parseLineOf, parseLine, mypyLine, hcut, parsePyInt_natChars us hlen]

/-- …and on those module names the two shapes agree, so the fix changed nothing for them. -/
theorem shapes_agree_without_space (m : Str) (us : Nat) (hm : m ≠ []) (hmm : ∀ x ∈ m, isPySpace x = false)
    (hlen : (natChars us).length ≤ maxStrDigits) :
    parseLineOf true (mypyLine m us) = parseLineOf false (mypyLine m us) := by
  rw [mypy_lines_parse_partial m us hm hmm hlen]
  apply mypy_lines_parse_rsplit m us _ hlen
  obtain ⟨d, r, hr⟩ := exists_reverse_cons hm
  refine ⟨r.reverse, d, ?_, hmm d ?_⟩
  · rw [← List.reverse_reverse m, hr]; simp
  · rw [← List.mem_reverse, hr]; exact List.mem_cons_self

/-- The property holds of the line parse exactly when it is the `rsplit(maxsplit=1)` one. -/
theorem mypy_lines_parse_iff (rs : Bool) : MypyLinesParse rs ↔ rs = true := by
  cases rs
  · simp only [Bool.false_eq_true, iff_false]; exact mypy_lines_parse_refuted
  · simp only [iff_true]; exact mypy_lines_parse_rsplit

/-- For the working tree as the translator probed it (Generated/LifecycleShape.lean). -/
theorem mypy_lines_parse_now : MypyLinesParse Generated.timingRsplit ↔ Generated.timingRsplit = true :=
  mypy_lines_parse_iff _

/-! ### a whole file as mypy writes it -/

/-- `dump_timing_stats`: one line per module of the build graph -/
def mypyFile : List (Str × Nat) → Str
  | [] => []
  | (m, us) :: r => mypyLine m us ++ '\n' :: mypyFile r

theorem splitlines_line (l r : Str) (h : ∀ x ∈ l, isLineBreak x = false) :
    pySplitlines (l ++ '\n' :: r) = l :: pySplitlines r := by
  induction l with
  | nil =>
    have : isLineBreak '\n' = true := by decide
    simp [pySplitlines, this]
  | cons c l ih =>
    have hc := h c List.mem_cons_self
    have ih' := ih (fun x hx => h x (List.mem_cons_of_mem _ hx))
    have hcr : c ≠ '\r' := by
      intro e; subst e
      have : isLineBreak '\r' = true := by decide
      rw [this] at hc; cases hc
    rw [List.cons_append]
    conv => lhs; unfold pySplitlines
    split
    · rename_i heq; cases heq
    · rename_i heq; simp only [List.cons.injEq] at heq; exact absurd heq.1 hcr
    · rename_i c' r' _ heq
      simp only [List.cons.injEq] at heq
      obtain ⟨rfl, rfl⟩ := heq
      simp only [hc, Bool.false_eq_true, if_false]
      rw [ih']

theorem mypyLine_no_linebreak (m : Str) (us : Nat) (h : ∀ x ∈ m, isLineBreak x = false) :
    ∀ x ∈ mypyLine m us, isLineBreak x = false := by
  intro x hx
  simp only [mypyLine, List.mem_append, List.mem_cons] at hx
  rcases hx with hx | rfl | hx
  · exact h x hx
  · decide
  · exact isDigit_not_linebreak x (Nat.isDigit_of_mem_toDigits (by decide) (by decide) hx)

/-- the modules of a build graph: names as in `ModName`, without line boundaries, counts `int()` accepts -/
def GraphOk (mods : List (Str × Nat)) : Prop :=
  ∀ p ∈ mods, ModName p.1 ∧ (∀ x ∈ p.1, isLineBreak x = false) ∧ (natChars p.2).length ≤ maxStrDigits

theorem parseLines_mypyFile (mods : List (Str × Nat)) (h : GraphOk mods) :
    parseLines true (pySplitlines (mypyFile mods)) = .ok (mods.map (fun p => (p.1, (p.2 : Int) / 1000))) := by
  induction mods with
  | nil => rfl
  | cons p r ih =>
    obtain ⟨m, us⟩ := p
    obtain ⟨hm, hlb, hlen⟩ := h (m, us) List.mem_cons_self
    have ih' := ih (fun q hq => h q (List.mem_cons_of_mem _ hq))
    simp only [mypyFile, List.map_cons]
    rw [splitlines_line _ _ (mypyLine_no_linebreak m us hlb)]
    simp only [parseLines, mypy_lines_parse_rsplit m us hm hlen, ih']

/-- **mypy_file_never_raises.**  With `rsplit(maxsplit=1)`, for a build graph of ANY size and ANY file
    names (spaces, tabs, non-ASCII; only line boundaries inside a name are excluded), reading back the file
    mypy wrote never raises, the statistics are produced, and the mypy section has an entry for exactly the
    modules of the graph. -/
theorem mypy_file_never_raises (mods : List (Str × Nat)) (h : GraphOk mods) (total : Int)
    (refurb : List (Str × Int)) :
    ∃ st, timingData true (mypyFile mods) total refurb = .ok st ∧
      (∀ x, x ∈ keys st.mypy ↔ x ∈ mods.map Prod.fst) ∧
      otsOf true true (mypyFile mods) true = .ok := by
  have hp := parseLines_mypyFile mods h
  refine ⟨_, by simp only [timingData, hp]; rfl, ?_, by simp [otsOf, hp]⟩
  intro x
  simp only []
  rw [mem_keys_byValueDesc, mem_keys_dictOf]
  simp [List.map_map, Function.comp_def]

/-- …and the same graph with one file called `a b.py` makes the old code raise: nothing is written. -/
theorem old_shape_raises_on_space :
    timingJson false (mypyFile [("builtins".toList, 109500), ("a b".toList, 1000)]) 0 [] = .error .valueError ∧
    otsOf false true (mypyFile [("builtins".toList, 109500), ("a b".toList, 1000)]) true = .valueError :=
  ⟨err_of_toOption_none _ (by decide +kernel), by decide +kernel⟩

/-! ## Non-vacuity -/

def sampleOk : Scenario :=
  { timingStats := true, popts := .ok, build := .ok, load := .ok, visits := [.ok, .ok], ots := .ok }

example : Completes sampleOk := by simp [Completes, sampleOk]
example : finalTemp false sampleOk = some Temp.unlinked := by decide
example : run false leakCompileError = [.processOptions .ok, .mkstemp, .build .compileError, .done .returned] := by decide
example : run true leakCompileError = [.processOptions .ok, .mkstemp, .build .compileError, .unlink, .done .returned] := by decide
example : finalTemp false leakCompileError = some Temp.created := by decide
example : finalTemp true leakCompileError = some Temp.unlinked := by decide
example : Event.unlink ∈ run false sampleOk := by decide
example : ∃ r, Event.build r ∈ run false leakCompileError := ⟨.compileError, by decide⟩

def sampleFile : Str := "builtins 109500\na 999\nb 2000\na 3100\n".toList
def sampleRefurb : List (Str × Int) := [("b".toList, 0), ("a".toList, 4), ("b".toList, 7), ("c".toList, 4)]

example : (timingJson true sampleFile 1203 sampleRefurb).toOption = some
    ("{\"mypy_total_time_spent_in_ms\":1203,\"mypy_time_spent_parsing_modules_in_ms\":{\"builtins\":109,\"a\":3,\"b\":2}," ++
     "\"refurb_time_spent_checking_file_in_ms\":{\"b\":7,\"a\":4,\"c\":4}}").toList := by decide +kernel
example : (timingJson true "a 1\nb\n".toList 0 []).toOption = none := by decide +kernel
example : (timingJson false "a -1\n".toList 0 []).toOption =
    some ("{\"mypy_total_time_spent_in_ms\":0,\"mypy_time_spent_parsing_modules_in_ms\":{\"a\":-1}," ++
         "\"refurb_time_spent_checking_file_in_ms\":{}}").toList := by decide +kernel
example : pyRsplit1 "  a  b   12 ".toList = ["  a  b".toList, "12".toList] := by decide +kernel
example : pyRsplit1 "a\tb\u3000c  7\u00a0".toList = ["a\tb\u3000c".toList, "7".toList] := by decide +kernel
example : pyRsplit1 "  a  ".toList = ["a".toList] := by decide +kernel
example : pyRsplit1 " \t ".toList = [] := by decide +kernel
example : pySplit "  a  b   12 ".toList = ["a".toList, "b".toList, "12".toList] := by decide +kernel
example : (parseLineR "a b 1 2000".toList).toOption = some ("a b 1".toList, 2) := by decide +kernel
example : (parseLineR "a".toList).toOption = none := by decide +kernel
example : (parseLineR "a b".toList).toOption = none := by decide +kernel

def sampleGraph : List (Str × Nat) := [("builtins".toList, 109500), ("a b".toList, 1000), (" x\ty  z".toList, 0), ("日 本".toList, 2999)]

example : GraphOk sampleGraph := by
  intro p hp
  simp only [sampleGraph, List.mem_cons, List.not_mem_nil, or_false] at hp
  rcases hp with rfl | rfl | rfl | rfl
  · exact ⟨⟨"builtin".toList, 's', rfl, by decide⟩, by decide, by decide⟩
  · exact ⟨⟨"a ".toList, 'b', rfl, by decide⟩, by decide, by decide⟩
  · exact ⟨⟨" x\ty  ".toList, 'z', rfl, by decide⟩, by decide, by decide⟩
  · exact ⟨⟨"日 ".toList, '本', rfl, by decide⟩, by decide, by decide⟩
example : (timingJson true (mypyFile sampleGraph) 7 []).toOption = some
    ("{\"mypy_total_time_spent_in_ms\":7,\"mypy_time_spent_parsing_modules_in_ms\":{\"builtins\":109,\"\\u65e5 \\u672c\":2,\"a b\":1,\" x\\ty  z\":0}," ++
     "\"refurb_time_spent_checking_file_in_ms\":{}}").toList := by decide +kernel
example : (timingJson false (mypyFile sampleGraph) 7 []).toOption = none := by decide +kernel
example : otsOf true true sampleFile true = .ok := by decide +kernel
example : otsOf false true sampleFile true = .ok := by decide +kernel

end RefurbVerif.C18
