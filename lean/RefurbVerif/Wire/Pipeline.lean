import RefurbVerif.Wire.Basic
import RefurbVerif.Model.Pipeline
import RefurbVerif.Generated.Handlers
import RefurbVerif.Generated.LifecycleShape
open Lean

namespace RefurbVerif.Wire
open RefurbVerif RefurbVerif.Main

def plExc (s : String) : Option Exc :=
  match s with
  | "valueError" => some .valueError
  | "typeError" => some .typeError
  | "systemExit" => some .systemExit
  | "compileError" => some .compileError
  | "recursionError" => some .recursionError
  | "notImplementedError" => some .notImplementedError
  | "unicodeDecodeError" => some .unicodeDecodeError
  | "importError" => some .importError
  | "osError" => some .osError
  | "keyError" => some .keyError
  | "attributeError" => some .attributeError
  | "assertionError" => some .assertionError
  | "unicodeEncodeError" => some .unicodeEncodeError
  | _ => none

def plStep (s : String) : Option Step :=
  match s with
  | "loadSettings" => some .loadSettings
  | "early" => some .early
  | "explain" => some .explain
  | "processOptions" => some .processOptions
  | "build" => some .build
  | "loadChecks" => some .loadChecks
  | "visit" => some .visit
  | "timing" => some .timing
  | "readSource" => some .readSource
  | "format" => some .format
  | "print" => some .print
  | _ => none

def plEarly (s : String) : Early :=
  match s with
  | "help" => .help
  | "version" => .version
  | "gen" => .gen
  | "explain" => .explain
  | _ => .none

def plFile (j : Json) : FileW :=
  { pre := nat j "pre", post := nat j "post", rank := nat j "rank",
    visitFault := (optStr j "visit").bind plExc, readFault := (optStr j "read").bind plExc }

def plFaults (j : Json) : List (Step × Exc) :=
  (arr j "fault").filterMap (fun p =>
    match p with
    | .arr #[.str s, .str e] => (plStep s).bind (fun s' => (plExc e).map (fun e' => (s', e')))
    | _ => none)

def plWorld (j : Json) : World :=
  { early := plEarly (str j "early"), debug := bool j "debug", quiet := bool j "quiet", timingStats := bool j "timing",
    fault := plFaults j, poptsErr := nat j "poptsErr", poptsOut := nat j "poptsOut",
    compileMsgs := (arr j "compile").map (fun b => (b.getBool?).toOption.getD false),
    files := (arr j "files").map plFile }

def plLine : Line → String
  | .diag i => s!"diag:{i}"
  | .refurbLine => "refurb"
  | .mypyLine => "mypy"
  | .bare => "bare"
  | .dump i => s!"dump:{i}"
  | .hint => "hint"
  | .info => "info"

def plOutcome : Outcome → Json
  | .traceback t => Json.mkObj [("r", "traceback"), ("temp", t)]
  | .clean c out t => Json.mkObj [("r", "clean"), ("exit", c), ("out", toJson (out.map plLine)), ("temp", t)]

def plCell : Cell → Json
  | .uncaught => Json.mkObj [("k", "uncaught")]
  | .exits m c k => Json.mkObj [("k", "exits"), ("msg", m), ("code", c), ("keeps", k)]
  | .lines => Json.mkObj [("k", "lines")]
  | .resume a b => Json.mkObj [("k", "resume"), ("keep", a), ("cont", b)]

/-- driver verbs of this group.
    `pipeline`: a world (JSON) → what `main()` ends with, under the regenerated table (`"table": "nesting"` = the
    hand-written reading instead) and the regenerated shape of the unlink (`"fin"` overrides it);
    `pipelineCell`: one cell of either table. -/
def handlePipeline (verb : String) (j : Json) : Option Json :=
  match verb with
  | "pipeline" =>
    let h : Table := if str j "table" == "nesting" then nesting else Generated.cells
    let fin := match j.getObjVal? "fin" with
      | .ok (.bool b) => b
      | _ => Generated.unlinkInFinally
    some (plOutcome (runMain h fin (plWorld j)))
  | "pipelineCell" =>
    match plStep (str j "step"), plExc (str j "exc") with
    | some s, some e =>
      some (Json.mkObj [("cells", plCell (Generated.cells s e)), ("nesting", plCell (nesting s e))])
    | _, _ => some (Json.mkObj [("error", "unknown step or exception kind")])
  | _ => none

end RefurbVerif.Wire
