import RefurbVerif.Model.Run
import RefurbVerif.Lemmas.Sort
import RefurbVerif.Lemmas.Order
/-! Helper lemmas for the whole-run model (Model/Run.lean): the `# noqa`/amend filter as a plain `filter` guarded by
    definedness, its commutation with other filters and with permutations, the generic block-permutation law of
    the stable sort, and look-ups in the file list. Core Lean only. -/
namespace RefurbVerif.Run
open RefurbVerif

/-! ### `noqaFilter` is a guarded `filter` -/

/-- the verdict is known and it is "keep" -/
def keepB (cfg : LineCfg) (src : Str → Str) (amend : Diag → Bool) (it : Item) : Bool :=
  shouldIgnore cfg src amend it == some false

/-- the line lookup does not raise -/
def definedB (cfg : LineCfg) (src : Str → Str) (amend : Diag → Bool) (it : Item) : Bool :=
  (shouldIgnore cfg src amend it).isSome

theorem noqaFilter_eq (cfg : LineCfg) (src : Str → Str) (amend : Diag → Bool) (l : List Item) :
    noqaFilter cfg src amend l =
      if l.all (definedB cfg src amend) then some (l.filter (keepB cfg src amend)) else none := by
  induction l with
  | nil => simp [noqaFilter]
  | cons it rest ih =>
    unfold noqaFilter
    cases h : shouldIgnore cfg src amend it with
    | none => simp [definedB, h]
    | some ig =>
      rw [ih]
      by_cases hall : rest.all (definedB cfg src amend) = true
      · cases ig <;> simp [definedB, keepB, h, hall]
      · cases ig <;> simp [definedB, h, hall]

theorem noqaFilter_some (cfg : LineCfg) (src : Str → Str) (amend : Diag → Bool) (l k : List Item)
    (h : noqaFilter cfg src amend l = some k) :
    l.all (definedB cfg src amend) = true ∧ k = l.filter (keepB cfg src amend) := by
  rw [noqaFilter_eq] at h
  by_cases hall : l.all (definedB cfg src amend) = true
  · simp only [hall, ↓reduceIte, Option.some.injEq] at h; exact ⟨hall, h.symm⟩
  · simp [hall] at h

/-- dropping items BEFORE the `# noqa`/amend filter is the same as dropping them afterwards (as long as the
    longer list does not raise) -/
theorem noqaFilter_filter (cfg : LineCfg) (src : Str → Str) (amend : Diag → Bool) (p : Item → Bool)
    (l k : List Item) (h : noqaFilter cfg src amend l = some k) :
    noqaFilter cfg src amend (l.filter p) = some (k.filter p) := by
  obtain ⟨hall, rfl⟩ := noqaFilter_some cfg src amend l k h
  rw [noqaFilter_eq]
  have : (l.filter p).all (definedB cfg src amend) = true := by
    rw [List.all_eq_true] at hall ⊢
    intro x hx; exact hall x (List.mem_filter.mp hx).1
  simp only [this, ↓reduceIte, List.filter_filter]
  congr 2
  funext x; exact Bool.and_comm _ _

theorem runReport_filter (cfg : LineCfg) (by_ : SortBy) (src : Str → Str) (amend : Diag → Bool) (p : Item → Bool)
    (l k : List Item) (h : runReport cfg by_ src amend l = some k) :
    runReport cfg by_ src amend (l.filter p) = some (k.filter p) := by
  unfold runReport at h ⊢
  cases hn : noqaFilter cfg src amend l with
  | none => simp [hn] at h
  | some kept =>
    simp only [hn, Option.map_some, Option.some.injEq] at h
    subst h
    rw [noqaFilter_filter cfg src amend p l kept hn]
    simp only [Option.map_some]
    rw [filter_ssort (leItem by_) (leItem_total by_) (leItem_trans by_)]

/-- the verdicts only depend on the source text of the diagnosed files and on the amend verdicts of the
    diagnostics that are there -/
theorem shouldIgnore_congr (cfg : LineCfg) (src src' : Str → Str) (amend amend' : Diag → Bool) (it : Item)
    (hs : ∀ d, it = .diag d → src d.file = src' d.file) (ha : ∀ d, it = .diag d → amend d = amend' d) :
    shouldIgnore cfg src amend it = shouldIgnore cfg src' amend' it := by
  cases it with
  | text s => rfl
  | diag d =>
    simp only [shouldIgnore, shouldIgnoreDiag]
    rw [hs d rfl, ha d rfl]

theorem noqaFilter_congr (cfg : LineCfg) (src src' : Str → Str) (amend amend' : Diag → Bool) (l : List Item)
    (hs : ∀ d, Item.diag d ∈ l → src d.file = src' d.file) (ha : ∀ d, Item.diag d ∈ l → amend d = amend' d) :
    noqaFilter cfg src amend l = noqaFilter cfg src' amend' l := by
  induction l with
  | nil => rfl
  | cons it rest ih =>
    unfold noqaFilter
    rw [shouldIgnore_congr cfg src src' amend amend' it (fun d hd => hs d (by simp [hd])) (fun d hd => ha d (by simp [hd])),
      ih (fun d hd => hs d (List.mem_cons_of_mem _ hd)) (fun d hd => ha d (List.mem_cons_of_mem _ hd))]

theorem runReport_congr (cfg : LineCfg) (by_ : SortBy) (src src' : Str → Str) (amend amend' : Diag → Bool) (l : List Item)
    (hs : ∀ d, Item.diag d ∈ l → src d.file = src' d.file) (ha : ∀ d, Item.diag d ∈ l → amend d = amend' d) :
    runReport cfg by_ src amend l = runReport cfg by_ src' amend' l := by
  unfold runReport
  rw [noqaFilter_congr cfg src src' amend amend' l hs ha]

/-! ### Permuting blocks under the stable sort (the generic form of Props/C11 `perm_files_same_general`) -/

theorem flatMap_perm {α β : Type} (f : α → List β) {l₁ l₂ : List α} (hp : l₁.Perm l₂) :
    (l₁.flatMap f).Perm (l₂.flatMap f) := by
  induction hp with
  | nil => exact List.Perm.refl _
  | cons x _ ih => simp only [List.flatMap_cons]; exact List.Perm.append_left _ ih
  | swap x y l =>
    simp only [List.flatMap_cons, ← List.append_assoc]
    exact List.Perm.append_right _ List.perm_append_comm
  | trans _ _ ih₁ ih₂ => exact ih₁.trans ih₂

/-- blocks of items (one per file) may come in any order when items of different blocks never tie on the sort key:
    ties keep their order by stability, and a tie never spans two blocks -/
theorem perm_blocks_same {β : Type} (by_ : SortBy) (keep : Item → Bool) (g : β → List Item)
    (l₁ l₂ : List β) (hp : l₁.Perm l₂)
    (hsep : ∀ x ∈ l₁, ∀ y ∈ l₁, x ≠ y → ∀ a ∈ g x, ∀ b ∈ g y, eqv (leItem by_) a b = false) :
    ssort (leItem by_) ((l₁.flatMap g).filter keep) = ssort (leItem by_) ((l₂.flatMap g).filter keep) := by
  apply ssort_congr (leItem by_) (leItem_total by_) (leItem_trans by_)
  · exact (flatMap_perm g hp).filter keep
  · intro a
    simp only [List.filter_flatMap]
    apply flatMap_perm_sparse _ hp
    intro f hf g' hg hfg
    by_cases h1 : ((g f).filter keep).filter (eqv (leItem by_) a) = []
    · exact Or.inl h1
    · by_cases h2 : ((g g').filter keep).filter (eqv (leItem by_) a) = []
      · exact Or.inr h2
      · exfalso
        obtain ⟨b, hb⟩ := List.exists_mem_of_ne_nil _ h1
        obtain ⟨c, hc⟩ := List.exists_mem_of_ne_nil _ h2
        have hb' := List.mem_filter.mp hb
        have hc' := List.mem_filter.mp hc
        have hbm : b ∈ g f := (List.mem_filter.mp hb'.1).1
        have hcm : c ∈ g g' := (List.mem_filter.mp hc'.1).1
        have hab := hb'.2
        have hac := hc'.2
        simp only [eqv, Bool.and_eq_true] at hab hac
        have hbc : eqv (leItem by_) b c = true := by
          simp only [eqv, Bool.and_eq_true]
          exact ⟨leItem_trans by_ b a c hab.2 hac.1, leItem_trans by_ c a b hac.2 hab.1⟩
        rw [hsep f hf g' hg hfg b hbm c hcm] at hbc
        cases hbc

/-- the `# noqa`/amend filter followed by the sort does not depend on the order of the blocks either
    (whether the lookup raises does not depend on the order at all) -/
theorem runReport_perm_blocks {β : Type} (cfg : LineCfg) (by_ : SortBy) (src : Str → Str) (amend : Diag → Bool)
    (g : β → List Item) (l₁ l₂ : List β) (hp : l₁.Perm l₂)
    (hsep : ∀ x ∈ l₁, ∀ y ∈ l₁, x ≠ y → ∀ a ∈ g x, ∀ b ∈ g y, eqv (leItem by_) a b = false) :
    runReport cfg by_ src amend (l₁.flatMap g) = runReport cfg by_ src amend (l₂.flatMap g) := by
  unfold runReport
  rw [noqaFilter_eq, noqaFilter_eq]
  have hall : (l₁.flatMap g).all (definedB cfg src amend) = (l₂.flatMap g).all (definedB cfg src amend) := by
    have hm := flatMap_perm g hp
    rw [Bool.eq_iff_iff, List.all_eq_true, List.all_eq_true]
    exact ⟨fun h x hx => h x (hm.symm.subset hx), fun h x hx => h x (hm.subset hx)⟩
  rw [hall]
  by_cases h : (l₂.flatMap g).all (definedB cfg src amend) = true
  · simp only [h, ↓reduceIte, Option.map_some]
    rw [perm_blocks_same by_ (keepB cfg src amend) g l₁ l₂ hp hsep]
  · simp [h]

/-! ### Look-ups in the file list -/

/-- file names identify the files of the run -/
def PathsIdentify (files : List FileIn) : Prop := ∀ f ∈ files, ∀ g ∈ files, f.path = g.path → f = g

theorem find_perm (files files' : List FileIn) (hp : files.Perm files') (hid : PathsIdentify files) (p : Str) :
    files.find? (fun f => f.path == p) = files'.find? (fun f => f.path == p) := by
  cases h : files.find? (fun f => f.path == p) with
  | none =>
    symm
    rw [List.find?_eq_none] at h ⊢
    intro x hx; exact h x (hp.symm.subset hx)
  | some a =>
    have ha := List.find?_some h
    have ham := List.mem_of_find?_eq_some h
    cases h' : files'.find? (fun f => f.path == p) with
    | none =>
      rw [List.find?_eq_none] at h'
      exact absurd ha (h' a (hp.subset ham))
    | some b =>
      have hb := List.find?_some h'
      have hbm := hp.symm.subset (List.mem_of_find?_eq_some h')
      simp only [beq_iff_eq] at ha hb
      rw [hid a ham b hbm (ha.trans hb.symm)]

theorem srcOf_perm (files files' : List FileIn) (hp : files.Perm files') (hid : PathsIdentify files) :
    srcOf files = srcOf files' := by
  funext p; simp only [srcOf, find_perm files files' hp hid p]

theorem relOf_perm (files files' : List FileIn) (hp : files.Perm files') (hid : PathsIdentify files) :
    relOf files = relOf files' := by
  funext p; simp only [relOf, find_perm files files' hp hid p]

/-- a rewrite of the files that keeps `path` (and `source` / `rel`) keeps the look-ups -/
theorem find_map (files : List FileIn) (g : FileIn → FileIn) (hpath : ∀ f, (g f).path = f.path) (p : Str) :
    (files.map g).find? (fun f => f.path == p) = (files.find? (fun f => f.path == p)).map g := by
  induction files with
  | nil => rfl
  | cons f rest ih =>
    simp only [List.map_cons, List.find?_cons, hpath]
    cases f.path == p <;> simp [ih]

theorem srcOf_map (files : List FileIn) (g : FileIn → FileIn) (hpath : ∀ f, (g f).path = f.path)
    (hsrc : ∀ f, (g f).source = f.source) : srcOf (files.map g) = srcOf files := by
  funext p
  simp only [srcOf, find_map files g hpath p]
  cases files.find? (fun f => f.path == p) <;> simp [hsrc]

theorem relOf_map (files : List FileIn) (g : FileIn → FileIn) (hpath : ∀ f, (g f).path = f.path)
    (hrel : ∀ f, (g f).rel = f.rel) : relOf (files.map g) = relOf files := by
  funext p
  simp only [relOf, find_map files g hpath p]
  cases files.find? (fun f => f.path == p) <;> simp [hrel]

/-! ### Rendering -/

theorem joinLines_cons_ne_nil (x : Str) (xs : List Str) (h : x ≠ []) : joinLines (x :: xs) ≠ [] := by
  cases xs with
  | nil => exact h
  | cons y ys =>
    show x ++ '\n' :: joinLines (y :: ys) ≠ []
    simp

theorem formatPlain_ne_nil (d : Diag) : formatPlain d ≠ [] := by
  intro h
  have hl := congrArg List.length h
  unfold formatPlain at hl
  simp only [List.length_append, List.length_cons, List.length_nil] at hl
  omega

theorem formatColor_ne_nil (d : Diag) : formatColor d ≠ [] := by
  intro h
  have hl := congrArg List.length h
  unfold formatColor blue sgr at hl
  simp only [List.length_append, List.length_cons, List.length_nil] at hl
  omega

theorem formatGithub_ne_nil (rel : Str) (d : Diag) : formatGithub rel d ≠ [] := by
  intro h
  have hl := congrArg List.length h
  have h13 : ("::error line=".toList).length = 13 := by decide
  unfold formatGithub at hl
  simp only [List.length_append, h13, List.length_nil] at hl
  omega

theorem formatItem_diag_ne_nil (fmt : Format) (rel : Str → Str) (d : Diag) : formatItem fmt rel (.diag d) ≠ [] := by
  cases fmt
  · exact formatPlain_ne_nil d
  · exact formatColor_ne_nil d
  · exact formatGithub_ne_nil (rel d.file) d

/-- a report that starts with a diagnostic is never the empty text -/
theorem formatErrors_ne_nil (fmt : Format) (rel : Str → Str) (quiet : Bool) (d : Diag) (rest : List Item) :
    formatErrors fmt rel quiet (.diag d :: rest) ≠ [] := by
  unfold formatErrors
  intro h
  have := (List.append_eq_nil_iff.mp h).1
  exact joinLines_cons_ne_nil _ _ (formatItem_diag_ne_nil fmt rel d) (by simpa using this)

theorem formatErrors_nil (fmt : Format) (rel : Str → Str) (quiet : Bool) : formatErrors fmt rel quiet [] = [] := by
  simp [formatErrors, hintShown, joinLines]

end RefurbVerif.Run
