"""Translator for C07: how the Error objects of every built-in check get their position.

Generated/Positions.lean holds

* `positions : List Pos.CheckPos` — per check module (in `get_modules([])` order) one entry per place where an
  error object is created or a position field is written, as SOURCE TEXT (an `ast` scan: the fact "this call
  spells its position by hand" has no runtime face):
    `.fromNode "<arg>"`          for `<ErrorClass>.from_node(<arg>, …)`
    `.explicit "<line>" "<col>"` for `<ErrorClass>(<line>, <column>, …)` (positional or keyword)
    `.other "<text>"`            for anything else that can put a position into an Error: a call that resolves to
                                 dataclasses.replace / copy.copy / copy.deepcopy, or an assignment to an attribute
                                 called line / column / line_end / column_end / filename
  Whether a name is an Error class is decided at runtime (`issubclass(getattr(module, name), Error)`), so renaming
  `ErrorInfo` does not matter.  Props/C07 pins the set of checks that have a non-`fromNode` site.
* `expandtabsLineField : Pos.LineField` — which field of the MemberExpr FURB106 takes the LINE from, probed by
  calling the real `check` on a synthetic `x.replace("\\t", " ")` whose `line` and `end_line` differ.  The model
  `Pos.expandtabs` is parametrised by it (today `.line`; `.endLine` is the repair proposed for the defect this
  property finds), so the correspondence stays meaningful on either side of that repair.
"""

from __future__ import annotations

import ast
import copy
import dataclasses
from pathlib import Path
from typing import Any

from . import core, extract

POS_ATTRS = {"line", "column", "line_end", "column_end", "filename"}


def _src(node: ast.AST | None) -> str:
    return " ".join(ast.unparse(node).split()) if node is not None else ""


def scan_module(mod: Any) -> list[tuple[str, ...]]:
    from refurb.error import Error

    path = Path(mod.__file__)
    tree = ast.parse(path.read_text())
    sites: list[tuple[int, int, tuple[str, ...]]] = []

    def resolve(fn: ast.AST) -> Any:
        if isinstance(fn, ast.Name):
            return getattr(mod, fn.id, None)
        if isinstance(fn, ast.Attribute) and isinstance(fn.value, ast.Name):
            return getattr(getattr(mod, fn.value.id, None), fn.attr, None)
        return None

    for n in ast.walk(tree):
        if isinstance(n, ast.Call):
            fn = n.func
            if isinstance(fn, ast.Attribute) and fn.attr == "from_node":
                sites.append((n.lineno, n.col_offset, ("fromNode", _src(n.args[0]) if n.args else _src(n))))
                continue
            obj = resolve(fn)
            if isinstance(obj, type) and issubclass(obj, Error):
                kw = {k.arg: k.value for k in n.keywords if k.arg}
                line = n.args[0] if len(n.args) > 0 else kw.get("line")
                col = n.args[1] if len(n.args) > 1 else kw.get("column")
                sites.append((n.lineno, n.col_offset, ("explicit", _src(line), _src(col))))
            elif obj is not None and obj in (dataclasses.replace, copy.copy, copy.deepcopy):
                sites.append((n.lineno, n.col_offset, ("other", _src(n))))
        elif isinstance(n, (ast.Assign, ast.AugAssign, ast.AnnAssign)):
            targets = n.targets if isinstance(n, ast.Assign) else [n.target]
            for t in targets:
                if isinstance(t, ast.Attribute) and t.attr in POS_ATTRS:
                    sites.append((n.lineno, n.col_offset, ("other", _src(n))))
    return [s for _, _, s in sorted(sites)]


def rows() -> list[dict[str, Any]]:
    out = []
    for r in extract.catalogue_rows():
        out.append({"module": r["module"], "code": r["code"], "prefix": r["prefix"], "sites": scan_module(r["mod"])})
    return out


def probe_expandtabs_line_field() -> str:
    """Call the real FURB106 check on `x.replace("\\t", " ")` with line=3 and end_line=5: which one is reported?"""
    import importlib

    from mypy.nodes import ArgKind, CallExpr, MemberExpr, NameExpr, StrExpr

    mod = importlib.import_module("refurb.checks.string.expandtabs")
    recv = NameExpr("x")
    func = MemberExpr(recv, "replace")
    func.line, func.column, func.end_line, func.end_column = 3, 11, 5, 29
    call = CallExpr(func, [StrExpr("\t"), StrExpr(" ")], [ArgKind.ARG_POS, ArgKind.ARG_POS], [None, None])
    call.line, call.column, call.end_line, call.end_column = 3, 11, 5, 40
    errors: list[Any] = []
    mod.check(call, errors)
    if len(errors) != 1:
        raise ValueError(f"FURB106 probe: expected one error, got {errors!r}")
    e = errors[0]
    if e.column != 29 - 7:
        raise ValueError(f"FURB106 probe: column {e.column}, expected end_column - 7 = 22 (the model Pos.expandtabs is stale)")
    if e.line == 3:
        return "line"
    if e.line == 5:
        return "endLine"
    raise ValueError(f"FURB106 probe: line {e.line} is neither func.line (3) nor func.end_line (5)")


@extract.register("Positions")
def gen_positions() -> str:
    L = extract.lstr
    items = []
    for r in rows():
        sites = []
        for s in r["sites"]:
            if s[0] == "fromNode":
                sites.append(f".fromNode {L(s[1])}")
            elif s[0] == "explicit":
                sites.append(f".explicit {L(s[1])} {L(s[2])}")
            else:
                sites.append(f".other {L(s[1])}")
        items.append("  { module := %s, code := %d, sites := %s }" % (L(r["module"]), r["code"], extract.llist(sites)))
    field = probe_expandtabs_line_field()
    return (
        extract.HEADER
        + "import RefurbVerif.Model.Pos\nnamespace RefurbVerif.Generated\n\n"
        + "/-- per built-in check: how each error object it creates gets its position (source text, `ast` scan) -/\n"
        + "def positions : List Pos.CheckPos := [\n"
        + ",\n".join(items)
        + "\n]\n\n"
        + "/-- the field of `func` FURB106 reports as the line (probed by calling the check) -/\n"
        + f"def expandtabsLineField : Pos.LineField := .{field}\n"
        + "\nend RefurbVerif.Generated\n"
    )
