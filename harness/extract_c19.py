"""Translator for C19: Generated/NodeTypes.lean — one row per entry of `refurb.gen.NODES`, in NODES order.

Everything is read off the imported modules at run time (nothing is parsed from source):
  module      NODES[name].__module__            (what build_imports writes after `from`)
  valid       NODES[name] in loader.VALID_NODE_TYPES
  importable  getattr(importlib.import_module(module), name) is NODES[name]
  method      the visit_* key of METHOD_NODE_MAPPINGS
  supers      offered node types that are proper base classes (what `case X()` / isinstance also reaches)
  chainsTo    offered node types whose visit method the base TraverserVisitor.visit_<method> calls on
              `self` — tabulated by running it on a default-constructed exemplar with a recording visitor
"""

from __future__ import annotations

import importlib
from typing import Any

from . import extract
from .extract import HEADER, lbool, lstr, lstrs


def node_rows() -> list[dict[str, Any]]:
    from refurb import gen, loader
    from refurb.visitor import TraverserVisitor
    from refurb.visitor.mapping import METHOD_NODE_MAPPINGS

    method_of = {}
    for meth, cls in METHOD_NODE_MAPPINGS.items():
        method_of.setdefault(cls, meth)
    rows = []
    for name, cls in gen.NODES.items():
        try:
            importable = getattr(importlib.import_module(cls.__module__), name, None) is cls
        except Exception:  # noqa: BLE001
            importable = False
        supers = [n for n, c in gen.NODES.items() if c is not cls and issubclass(cls, c)]
        rows.append(
            {
                "name": name,
                "cls": cls,
                "module": cls.__module__,
                "valid": cls in loader.VALID_NODE_TYPES,
                "importable": importable,
                "method": method_of.get(cls, ""),
                "supers": supers,
                "chainsTo": chains_to(TraverserVisitor, METHOD_NODE_MAPPINGS, method_of.get(cls, ""), cls, gen.NODES),
            }
        )
    return rows


def chains_to(base: type, mapping: dict[str, type], meth: str, cls: type, nodes: dict[str, type]) -> list[str]:
    """Which other mapped visit methods does `base.<meth>(self, node)` call on self, for an exemplar
    node without children?  (Today: visit_func_def and visit_lambda_expr call self.visit_func.)"""
    if not meth:
        return []
    try:
        node = cls()
    except Exception:  # noqa: BLE001  (needs constructor arguments: such nodes have children; the
        return []  # chained calls we look for are on `self` with the same node, found on leaf exemplars)
    called: list[str] = []
    rec = base()
    for m2, c2 in mapping.items():
        if m2 == meth:
            continue

        def hook(o: Any, _m: str = m2, _c: type = c2) -> None:
            if o is node:
                called.append(_c.__name__)

        setattr(rec, m2, hook)
    try:
        getattr(base, meth)(rec, node)
    except Exception:  # noqa: BLE001
        return []
    return [n for n in nodes if n in called]


@extract.register("NodeTypes")
def gen_node_types() -> str:
    items = []
    for r in node_rows():
        items.append(
            "  { name := %s, module := %s, valid := %s, importable := %s, method := %s, supers := %s, chainsTo := %s }"
            % (
                lstr(r["name"]),
                lstr(r["module"]),
                lbool(r["valid"]),
                lbool(r["importable"]),
                lstr(r["method"]),
                lstrs(r["supers"]),
                lstrs(r["chainsTo"]),
            )
        )
    return (
        HEADER
        + "import RefurbVerif.Model.Gen\nnamespace RefurbVerif.Generated\n\n"
        + "/-- one row per entry of `refurb.gen.NODES`, in NODES order -/\n"
        + "def nodeTypes : List Gen.NodeType := [\n"
        + ",\n".join(items)
        + "\n]\n\nend RefurbVerif.Generated\n"
    )
