/-
C17 — the check catalogue is coherent and its documentation is truthful.

The tables (`Generated.catalogue`, `Generated.docEntries`, `Generated.docDefaultDisabled`,
`Generated.examples`) are regenerated from /repo on every run; the theorems below are re-checked
against them.  General lemmas (`explain_*`) hold for every catalogue, including one extended by
plugins.
-/
import RefurbVerif.Model.Catalogue
import RefurbVerif.Generated.Catalogue
import RefurbVerif.Generated.Docs
import RefurbVerif.Generated.Examples

namespace RefurbVerif.C17
open RefurbVerif RefurbVerif.Generated

/-! ### General lemmas about `explain` (any catalogue, any number of plugins) -/

/-- If codes are unique, looking a check's own code up finds that very check, wherever it sits. -/
theorem explain_own (cat : List CheckInfo) (h : (cat.map CheckInfo.key).Nodup) :
    ∀ c ∈ cat, explain cat c.key = if c.docIsDefault then .noDoc else .found c := by
  intro c hc
  unfold explain
  have : cat.find? (fun d => d.key == c.key) = some c := by
    induction cat with
    | nil => cases hc
    | cons d ds ih =>
      simp only [List.map_cons, List.nodup_cons] at h
      by_cases hdc : d.key = c.key
      · rcases List.mem_cons.mp hc with rfl | hmem
        · simp [List.find?]
        · exact absurd (hdc ▸ List.mem_map_of_mem (f := CheckInfo.key) hmem : d.key ∈ ds.map CheckInfo.key) h.1
      · rcases List.mem_cons.mp hc with rfl | hmem
        · exact absurd rfl hdc
        · rw [List.find?_cons_of_neg (by simpa using hdc)]
          exact ih h.2 hmem
  rw [this]

/-- `explain` never answers with a check whose code differs from the one asked for. -/
theorem explain_found_has_key (cat : List CheckInfo) (k : String × Nat) (c : CheckInfo)
    (h : explain cat k = .found c) : c.key = k ∧ c ∈ cat := by
  unfold explain at h
  split at h
  · rename_i d hd
    split at h
    · cases h
    · cases h
      exact ⟨by simpa using List.find?_some hd, List.mem_of_find?_eq_some hd⟩
  · cases h

/-- A code that no loaded check carries is reported as not found (never someone else's text). -/
theorem explain_unknown (cat : List CheckInfo) (k : String × Nat)
    (h : k ∉ cat.map CheckInfo.key) : explain cat k = .notFound := by
  unfold explain
  have : cat.find? (fun c => c.key == k) = none := by
    rw [List.find?_eq_none]
    intro c hc hk
    exact h (by simpa using ⟨c, hc, by simpa using hk⟩)
  rw [this]

/-- Plugins appended after the built-ins cannot shadow a built-in code. -/
theorem explain_builtin_wins (cat plugins : List CheckInfo) :
    ∀ c ∈ cat, explain (cat ++ plugins) c.key = explain cat c.key := by
  intro c hc
  have hfind : cat.find? (fun d => d.key == c.key) ≠ none := by
    intro hn
    rw [List.find?_eq_none] at hn
    exact hn c hc (by simp)
  unfold explain
  rw [List.find?_append]
  cases hf : cat.find? (fun d => d.key == c.key) with
  | none => exact absurd hf hfind
  | some d => simp

/-! ### Facts about today's catalogue (kernel-evaluated over the regenerated tables) -/

theorem codes_unique : (catalogue.map CheckInfo.key).Nodup := by decide +kernel

theorem names_unique : (catalogue.map (·.name)).Nodup := by decide +kernel

theorem every_check_named : ∀ c ∈ catalogue, c.hasName = true ∧ c.name ≠ "" := by decide +kernel

theorem every_check_documented : ∀ c ∈ catalogue, c.docIsDefault = false := by decide +kernel

/-- `get_error_class` picks the first valid class in `dir()` order: with exactly one candidate per
    module the choice cannot silently depend on naming. -/
theorem one_error_class_per_module : ∀ c ∈ catalogue, c.errorClasses.length = 1 := by decide +kernel

/-- Every code that can appear in output is explained with that check's own entry. -/
theorem every_reportable_code_explained :
    ∀ c ∈ catalogue, explain catalogue c.key = .found c := by
  intro c hc
  have h := explain_own catalogue codes_unique c hc
  have hd := every_check_documented c hc
  simpa [hd] using h

/-- docs/checks.md lists exactly the catalogue, sorted by code string, with the same name,
    categories and documentation text. -/
theorem docs_agree :
    docEntries.Perm (catalogue.map CheckInfo.docEntry) ∧ docEntries.Pairwise (fun a b => a.code < b.code) := by
  decide +kernel

/-- docs/configs/default.toml disables exactly the checks that are disabled by default. -/
theorem default_config_agrees :
    docDefaultDisabled.Perm
      ((catalogue.filter (fun c => !c.enabled)).map (fun c => c.pfx ++ toString c.code)) := by
  decide +kernel

theorem bad_flagged : ∀ e ∈ examples, e.kind = "Bad" → e.flaggedByOwnCheck = true := by
  decide +kernel

theorem good_clean : ∀ e ∈ examples, e.kind = "Good" → e.flaggedByOwnCheck = false := by
  decide +kernel

/-- every check that documents examples documents both kinds (non-vacuity of the two above) -/
theorem examples_cover_catalogue :
    (catalogue.filter (fun c => examples.any (fun e => e.code == c.code && e.kind == "Bad")
        && examples.any (fun e => e.code == c.code && e.kind == "Good"))).length + 1
      ≥ catalogue.length := by
  decide +kernel

/-! ### What `--explain` prints first -/

/-- the header of an explanation is the check's own code, its name and its categories in brackets, in that order -/
theorem header_shape (c : CheckInfo) :
    c.explainHeader = c.pfx ++ toString c.code ++ ": " ++ (if c.hasName then c.name else "<name unknown>") ++ " "
      ++ " ".intercalate (c.categories.map (fun x => "[" ++ x ++ "]")) := rfl

/-- **Every reportable code is explained under its own header**: `explain` finds the check itself (above), and no two checks
    of today's catalogue print the same header line (code, name and categories identify the check) — so the first line of
    `refurb --explain CODE` names exactly the check that reports CODE. -/
theorem headers_identify_checks : (catalogue.map CheckInfo.explainHeader).Nodup := by decide +kernel

/-! ### Non-vacuity -/

example : catalogue.length ≥ 90 := by decide +kernel
example : (catalogue.find? (fun c => c.code == 123)).map CheckInfo.explainHeader
    = some "FURB123: no-redundant-cast [readability]" := by decide +kernel
example : (match explain catalogue ("FURB", 123) with | .found c => c.code == 123 | _ => false) = true := by
  decide +kernel

end RefurbVerif.C17
