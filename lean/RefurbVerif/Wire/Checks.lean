import RefurbVerif.Wire.Basic
import RefurbVerif.Model.Rules
import RefurbVerif.Model.CheckAst
import RefurbVerif.Wire.Types
import RefurbVerif.Wire.Equiv
open Lean

namespace RefurbVerif.Wire
open RefurbVerif.Py

def fltJ : Flt → Json
  | .nan => Json.mkObj [("t", "float"), ("k", "nan")]
  | .negZero => Json.mkObj [("t", "float"), ("k", "negzero")]
  | .whole z => Json.mkObj [("t", "float"), ("k", "whole"), ("z", z)]

def scalarJ : Scalar → Json
  | .none => Json.mkObj [("t", "none")]
  | .bool b => Json.mkObj [("t", "bool"), ("v", b)]
  | .int i => Json.mkObj [("t", "int"), ("v", i)]
  | .flt f => fltJ f
  | .str s => Json.mkObj [("t", "str"), ("v", String.ofList s)]

def valJ : Val → Json
  | .sc s => scalarJ s
  | .list xs => Json.mkObj [("t", "list"), ("items", Json.arr (xs.map scalarJ).toArray)]
  | .tuple xs => Json.mkObj [("t", "tuple"), ("items", Json.arr (xs.map scalarJ).toArray)]

def toScalar (j : Json) : Scalar :=
  match str j "t" with
  | "bool" => .bool (bool j "v")
  | "int" => .int (int j "v")
  | "str" => .str (str j "v").toList
  | "float" =>
    match str j "k" with
    | "nan" => .flt .nan
    | "negzero" => .flt .negZero
    | _ => .flt (.whole (int j "z"))
  | _ => .none

def toVal (j : Json) : Val :=
  match str j "t" with
  | "list" => .list ((arr j "items").map toScalar)
  | "tuple" => .tuple ((arr j "items").map toScalar)
  | _ => .sc (toScalar j)

def typeNameS : TypeName → String
  | .noneType => "type(None)" | .bool => "bool" | .int => "int" | .float => "float" | .str => "str" | .list => "list" | .tuple => "tuple"

def litSrc : Val → String
  | .sc .none => "None"
  | .sc (.bool b) => if b then "True" else "False"
  | .sc (.int i) => toString i
  | .sc (.flt .nan) => "float('nan')"
  | .sc (.flt .negZero) => "-0.0"
  | .sc (.flt (.whole z)) => s!"{z}.0"
  | .sc (.str s) => "\"" ++ String.ofList s ++ "\""     -- only plain literals occur in the rule table
  | .list [] => "[]"
  | .tuple [] => "()"
  | .list _ => "[...]"
  | .tuple _ => "(...)"

def radixFn : Radix → String | .bin => "bin" | .oct => "oct" | .hex => "hex"

/-- Python source of a model expression (fully parenthesised) -/
def render : PyExpr → String
  | .var n => n
  | .lit v => litSrc v
  | .eq a b => s!"({render a} == {render b})"
  | .ne a b => s!"({render a} != {render b})"
  | .lt a b => s!"({render a} < {render b})"
  | .le a b => s!"({render a} <= {render b})"
  | .gt a b => s!"({render a} > {render b})"
  | .ge a b => s!"({render a} >= {render b})"
  | .is_ a b => s!"({render a} is {render b})"
  | .isNot a b => s!"({render a} is not {render b})"
  | .in_ a b => s!"({render a} in {render b})"
  | .notIn a b => s!"({render a} not in {render b})"
  | .and_ a b => s!"({render a} and {render b})"
  | .or_ a b => s!"({render a} or {render b})"
  | .not_ a => s!"(not {render a})"
  | .ifExp t c e => s!"({render t} if {render c} else {render e})"
  | .chainEq a b c => s!"({render a} == {render b} == {render c})"
  | .tup1 a => s!"({render a},)"
  | .tup2 a b => s!"({render a}, {render b})"
  | .list1 a => s!"[{render a}]"
  | .list2 a b => s!"[{render a}, {render b}]"
  | .len a => s!"len({render a})"
  | .boolOf a => s!"bool({render a})"
  | .intOf a => s!"int({render a})"
  | .strOf a => s!"str({render a})"
  | .listOf a => s!"list({render a})"
  | .tupleOf a => s!"tuple({render a})"
  | .copy a => s!"{render a}.copy()"
  | .min2 a b => s!"min({render a}, {render b})"
  | .max2 a b => s!"max({render a}, {render b})"
  | .minL a => s!"min({render a})"
  | .maxL a => s!"max({render a})"
  | .sorted a => s!"sorted({render a})"
  | .index0 a => s!"{render a}[0]"
  | .indexLast a => s!"{render a}[-1]"
  | .sliceAll a => s!"{render a}[:]"
  | .isinstance a t => s!"isinstance({render a}, {typeNameS t})"
  | .typeIsNone a => s!"(type({render a}) is type(None))"
  | .typeEqNone a => s!"(type({render a}) == type(None))"
  | .typeNeNone a => s!"(type({render a}) != type(None))"
  | .typeIsNotNone a => s!"(type({render a}) is not type(None))"
  | .isinstance2 a t u => s!"isinstance({render a}, {typeNameS t} | {typeNameS u})"
  | .call0 t => s!"{typeNameS t}()"
  | .tup3 a b c => s!"({render a}, {render b}, {render c})"
  | .list3 a b c => s!"[{render a}, {render b}, {render c}]"
  | .sliceFrom a i => s!"{render a}[{render i}:]"
  | .sliceTo a i => s!"{render a}[:{render i}]"
  | .sliceRev a => s!"{render a}[::-1]"
  | .neg a => s!"(-{render a})"
  | .startswith a b => s!"{render a}.startswith({render b})"
  | .endswith a b => s!"{render a}.endswith({render b})"
  | .removeprefix a b => s!"{render a}.removeprefix({render b})"
  | .removesuffix a b => s!"{render a}.removesuffix({render b})"
  | .sortedRev a => s!"sorted({render a}, reverse=True)"
  | .listReversed a => s!"list(reversed({render a}))"
  | .radixOf r a => s!"{radixFn r}({render a})"
  | .fmtRadix r alt a => "f\"{" ++ render a ++ ":" ++ (if alt then "#" else "") ++ String.singleton r.letter ++ "}\""
  | .fstr a => "f\"{" ++ render a ++ "}\""
  | .count a b => s!"{render a}.count({render b})"
  | .bitCount a => s!"{render a}.bit_count()"

def ruleJ (r : Rule) (refuted : Bool) : Json := Json.mkObj [
  ("guard", r.guard), ("guarded", !r.guard.isEmpty),
  ("code", r.code), ("label", r.label),
  ("vars", Json.arr (r.vars.map (fun p => Json.arr #[Json.str p.1, optJ (fun t => Json.str (typeNameS t)) p.2])).toArray),
  ("old", render r.old), ("new", render r.new), ("cond_pos", r.condPos), ("refuted", refuted)]

def allRules : List (Rule × Bool) := rules.map (·, false) ++ guardedRules.map (·, false) ++ refutedRules.map (·, true)

def envOfJ (j : Json) : Env := fun n =>
  match j.getObjVal? n with
  | .ok v => some (toVal v)
  | .error _ => none

/-! statement-level rules: Python source of the blocks, and running them -/

def pad (n : Nat) (l : String) : String := String.ofList (List.replicate (4 * n) ' ') ++ l

mutual
def renderStmt (ind : Nat) : Stmt → List String
  | .pass => [pad ind "pass"]
  | .assign x e => [pad ind s!"{x} = {render e}"]
  | .assign2 x y e1 e2 => [pad ind s!"{x}, {y} = {render e1}, {render e2}"]
  | .append x e => [pad ind s!"{x}.append({render e})"]
  | .extend2 x e1 e2 => [pad ind s!"{x}.extend(({render e1}, {render e2}))"]
  | .listComp x elt v it cond =>
    let c := match cond with | some c => s!" if {render c}" | none => ""
    [pad ind s!"{x} = [{render elt} for {v} in {render it}{c}]"]
  | .ret none => [pad ind "return"]
  | .ret (some e) => [pad ind s!"return {render e}"]
  | .cont => [pad ind "continue"]
  | .ifElse c t e =>
    [pad ind s!"if {render c}:"] ++ renderBlock (ind + 1) t ++ (if e.isEmpty then [] else [pad ind "else:"] ++ renderBlock (ind + 1) e)
  | .forIn v it b => [pad ind s!"for {v} in {render it}:"] ++ renderBlock (ind + 1) b
  | .forEnum i v it b => [pad ind s!"for {i}, {v} in enumerate({render it}):"] ++ renderBlock (ind + 1) b
  | .delAll x => [pad ind s!"del {x}[:]"]
  | .sliceAssignEmpty x => [pad ind s!"{x}[:] = []"]
  | .clear x => [pad ind s!"{x}.clear()"]
  | .sortIn x rev => [pad ind (if rev then s!"{x}.sort(reverse=True)" else s!"{x}.sort()")]
  | .reverseIn x => [pad ind s!"{x}.reverse()"]
def renderBlock (ind : Nat) : List Stmt → List String
  | [] => [pad ind "pass"]
  | [s] => renderStmt ind s
  | s :: t :: rest => renderStmt ind s ++ renderBlock ind (t :: rest)
end

def nestLines : Nat → Nat → List Stmt → List String
  | 0, ind, b => renderBlock ind b
  | k + 1, ind, b => [pad ind "for _ in range(1):"] ++ nestLines k (ind + 1) b

def sruleJ (r : SRule) (refuted : Bool) : Json := Json.mkObj [
  ("guard", r.guard), ("guarded", !r.guard.isEmpty),
  ("code", r.code), ("label", r.label),
  ("vars", Json.arr (r.vars.map (fun p => Json.arr #[Json.str p.1, optJ (fun t => Json.str (typeNameS t)) p.2])).toArray),
  ("old", "\n".intercalate (nestLines r.nest 0 r.old)), ("new", "\n".intercalate (nestLines r.nest 0 r.new)),
  ("advice", r.advice), ("ignore", Json.arr (r.ignore.map Json.str).toArray), ("refuted", refuted)]

def allSRules : List (SRule × Bool) := srules.map (·, false) ++ guardedSRules.map (·, false) ++ refutedSRules.map (·, true)

def flowJ (names : List String) : Flow → Json
  | .next σ => Json.mkObj [("r", "next"), ("state", Json.mkObj (names.map (fun n => (n, optJ valJ (σ n)))))]
  | .returned v σ => Json.mkObj [("r", "returned"), ("v", valJ v), ("state", Json.mkObj (names.map (fun n => (n, optJ valJ (σ n)))))]
  | .continued _ => Json.mkObj [("r", "continued")]
  | .raised => Json.mkObj [("r", "raised")]


/-! ### the check matchers of Model/CheckAst.lean over trees serialised by harness/astjson.py -/

namespace ChecksW
open RefurbVerif.CheckAst

/-- `TypeInfo.mro` of `builtins.tuple` (what `extract_typeinfo` answers for every `TupleType`) -/
def tupleMro : List String :=
  ["builtins.tuple", "typing.Sequence", "typing.Collection", "typing.Reversible", "typing.Iterable", "typing.Container", "builtins.object"]

/-- the Python classes among the values of SIMPLE_TYPES -/
def simpleNames : List String :=
  (Generated.simpleTypes.filterMap (fun e => match e.2 with | .pyType n => some n | _ => none)).eraseDups

/-- the verdicts of refurb's type helpers (Model/Types.lean) on a serialised `get_mypy_type` result -/
def tyAnnOf (j : Json) : TyAnn :=
  let tbl := Generated.simpleTypes
  let v := TypesW.toVal j
  let Γ : Types.Ctx := {
    classes := [{ fullname := str j "name", mro := strs j "mro", names := [] },
                { fullname := "builtins.tuple", mro := tupleMro, names := [] }],
    modules := [], builtins := [("tuple", .typeInfo "builtins.tuple")] }
  { isNone := v.isNone,
    same := (simpleNames.find? (fun n => Types.isSameType tbl v [.pyType n])).getD "",
    named := (match v with
      | some (.ty t) => (match t.expandAlias with | .inst c _ => c | _ => "")
      | _ => ""),
    pyType := (match Types.mypyTypeToPythonType tbl v with | some (.pyType n) => n | _ => ""),
    sized := Types.isSizedType tbl Γ v,
    mapping := Types.isMappingType tbl Γ v }

def annOf (j : Json) : Ann :=
  { line := int j "line", col := int j "col", eline := int j "end_line", ecol := int j "end_col",
    ty := tyAnnOf (obj j "ty"), str := optStr j "str", sc := str j "sc" }

def argKind (s : String) : ArgKind :=
  match s with
  | "ARG_POS" => .pos | "ARG_OPT" => .opt | "ARG_STAR" => .star | "ARG_NAMED" => .named | "ARG_STAR2" => .star2 | _ => .namedOpt

def nth (j : Json) (i : Nat) : Json :=
  match j with
  | .arr a => a.toList.getD i Json.null
  | _ => Json.null

partial def toExpr (j : Json) : Expr :=
  match j with
  | .null => .absent
  | _ =>
    let a := annOf j
    let sub (k : String) : Expr := toExpr (obj j k)
    let subs (k : String) : List Expr := (arr j k).map toExpr
    match str j "kind" with
    | "NameExpr" => .name a (str j "name") (str j "fullname")
    | "MemberExpr" => .member a (sub "expr") (str j "name") (str j "fullname")
    | "CallExpr" =>
      let args := arr j "args"
      .call a (sub "callee") (args.map (fun x => toExpr (nth x 0))) (args.map (fun x => argKind ((nth x 1).getStr?.toOption.getD "")))
        (args.map (fun x => (nth x 2).getStr?.toOption))
    | "OpExpr" => .op a (str j "op") (sub "left") (sub "right")
    | "ComparisonExpr" => .compare a (strs j "ops") (subs "operands")
    | "UnaryExpr" => .unary a (str j "op") (sub "expr")
    | "ConditionalExpr" => .cond a (sub "if_expr") (sub "cond") (sub "else_expr")
    | "IndexExpr" => .index a (sub "base") (sub "index")
    | "SliceExpr" => .slice a (sub "begin") (sub "end") (sub "stride")
    | "IntExpr" => .int a ((str j "value").toInt?.getD 0)
    | "StrExpr" => .str a (str j "value")
    | "BytesExpr" => .bytes a (str j "value")
    | "FloatExpr" => .float a (str j "value")
    | "ListExpr" => .list a (subs "items")
    | "TupleExpr" => .tuple a (subs "items")
    | "SetExpr" => .set a (subs "items")
    | "DictExpr" => .dict a ((arr j "items").map (fun x => toExpr (nth x 0))) ((arr j "items").map (fun x => toExpr (nth x 1)))
    | "LambdaExpr" => .lambda a (sub "body")
    | "GeneratorExpr" =>
      .comp a "GeneratorExpr" [sub "left"] (subs "indices") (subs "sequences") ((arr j "condlists").flatMap (fun cl => match cl with | .arr x => x.toList.map toExpr | _ => []))
    | "DictionaryComprehension" =>
      .comp a "DictionaryComprehension" [sub "key", sub "value"] (subs "indices") (subs "sequences")
        ((arr j "condlists").flatMap (fun cl => match cl with | .arr x => x.toList.map toExpr | _ => []))
    | "ListComprehension" => .other a "ListComprehension" [sub "generator"]
    | "SetComprehension" => .other a "SetComprehension" [sub "generator"]
    | "StarExpr" => .other a "StarExpr" [sub "expr"]
    | "AwaitExpr" => .other a "AwaitExpr" [sub "expr"]
    | "YieldExpr" => .other a "YieldExpr" [sub "expr"]
    | "YieldFromExpr" => .other a "YieldFromExpr" [sub "expr"]
    | "AssignmentExpr" => .other a "AssignmentExpr" [sub "target", sub "value"]
    | k => .other a k []

/-! the `is_equivalent` oracle: Model/Equiv.lean on the same tree -/

def kindNat : ArgKind → Nat
  | .pos => 0 | .opt => 1 | .star => 2 | .named => 3 | .star2 => 4 | .namedOpt => 5

mutual
partial def toEquiv : Expr → Equiv.Expr
  | .absent => .other [] "None".toList []
  | .name _ n fn => .name n.toList (some fn.toList)
  | .member _ e n fn => .member (toEquiv e) n.toList (some fn.toList)
  | .index _ b i => .index (toEquiv b) (toEquiv i)
  | .call _ c args kinds names => .call (toEquiv c) (toEquivArgs args kinds names)
  | .list _ items => .seq .list (toEquivL items)
  | .tuple _ items => .seq .tuple (toEquivL items)
  | .set _ items => .seq .set (toEquivL items)
  | .dict _ ks vs => .dict (toEquivItems ks vs)
  | .unary _ o e => .unary o.toList (toEquiv e)
  | .op _ o l r => .op o.toList (toEquiv l) (toEquiv r)
  | .compare a ops operands =>
    (match operands with
     | f :: rest => .cmp (toEquiv f) (toEquivRest ops rest)
     | [] => .other "ComparisonExpr".toList a.sc.toList [])
  | .slice _ b e s => .slice (toEquivO b) (toEquivO e) (toEquivO s)
  | .int _ v => .lit .int (toString v).toList
  | .str _ v => .lit .str v.toList
  | .bytes _ v => .lit .bytes v.toList
  | .float _ r => .lit .float r.toList
  | .other _ "StarExpr" [e] => .star (toEquiv e)
  | e => .other [] e.ann.sc.toList []
partial def toEquivL : List Expr → Equiv.Exprs
  | [] => .nil
  | x :: t => .cons (toEquiv x) (toEquivL t)
partial def toEquivArgs : List Expr → List ArgKind → List (Option String) → Equiv.Args
  | x :: t, k :: ks, n :: ns => .cons (toEquiv x) (kindNat k) (n.map String.toList) (toEquivArgs t ks ns)
  | _, _, _ => .nil
partial def toEquivItems : List Expr → List Expr → Equiv.Items
  | k :: ks, v :: vs => .cons (toEquivO k) (toEquiv v) (toEquivItems ks vs)
  | _, _ => .nil
partial def toEquivRest : List String → List Expr → Equiv.Rest
  | o :: os, e :: es => .cons o.toList (toEquiv e) (toEquivRest os es)
  | _, _ => .nil
partial def toEquivO : Expr → Equiv.OExpr
  | .absent => .none
  | e => .some (toEquiv e)
end

def oracle (major minor : Nat) : Oracle :=
  { eqv := fun a b => Equiv.isEquiv Generated.equivCfg (toEquiv a) (toEquiv b),
    py39 := major > 3 || (major == 3 && minor >= 9),
    py310 := major > 3 || (major == 3 && minor >= 10) }

/-- Python-style quoting of a string literal (only what the comparison in the harness needs) -/
def quote (s : List Char) : String :=
  "\"" ++ String.join (s.map (fun c =>
    if c == '"' then "\\\"" else if c == '\\' then "\\\\" else if c == '\n' then "\\n" else if c == '\r' then "\\r"
    else if c == '\t' then "\\t" else String.singleton c)) ++ "\""

/-- the operand naming used for rendering: refurb's own text of the operand, parenthesised -/
def srcName (e : Expr) : String :=
  match e.ann.str with
  | some s => "(" ++ s ++ ")"
  | none => s!"_opaque_{e.ann.line}_{e.ann.col}"

/-- the operand naming used to compare the reading with the SOURCE: a placeholder carrying the operand's span (the harness
    puts the source text of that span in its place) -/
def posName (e : Expr) : String := s!"__op_{e.ann.line}_{e.ann.col}_{e.ann.eline}_{e.ann.ecol}__"

def kindOf (r : Rule) : String :=
  if rules.any (fun x => x.code == r.code && x.label == r.label) then "proved"
  else if guardedRules.any (fun x => x.code == r.code && x.label == r.label) then "guarded"
  else if refutedRules.any (fun x => x.code == r.code && x.label == r.label) then "refuted" else "unknown"

def hitJ (h : Hit) : Json :=
  let base : List (String × Json) := [("code", (h.code : Json)), ("line", (h.line : Json)), ("col", (h.col : Json)), ("msg", (h.msg : Json)),
    ("node", Json.arr #[(h.nline : Json), (h.ncol : Json), (h.neline : Json), (h.necol : Json)])]
  match h.verdict with
  | .row r σ =>
    let more : List (String × Json) := [("verdict", Json.str "row"), ("rule", Json.str s!"FURB{r.code}:{r.label}"), ("kind", Json.str (kindOf r)),
      ("old_src", Json.str (render (instantiate (opSubst posName σ) r.old))), ("new_src", Json.str (render (instantiate (opSubst srcName σ) r.new))),
      ("schematic_new", Json.str (render r.new)), ("cond_pos", Json.bool r.condPos),
      ("classes", Json.arr (σ.map (fun p => Json.arr #[Json.str p.1, Json.str p.2.ann.ty.same])).toArray)]
    Json.mkObj (base ++ more)
  | .outside why =>
    let more : List (String × Json) := [("verdict", Json.str "outside"), ("why", Json.str why)]
    Json.mkObj (base ++ more)

/-- `match_checks`: {py: [major, minor], roots: [{role, expr}]} ↦ every diagnostic the modelled checks report below the roots -/
def matchChecks (j : Json) : Json :=
  let py := arr j "py"
  let o := oracle ((py.getD 0 Json.null).getNat?.toOption.getD 3) ((py.getD 1 Json.null).getNat?.toOption.getD 12)
  Json.arr ((arr j "roots").flatMap (fun r => (walkRoot o (str r "role") (toExpr (obj r "expr"))).map hitJ)).toArray

end ChecksW

/-- verbs: py_rules (the rule table with Python renderings), py_eval (a rule's old/new under an environment),
    py_srules (the statement rules), match_checks (the check matchers over serialised trees), py_exec (a statement rule's old/new block run from an environment; `names` = the
    bindings to report) -/
def handleChecks (verb : String) (j : Json) : Option Json :=
  match verb with
  | "py_rules" => some (Json.arr (allRules.map (fun p => ruleJ p.1 p.2)).toArray)
  | "py_eval" =>
    match allRules[nat j "rule"]? with
    | none => some (Json.mkObj [("error", "no such rule")])
    | some (r, _) =>
      let e := if str j "which" == "new" then r.new else r.old
      some (match eval (envOfJ (obj j "env")) e with
        | .ok v => Json.mkObj [("r", "ok"), ("v", valJ v), ("truthy", truthy v)]
        | .error _ => Json.mkObj [("r", "raised")])
  | "match_checks" => some (ChecksW.matchChecks j)
  | "py_srules" => some (Json.arr (allSRules.map (fun p => sruleJ p.1 p.2)).toArray)
  | "py_exec" =>
    match allSRules[nat j "srule"]? with
    | none => some (Json.mkObj [("error", "no such rule")])
    | some (r, _) =>
      let b := if str j "which" == "new" then r.new else r.old
      some (flowJ (strs j "names") (execBlock (envOfJ (obj j "env")) b))
  | _ => none

end RefurbVerif.Wire
