"""C04 — each occurrence is diagnosed exactly once, wherever it is nested.

Lean: Props/C04.lean (walk = nodes for every tree when the edge table is all ones; the generated
edge table of refurb's traverser is all ones on the reference schema minus the alias fields).
Translator: harness/extract_c04.py executes every visit method on corpus/C04 (harness/treeprobe.py).
Correspondence: model `walk` under the generated table vs the nodes RefurbVisitor really handed to
recording checks (identity-based, all node types subscribed), on the corpus and on generated files.
Oracle 1 (identity): every node of the reference tree is handed to each subscribed type exactly once,
nothing else is visited twice. Oracle 2 (metamorphic, real checks): an idiom diagnosed at module level
is diagnosed exactly once, at the shifted position, inside every context and composition of contexts.
"""

from __future__ import annotations

import json
import subprocess
import re
from collections import Counter
from concurrent.futures import ThreadPoolExecutor
from pathlib import Path
from typing import Any

from .. import core, extract_c04

GENERATED = ["Edges"]

PRELUDE = '''\
import os
from pathlib import Path
from typing import cast, Any
from typing_extensions import assert_type
lst: list[int] = [1]
rows: list[list[int]] = [[1]]
dct: dict[str, int] = {"a": 1}
flag = True
name = "abc"
def ident(*a: Any, **k: Any) -> Any: return a
def deco(*a: Any) -> Any: return lambda f: f
class ctx:
    def __init__(self, *a: Any) -> None: pass
    def __enter__(self) -> Any: return self
    def __exit__(self, *a: Any) -> None: pass
def base(*a: Any) -> Any: return object
def meta(*a: Any) -> Any: return type
acc = 0
'''

# expression idioms (self-contained given the prelude) and statement idioms
EXPR_IDIOMS = [
    "int(0)", 'print("")', "not not flag", "flag == True", "lst[:]", 'name.startswith("a") or name.startswith("b")',
    "1 if 1 else 2", 'os.path.join("a", "b")', "isinstance(flag, int) or isinstance(flag, str)", "sorted(lst)[0]",
    "list(lst)", "lambda: []", "bin(3)[2:]", 'str(Path("x"))[:1] + ".md"',
    "sum(rows, [])", 'dct.copy() | {"b": 2}', 'f"{str(flag)}"', '{**dct, "k": 1}', 'name.lstrip().rstrip()', "[v0 for r0 in rows for v0 in r0]",
]
STMT_IDIOMS = ["del lst[:]", 'with open("f") as fh:\n    data = fh.read()', "_t = int(0)"]

# expression -> expression contexts
XX = [
    "ident({E})", "ident(*[{E}])", "ident(k={E})", "[{E}]", "({E},)", "{{{E}}}", "{{1: {E}}}", "{{{E}: 1}}", "[*[{E}]]",
    "({E}) if flag else 0", "0 if flag else ({E})", "flag and ({E})", "({E}) or flag", "not ({E})", "({E}) == 1", "({E}).real",
    "lst[{E}:]", "lst[0:{E}]", "ident()[{E}]", "(lambda: {E})", "(lambda a={E}: a)", "[{E} for _q in lst]", "[_q for _q in lst if {E}]",
    "[_q for _q in [{E}]]", "{{{E} for _q in lst}}", "{{1: {E} for _q in lst}}", "list(({E}) for _q in lst)", "(_w := {E})",
    "cast(int, {E})", "assert_type({E}, int)", 'f"{{ {E} }}"', 'f"a{{ {E} }}b{{flag}}"', 'f"{{name}}{{ {E} !r:>4}}"', '"".join([name, str({E})])', "ident(ident({E}))", "-({E})", "({E}) + 1",
]
# expression -> statement contexts ({i} = unique index)
XS = [
    "_{i} = {E}", "_{i}: Any = {E}", "acc += {E}", "ident({E})", "assert {E}", "assert flag, {E}", "if {E}:\n    pass",
    "if flag:\n    pass\nelif {E}:\n    pass", "while {E}:\n    break", "for _q in [{E}]:\n    pass", "with ctx({E}):\n    pass",
    "with ctx() as _c, ctx({E}):\n    pass", "match {E}:\n    case _:\n        pass", "match 1:\n    case _ if {E}:\n        pass",
    "def f{i}(a={E}):\n    pass", "def f{i}(*, a={E}):\n    pass", "def f{i}():\n    return {E}", "def f{i}():\n    yield {E}",
    "async def f{i}():\n    await ident({E})", "@deco({E})\ndef f{i}():\n    pass", "@deco({E})\nclass K{i}:\n    pass",
    "class K{i}(base({E})):\n    pass", "class K{i}(metaclass=meta({E})):\n    pass", "class K{i}(kw={E}):\n    pass",
    "class K{i}:\n    a = {E}", "def f{i}():\n    raise ValueError({E}) from None", "del ident({E})[0]",
    "try:\n    pass\nexcept ident({E}):\n    pass",
]
# statement -> statement contexts
SS = [
    "{S}", "def f{i}():\n    {S}", "async def f{i}():\n    {S}", "class K{i}:\n    {S}", "class K{i}:\n    def m(self):\n        {S}",
    "if flag:\n    {S}", "if flag:\n    pass\nelse:\n    {S}", "if flag:\n    pass\nelif name:\n    {S}", "while flag:\n    {S}\n    break",
    "while flag:\n    break\nelse:\n    {S}", "for _q in lst:\n    {S}", "for _q in lst:\n    pass\nelse:\n    {S}", "with ctx():\n    {S}",
    "try:\n    {S}\nfinally:\n    pass", "try:\n    pass\nexcept Exception:\n    {S}", "try:\n    pass\nexcept Exception:\n    pass\nelse:\n    {S}",
    "try:\n    pass\nfinally:\n    {S}", "match 1:\n    case 1:\n        {S}", "def f{i}():\n    def g():\n        {S}",
    "try:\n    pass\nexcept:\n    {S}", "try:\n    pass\nexcept Exception as _e{i}:\n    {S}", "try:\n    pass\nexcept (ValueError, TypeError):\n    pass\nexcept:\n    {S}",
    "with ctx() as _w{i}:\n    {S}", "with ctx(), ctx():\n    {S}", "async def f{i}():\n    async with ctx():\n        {S}",
    "async def f{i}():\n    async for _q in lst:\n        {S}", "match 1:\n    case 1 if flag:\n        {S}", "match 1:\n    case _:\n        {S}",
    "if flag:\n    if name:\n        {S}",
    # a decorated function that is defined AGAIN further down under the same name (mypy merges the two into one overloaded
    # definition and drops all but the last body from the tree)
    "@deco(1)\ndef r{i}():\n    {S}\n@deco(2)\ndef r{i}():\n    pass",
]
# blocks mypy decides statically (marked unreachable at semantic analysis): only the identity probe looks into them,
# because type-dependent checks legitimately see no types there
UNREACHABLE_SS = [
    "import sys\nif sys.version_info >= (3, 8):\n    pass\nelse:\n    {S}",
    "from typing import TYPE_CHECKING\nif TYPE_CHECKING:\n    pass\nelse:\n    {S}",
    'import sys\nif sys.platform == "no-such-os":\n    {S}',
    "import sys\nif sys.version_info < (3, 0):\n    {S}\nelif flag:\n    pass",
]

MARK = "§MARK§"


def fill(template: str, key: str, snippet: str, i: int) -> str:
    """substitute a (possibly multi-line) snippet at the placeholder, indenting its later lines"""
    hole = "\x02"
    t = template.replace("{" + key + "}", hole, 1).replace("{i}", str(i)).replace("{{", "{").replace("}}", "}")
    idx = t.index(hole)
    line_start = t.rfind("\n", 0, idx) + 1
    indent = " " * (idx - line_start) if key == "S" else ""
    snippet_i = snippet.replace("\n", "\n" + indent) if key == "S" else snippet
    return t[:idx] + snippet_i + t[idx + 1 :]


def locate(src: str) -> tuple[str, int, int]:
    """remove the marker; return (source, 1-based line, 0-based utf-8 column) of the marked spot"""
    idx = src.index(MARK)
    before = src[:idx]
    line = before.count("\n") + 1
    col = len(before[before.rfind("\n") + 1 :].encode("utf8"))
    return src.replace(MARK, ""), line, col


def build_cases(rng, quick: bool) -> list[dict[str, Any]]:
    cases = []
    n = 0
    for e in EXPR_IDIOMS:
        for xs in XS:
            n += 1
            cases.append({"idiom": e, "chain": [xs], "src": fill(xs, "E", MARK + e, n)})
        for xx in XX:
            n += 1
            cases.append({"idiom": e, "chain": ["_ = E", xx], "src": fill("_{i} = {E}", "E", fill(xx, "E", MARK + e, n), n)})
    for s in STMT_IDIOMS + ["_s = " + e for e in EXPR_IDIOMS[:4]]:
        for ss in SS:
            n += 1
            cases.append({"idiom": s, "chain": [ss], "src": fill(ss, "S", MARK + s, n)})
    # compositions: statement ctx [ expr->stmt ctx [ expr ctx [ idiom ] ] ]
    k = 250 if quick else 4000
    for _ in range(k):
        n += 1
        e = rng.choice(EXPR_IDIOMS)
        depth = rng.randint(1, 2 if quick else 3)
        inner = MARK + e
        chain = []
        for _d in range(depth):
            xx = rng.choice(XX)
            chain.append(xx)
            inner = fill(xx, "E", inner, n)
        xs = rng.choice(XS)
        stmt = fill(xs, "E", inner, n)
        ss = rng.choice(SS)
        ss2 = rng.choice(SS) if rng.random() < 0.5 else "{S}"
        src = fill(ss2, "S", fill(ss, "S", stmt, n), n * 1000 + 1)
        cases.append({"idiom": e, "chain": [ss2, ss, xs, *reversed(chain)], "src": src})
    import warnings

    warnings.simplefilter("ignore", SyntaxWarning)
    ok = []
    for c in cases:
        try:
            compile(PRELUDE + c["src"].replace(MARK, ""), "<ctx>", "exec", dont_inherit=True)
        except SyntaxError:
            continue  # e.g. a walrus inside a comprehension iterable: not Python
        ok.append(c)
    return ok


TAIL_WORKER = r"""
import json, sys
import refurb.main as rmain
from refurb.error import Error
from refurb.settings import Settings

out_path, files = sys.argv[1], sys.argv[2:]
raw_kept = []
real = rmain.should_ignore_error


def recording(error, settings):
    ignored = real(error, settings)
    if isinstance(error, Error) and not ignored:
        raw_kept.append([error.filename, error.line, error.column, f"{error.prefix}{error.code}", error.msg])
    return ignored


rmain.should_ignore_error = recording
errs = rmain.run_refurb(Settings(files=files, enable_all=True, quiet=True))
report = [[e.filename, e.line, e.column, f"{e.prefix}{e.code}", e.msg] for e in errs if isinstance(e, Error)]
json.dump({"raw_kept": raw_kept, "report": report, "text": [e for e in errs if isinstance(e, str)]}, open(out_path, "w"))
"""


def lint_files(d: Path, names: list[str]) -> dict[str, list[dict[str, Any]]]:
    """--enable-all over batches of files (fresh processes, 16 at a time)"""
    nb = min(16, max(1, len(names) // 6))
    batches = [names[i::nb] for i in range(nb)]

    def one(batch: list[str]) -> tuple[int, str, str]:
        return core.refurb_cli([*batch, "--enable-all", "--quiet"], cwd=d, timeout=900)

    out: dict[str, list[dict[str, Any]]] = {n: [] for n in names}
    with ThreadPoolExecutor(16) as ex:
        for batch, (rc, so, se) in zip(batches, ex.map(one, batches)):
            if se.strip() or rc not in (0, 1):
                raise RuntimeError(f"refurb failed on a context batch: rc={rc} {se[-800:]} {so[:300]}")
            diags, other = core.parse_plain(so)
            if other:
                raise RuntimeError(f"unexpected output on a context batch: {other[:3]}")
            for x in diags:
                out[x["file"]].append(x)
    return out


def run(ctx) -> None:
    res = ctx.res
    rng = ctx.rng("c04")
    res.rule = (
        "identity probe: every node object of every probed file x every subscribed node type (all 83 subscribed), visit count must be 1; "
        "metamorphic: (idiom, context chain) cases = 14 expression idioms x (28 expr->stmt + 34 expr->expr contexts) + 7 statement idioms x 20 "
        "statement contexts + random compositions to depth 5 (quick: 250, thorough: 4000); non-trivial = the context chain is not the bare "
        "module level; distinct = distinct generated source"
    )
    # ---------------------------------------------------------------- metamorphic, real checks
    cases = build_cases(rng, ctx.quick)
    with core.scratch("rv-c04-") as d:
        # calibration: every idiom alone at module level
        idioms = sorted({c["idiom"] for c in cases})
        calib_names = []
        for j, idi in enumerate(idioms):
            (d / f"calib_{j}.py").write_text(PRELUDE + idi + "\n")
            calib_names.append(f"calib_{j}.py")
        per_file = 40
        files: list[tuple[str, list[tuple[dict[str, Any], int, int]]]] = []
        for fi in range(0, len(cases), per_file):
            chunk = cases[fi : fi + per_file]
            text = PRELUDE
            placed = []
            for c in chunk:
                src, line, col = locate(c["src"])
                base_line = text.count("\n")
                placed.append((c, base_line + line, col))
                text += src + "\n"
            name = f"ctx_{fi // per_file}.py"
            (d / name).write_text(text)
            files.append((name, placed))
        diags = lint_files(d, calib_names + [n for n, _ in files])
        prelude_lines = PRELUDE.count("\n")
        calib: dict[str, list[tuple[str, int, int]]] = {}
        for j, idi in enumerate(idioms):
            ds = [(f"{x['prefix']}{x['code']}", x["line"] - prelude_lines - 1, x["col"] - 1) for x in diags[f"calib_{j}.py"] if x["line"] > prelude_lines]
            calib[idi] = ds
            if not ds:
                res.notes.append(f"idiom {idi!r} is not diagnosed at module level: skipped")
        for name, placed in files:
            got = Counter((f"{x['prefix']}{x['code']}", x["line"], x["col"] - 1) for x in diags[name])
            for c, line, col in placed:
                exp = calib.get(c["idiom"], [])
                if not exp:
                    continue
                res.case(("ctx", c["src"]), nontrivial=c["chain"] not in (["{S}"], ["_{i} = {E}"]))
                res.bump("ctx_depth_%d" % min(len(c["chain"]), 5))
                for code, dline, dcol in exp:
                    # later lines of a multi-line idiom are indented by the column of its first line
                    want = (code, line + dline, col + dcol)
                    n = got.get(want, 0)
                    if n == 0 and c["chain"][-1].startswith('f"') and dline == 0 and dcol == 0:
                        # mypy gives the root expression of an f-string field the position of its opening brace
                        want = (code, line, col - 2)
                        n = got.get(want, 0)
                    if n != 1:
                        res.violate(
                            f"{code} on `{c['idiom'].splitlines()[0]}` is reported {n} times (expected once at {want[1]}:{want[2] + 1}) inside context {c['chain']}",
                            {"kind": "context", "code": code, "times": n, "chain_str": " > ".join(c["chain"])},
                            {"source": PRELUDE + locate(c["src"])[0] + "\n", "argv": ["FILE", "--enable-all", "--quiet"], "expected": f"exactly one {code} for the idiom", "observed_in_file": [k for k in got if k[0] == code and abs(k[1] - want[1]) <= 3]},
                        )
        if files:
            res.sample({"context_chain": files[0][1][5][0]["chain"], "source": locate(files[0][1][5][0]["src"])[0]})
            res.sample({"context_chain": files[-1][1][-1][0]["chain"], "source": locate(files[-1][1][-1][0]["src"])[0]})

        # ---------------------------------------------------------------- nothing is lost between the checks and the report
        # "once and only once" also has to survive the tail of run_refurb (filter, sort): every diagnostic a check appended (and
        # that no comment / amend entry silences) is in the returned report exactly as often as it was appended — in particular two
        # occurrences of a construct that START AT THE SAME PLACE (a construct nested in itself along its left spine) are two
        (d / "nest_self.py").write_text(
            PRELUDE
            + "_n1 = lst[:][:]\n_n2 = lst[:][:][:]\n_n3 = name.lstrip().rstrip().lstrip().rstrip()\n_n4 = sorted(sorted(lst)[0:1])[0]\n"
            + "_n5 = list(lst)[:][:]\n_n6 = [list(lst)[:] for _q in [lst[:][:]]][:][:]\n_n7 = name.strip().lstrip().rstrip().lstrip()\n"
        )
        tail_files = ["nest_self.py"] + [n for n, _ in files][: (4 if ctx.quick else 40)]
        (d / "_tail_worker.py").write_text(TAIL_WORKER)
        tp = subprocess.run([core.PY, "_tail_worker.py", "_tail.json", *tail_files], cwd=d, capture_output=True, text=True, timeout=900, env=core.py_env())
        if tp.returncode != 0:
            raise RuntimeError("tail worker failed: " + tp.stderr[-1500:])
        tail = json.loads((d / "_tail.json").read_text())
        raw_c, got_c = Counter(map(tuple, tail["raw_kept"])), Counter(map(tuple, tail["report"]))
        res.bump("tail_raw_diagnostics", sum(raw_c.values()))
        res.bump("tail_same_place_same_code", sum(1 for k, n in Counter((k[0], k[1], k[2], k[3]) for k in raw_c.elements()).items() if n > 1))
        res.case(("tail", tuple(tail_files)))
        if raw_c != got_c:
            lost = list((raw_c - got_c).elements())[:4]
            extra = list((got_c - raw_c).elements())[:4]
            res.violate(
                f"run_refurb's report is not the diagnostics the checks appended: {sum((raw_c - got_c).values())} lost, {sum((got_c - raw_c).values())} added (e.g. lost {lost[:1]})",
                {"kind": "report-tail", "lost": bool(lost), "added": bool(extra)},
                {"file": "nest_self.py = harness/props/c04.py:PRELUDE + " + repr((d / "nest_self.py").read_text()[len(PRELUDE):]), "lost": lost, "added": extra,
                 "how": "refurb.main.run_refurb(Settings(files=[...], enable_all=True)) with refurb.main.should_ignore_error wrapped to record every error it is asked about and keeps; compare with the returned list as multisets of (file, line, column, code, message)"},
            )

        # ---------------------------------------------------------------- identity probe + model walk
        corpus = extract_c04.probe_corpus()
        probe_names = [n for n, _ in files][: (6 if ctx.quick else 60)]
        gen_probe = extract_c04.run_probe(d, probe_names) if probe_names else {"trees": {}, "visits": {}, "stray_visits": []}
        # refurb's own idiom files (test/data/*.py): real-world shapes nobody wrote with this check in mind
        td_all = sorted(p for p in (core.REPO / "test" / "data").glob("*.py") if compiles(p))
        td_pick = td_all if not ctx.quick else sorted(ctx.rng("c04-td").sample(td_all, min(len(td_all), 45)))
        td_names = []
        for pth in td_pick:
            (d / ("td_" + pth.name)).write_bytes(pth.read_bytes())
            td_names.append("td_" + pth.name)
        try:
            td_probe = extract_c04.run_probe(d, td_names) if td_names else {"trees": {}, "visits": {}, "stray_visits": []}
        except RuntimeError as e:
            td_probe = {"trees": {}, "visits": {}, "stray_visits": []}
            res.notes.append(f"identity probe on test/data failed: {str(e)[-300:]}")
        res.bump("probe_files_test_data", len(td_names))
    reqs, metas = [], []
    known_edges = {(k, f) for k, f, _lo, _hi in corpus.get("refurb_edges", [])} | {tuple(e) for e in extract_c04.alias_fields()}
    for label, data in (("corpus", corpus), ("generated", gen_probe), ("test-data", td_probe)):
        if "error" in data:
            res.violate(f"refurb could not lint the probe files ({label}): {data['error'][:3]}", {"kind": "probe-error", "where": label}, {"errors": data["error"]})
            continue
        if data.get("stray_visits"):
            res.disagreements.append({"where": "probe", "reason": f"{len(data['stray_visits'])} visited nodes belong to no file tree", "sample": data["stray_visits"][:3]})
        for fname, tree in data["trees"].items():
            visits = data["visits"][fname]
            per = Counter((v[0], v[4]) for v in visits)  # (node id, subscribed type)
            kinds = {}

            def collect(t: dict[str, Any]) -> None:
                kinds[t["id"]] = (t["kind"], t["line"], t["col"])
                for _f, c in t["kids"]:
                    if "dup" not in c:
                        collect(c)

            collect(tree)
            dup_edges = []

            def dups(t: dict[str, Any]) -> None:
                for f, c in t["kids"]:
                    if "dup" in c:
                        dup_edges.append((t["kind"], f))
                    else:
                        dups(c)

            dups(tree)
            visited_ids = Counter(v[0] for v in visits)
            for nid, (kind, line, col) in kinds.items():
                res.case(("node", label, fname, nid))
                res.bump("nodes")
            # a node of the reference tree must be handed to each type that dispatches for its kind exactly once
            by_kind_types: dict[str, set[str]] = {}
            for v in visits:
                by_kind_types.setdefault(v[1], set()).add(v[4])
            for nid, (kind, line, col) in kinds.items():
                types = by_kind_types.get(kind, set())
                if not types and kind in {t.__name__ for t in _valid_types()}:
                    res.violate(f"no {kind} node was ever handed to a check subscribed to {kind}", {"kind": "never-visited", "node": kind}, {"file": fname, "line": line, "col": col, "how": "python -m harness.treeprobe out.json FILE in a scratch dir"})
                for ty in types:
                    n = per.get((nid, ty), 0)
                    if n != 1:
                        res.violate(
                            f"a {kind} node (line {line}, column {col} of {fname}) was handed to the check subscribed to {ty} {n} times",
                            {"kind": "identity", "node": kind, "times": n, "file": fname},
                            {"file": fname, "line": line, "col": col, "how": "python -m harness.treeprobe out.json FILE (see harness/treeprobe.py) in a scratch dir containing the file", "source": _source(label, fname)},
                        )
            outside = [v for v in visits if v[0] not in kinds]
            twice_outside = [k for k, n in Counter((v[0], v[4]) for v in outside).items() if n > 1]
            if twice_outside:
                v0 = next(v for v in outside if (v[0], v[4]) == twice_outside[0])
                res.violate(f"a {v0[1]} node outside the reference tree (line {v0[2]}) was handed to a check {len(twice_outside)} x twice", {"kind": "identity-outside", "node": v0[1]}, {"file": fname, "visit": v0, "source": _source(label, fname)})
            for e in set(dup_edges):
                res.disagreements.append({"where": "reference-tree", "reason": f"a child of {e[0]}.{e[1]} is also reachable through another path: the alias-field list (Model/Tree.lean) no longer makes the syntax a tree", "file": fname})
            unknown = tree_edges(tree) - known_edges
            if unknown:
                # a (class, field) edge the extraction corpus never showed: the generated table (and so the model) says nothing
                # about it; the identity check above has judged the file, the model walk is skipped (a corpus gap, not an alarm)
                res.bump("model_walk_skipped_unknown_edge")
                res.notes.append(f"{fname}: edges absent from the generated table (add the shape to corpus/C04): {sorted(unknown)[:4]}")
                continue
            if tree_depth(tree) > 150:
                # a long operator chain: JSON encoders/decoders (Python's C one, Lean's) have fixed depth limits; the identity
                # check above is done, only the model walk is skipped for this file
                res.bump("model_walk_skipped_deep_tree")
                continue
            reqs.append({"verb": "walk", "tree": tree})
            metas.append((label, fname, visits, kinds))
    if ctx.driver.available():
        for a, (label, fname, visits, kinds) in zip(ctx.driver.batch(reqs), metas):
            model_calls = Counter((ty, nid) for ty, nid in a["calls"])
            impl_calls = Counter((v[4], v[0]) for v in visits if v[0] in kinds)
            res.case(("walk-model", label, fname))
            if model_calls != impl_calls:
                diff = list((model_calls - impl_calls).items())[:3] + list((impl_calls - model_calls).items())[:3]
                res.disagree("walk", {"file": fname, "where": label}, f"{sum(model_calls.values())} calls", f"{sum(impl_calls.values())} calls; differing: {[(k, kinds.get(k[1])) for k, _ in diff]}")
    else:
        res.disagreements.append({"where": "driver", "reason": "driver executable not built"})
    res.assumptions += [
        "mypy positions the root expression of an f-string replacement field at its opening brace; the metamorphic oracle accepts that column there",
        "the reference notion of 'the nodes of a file' is mypy's own traverser (fields read off mypy/traverser.py) minus the alias fields committed in Model/Tree.lean",
        "node classes that mypy never builds from source (PlaceholderNode, PromoteExpr, TypeAlias, TempNode outside class bodies) are not exercised",
    ]
    res.trusted_extra.append("harness/treeprobe.py (identity-based recording of what RefurbVisitor hands to checks; reflection over mypy's compiled node classes via dir())")


def tree_edges(tree: dict[str, Any]) -> set[tuple[str, str]]:
    out, todo = set(), [tree]
    while todo:
        t = todo.pop()
        for f, c in t.get("kids", []):
            out.add((t["kind"], f))
            if "dup" not in c:
                todo.append(c)
    return out


def tree_depth(tree: dict[str, Any]) -> int:
    best, todo = 0, [(tree, 1)]
    while todo:
        t, d = todo.pop()
        best = max(best, d)
        for _f, c in t.get("kids", []):
            if "dup" not in c:
                todo.append((c, d + 1))
    return best


def compiles(p: Path) -> bool:
    try:
        compile(p.read_bytes(), str(p), "exec")
        return True
    except (SyntaxError, ValueError):
        return False


def prune_alias(tree: dict[str, Any]) -> dict[str, Any]:
    alias = {("CallExpr", "analyzed"), ("TypeApplication", "expr")}
    return {**tree, "kids": [[f, c if "dup" in c else prune_alias(c)] for f, c in tree["kids"] if (tree["kind"], f) not in alias]}


def _valid_types() -> list[Any]:
    from refurb.visitor import METHOD_NODE_MAPPINGS

    return list(METHOD_NODE_MAPPINGS.values())


def _source(label: str, fname: str) -> str | None:
    p = core.VERIF / "corpus" / "C04" / fname
    if label == "test-data":
        return f"/repo/test/data/{fname[3:]} (copied as {fname})"
    return p.read_text() if label == "corpus" and p.exists() else None


def replay(path) -> int:
    print(Path(path).read_text())
    return 0
