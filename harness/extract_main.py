"""python -m harness.extract_main [names...] — regenerate Generated/*.lean (all by default)."""
import sys

from . import extract, extract_more  # noqa: F401  (extract_more registers further extractors)

if __name__ == "__main__":
    names = sys.argv[1:] or list(extract.EXTRACTORS)
    errs = extract.run(names)
    for err in errs:
        print(err)
    sys.exit(1 if errs else 0)
