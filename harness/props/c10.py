"""C10 — checks do not interfere: any selection's output is a filter of the full output.

Lean: Props/C10.lean (visitAll_select / selection_is_filter for any catalogue of stateful checks, any
selection, any number of nodes; locality facts of today's 93 check modules by `decide` over the
regenerated Generated/Locality.lean with committed allow-lists).
Correspondence: the model's composition law — the full report is the stable sort of the concatenated
group reports — evaluated by the driver (`sort` verb) on the real reports of a random partition of
the catalogue, compared with the real `--enable-all` report.
Oracle (implementation, CLI, fresh processes): on refurb's own idiom corpus (test/data) plus the C04
corpus, the report with only a subset S enabled must equal the `--enable-all` report filtered to S —
for a random partition, singletons, complements and `--ignore` runs; same lines, same order.

WHOLE RUN (second half of this file, `whole_run`): Model/Run.lean `runMain` = refurb.main.main() as ONE function (settings ->
loaded checks -> raw diagnostics of the loaded checks -> file stamp -> noqa/amend filter -> sort -> format + hint -> exit status,
with the settings-error / mypy-failure / load-error paths), Props/C10.lean `run_selection_is_filter`, `run_ignore_equals_never_loaded`,
`run_exit_status`, `run_noqa_local`, `run_files_perm`.  Correspondence: the raw per-file diagnostics are taken ONCE from an
instrumented all-checks run; then 162 (quick) / 2010 (thorough) REAL CLI runs on generated variations of a 10-file project are
compared byte for byte (stdout + exit status) with the model's prediction (driver verb `run_main`).  Oracle: in every family of
runs that differ only in their selection options, the run with fewer checks must print exactly the --enable-all run's lines of
its loaded codes, in the same order.
"""

from __future__ import annotations

import shutil
from concurrent.futures import ThreadPoolExecutor
from pathlib import Path
from typing import Any

from .. import core, extract

GENERATED = ["Catalogue", "Locality"]


def lint(d: Path, files: list[str], extra: list[str]) -> tuple[int, list[dict[str, Any]], list[str], str]:
    rc, out, err = core.refurb_cli([*files, "--quiet", *extra], cwd=d, timeout=1200)
    diags, other = core.parse_plain(out)
    return rc, diags, other, err


def as_item(x: dict[str, Any]) -> dict[str, Any]:
    return {"k": "diag", "file": x["file"], "line": x["line"], "col": x["col"] - 1, "prefix": x["prefix"], "code": x["code"], "msg": x["msg"]}


def run(ctx) -> None:
    res = ctx.res
    rng = ctx.rng("c10")
    rows = extract.catalogue_rows()
    codes = [f"{r['prefix']}{r['code']}" for r in rows]
    res.rule = (
        "one case per (selection, file set): selections = a random partition of the catalogue into 8 groups (quick) / all 93 singletons "
        "(thorough) + complements of singletons + random subsets + --ignore runs; each selection's report is compared line by line, in "
        "order, with the --enable-all report filtered to the selection; non-trivial = the filtered full report is non-empty; distinct = "
        "distinct selection"
    )
    with core.scratch("rv-c10-") as d:
        names = []
        for sub in ("data", "data_3.9", "data_3.10", "data_3.11"):
            for f in sorted((core.REPO / "test" / sub).glob("*.py")):
                # renamed: test/data/pathlib.py would shadow the standard library in the scratch cwd
                name = f"td_{sub[5:].replace('.', '')}_{f.name}"
                shutil.copy(f, d / name)
                names.append(name)
        for f in sorted((core.VERIF / "corpus" / "C04").glob("*.py")):
            shutil.copy(f, d / ("c04_" + f.name))
            names.append("c04_" + f.name)
        for f in sorted((core.VERIF / "corpus" / "C10").glob("*.py")):
            shutil.copy(f, d / ("c10_" + f.name))
            names.append("c10_" + f.name)
        # idioms of different checks nested inside each other's operands and inside f-strings, calls, comprehensions
        # (the C04 context generator): cross-check interference needs such nestings to show
        from . import c04

        nested = c04.build_cases(ctx.rng("c10-nested"), True)
        for k in range(0, len(nested), 60):
            text = c04.PRELUDE + "".join(c04.locate(c["src"])[0] + "\n" for c in nested[k : k + 60])
            name = f"nest_{k // 60}.py"
            (d / name).write_text(text)
            names.append(name)
        # long operator / call / attribute chains with a diagnosable piece at the deep end and after the chain, well BELOW the
        # depth at which the traversal runs into the recursion limit (that regime — from about 250 terms on — is the recorded C04
        # finding `traversal abandoned at the recursion limit`; how far a cut traversal gets depends on how many wrappers the
        # selection installs, so it is selection-dependent by construction and not asked for here)
        chain_lines = ["from typing import Any", "def ident(v: Any) -> Any: return v", "names: list[str] = []"]
        for terms in (60, 120, 170, 220):
            chain_lines.append(f"t{terms} = int(0)" + " + 1" * terms)
            chain_lines.append(f"u{terms} = list(names)" + "[:]" * 3 + "".join(f" + [{k}]" for k in range(terms)))
            chain_lines.append(f"v{terms} = bool(True)")
        for depth in (40, 90):
            chain_lines.append(f"w{depth} = " + "ident(" * depth + "int(0)" + ")" * depth)
        (d / "chain.py").write_text("\n".join(chain_lines) + "\n")
        names.append("chain.py")
        (d / "pyproject.toml").write_text("")
        # refurb's own data directory holds files that need each other (module pairs); lint them all together
        shuffled = codes[:]
        rng.shuffle(shuffled)
        selections: list[tuple[str, list[str], list[str]]] = []  # (label, argv, selected codes)
        if ctx.quick:
            ngroups = 8
            for g in range(ngroups):
                grp = shuffled[g::ngroups]
                selections.append((f"group{g}", ["--disable-all", "--enable", ",".join(grp)], grp))
            singles = rng.sample(codes, 3)
            comps = rng.sample(codes, 3)
            rand = 2
            ign = rng.sample(codes, 2)
        else:
            singles = codes
            comps = codes[::3]
            rand = 40
            ign = rng.sample(codes, 20)
            for g in range(12):
                grp = shuffled[g::12]
                selections.append((f"group{g}", ["--disable-all", "--enable", ",".join(grp)], grp))
        directed: dict[str, list[str]] = {}  # label -> the files that selection is run on (default: all)
        # directed: checks whose module looks at anything outside itself (reads the shared errors list, writes to nodes, imports
        # another module's mutable state — the Locality table of the translator) always get a singleton and a complement run
        try:
            from .. import extract_c10

            sus = set()
            for r in extract_c10.locality_rows():
                if r.get("errors_other") or r.get("node_writes") or r.get("mutable_imports"):
                    sus |= {c for c in codes if any(f"{x['prefix']}{x['code']}" == c and x["module"] == r["module"] for x in rows)}
            small = [n for n in names if n.startswith(("c10_", "nest_", "chain")) or n == "chain.py"]
            for c in sorted(sus):
                if c not in singles:
                    directed[f"single:{c}@small"] = small
                    selections.append((f"single:{c}@small", ["--disable-all", "--enable", c], [c]))
                if c not in comps:
                    directed[f"complement:{c}@small"] = small
                    selections.append((f"complement:{c}@small", ["--enable-all", "--disable", c], [x for x in codes if x != c]))
            res.bump("directed_singletons", len(sus))
            # every check alone on the small files (cheap: a dozen files): a check's report must not depend on which OTHER checks
            # are loaded — in particular not through what the visitor does differently when more node types have subscribers
            for c in codes:
                if f"single:{c}@small" not in directed and c not in singles:
                    directed[f"single:{c}@small"] = small
                    selections.append((f"single:{c}@small", ["--disable-all", "--enable", c], [c]))
        except Exception as e:  # noqa: BLE001
            res.notes.append(f"directed singleton selection skipped: {type(e).__name__}: {e}")
        for c in singles:
            selections.append((f"single:{c}", ["--disable-all", "--enable", c], [c]))
        for c in comps:
            rest = [x for x in codes if x != c]
            selections.append((f"complement:{c}", ["--enable-all", "--disable", c], rest))
        for i in range(rand):
            sub = rng.sample(codes, rng.randint(2, 60))
            selections.append((f"random{i}", ["--disable-all", "--enable", ",".join(sub)], sub))
        for c in ign:
            rest = [x for x in codes if x != c]
            selections.append((f"ignore:{c}", ["--enable-all", "--ignore", c], rest))

        with ThreadPoolExecutor(16) as ex:
            fut_full = ex.submit(lint, d, names, ["--enable-all"])
            futs = [ex.submit(lint, d, directed.get(label, names), argv) for label, argv, _ in selections]
            full = fut_full.result()
            results = [f.result() for f in futs]
    rc, full_diags, other, err = full
    if err.strip() or other:
        res.violate("the --enable-all run on refurb's own test data printed errors", {"kind": "full-run-error"}, {"stderr": err[-800:], "other": other[:5]})
        return
    full_lines = [(x["file"], x["line"], x["col"], f"{x['prefix']}{x['code']}", x["msg"]) for x in full_diags]
    res.bump("full_diagnostics", len(full_lines))
    res.bump("files", len(names))
    how = "copy /repo/test/data*/*.py (renamed td_<dir>_<name>), the nested-idiom files written by harness/props/c10.py (c04.build_cases) and /verif/corpus/C04/*.py (as c04_*.py) into an empty directory with an empty pyproject.toml; run python -m refurb *.py --quiet ARGV and compare with the --enable-all run"
    group_reports: list[list[dict[str, Any]]] = []
    for (label, argv, sel), (rc_s, diags, other_s, err_s) in zip(selections, results):
        selset = set(sel)
        on_files = set(directed[label]) if label in directed else None
        want = [l for l in full_lines if l[3] in selset and (on_files is None or l[0] in on_files)]
        got = [(x["file"], x["line"], x["col"], f"{x['prefix']}{x['code']}", x["msg"]) for x in diags]
        res.case(("selection", label, tuple(sorted(sel))), nontrivial=bool(want))
        res.bump("selection:" + label.split(":")[0].rstrip("0123456789"))
        if label.startswith("group"):
            group_reports.append([as_item(x) for x in diags])
        if err_s.strip() or other_s:
            res.violate(f"the run with selection {label} printed errors", {"kind": "subset-run-error", "label": label}, {"argv": argv, "stderr": err_s[-500:], "other": other_s[:3], "how": how})
            continue
        if got != want:
            missing = [l for l in want if l not in got][:4]
            extra = [l for l in got if l not in want][:4]
            reordered = not missing and not extra
            culprit = sorted({l[3] for l in missing + extra}) or ["order"]
            res.violate(
                f"selection {label}: the report differs from the filtered --enable-all report ({'order only' if reordered else f'missing {len(missing)}+, extra {len(extra)}+'}; codes {culprit[:4]})",
                {"kind": "selection-differs", "codes": culprit[:4], "mode": label.split(":")[0].rstrip("0123456789")},
                {"argv": argv, "missing_from_subset_run": missing, "only_in_subset_run": extra, "how": how},
            )
    res.sample({"selection": selections[0][0], "argv": selections[0][1][:2] + ["…"], "diagnostics_in_subset_run": len(results[0][1])})
    res.sample({"selection": selections[-1][0], "argv": selections[-1][1], "diagnostics_in_subset_run": len(results[-1][1])})

    # ---- model: composition law (full = stable sort of the concatenated group reports)
    if ctx.driver.available() and group_reports:
        flat = [it for g in group_reports for it in g]
        ans = ctx.driver.batch([{"verb": "sort", "items": flat, "by": "filename"}])[0]
        model_full = [(a["file"], a["line"], a["col"] + 1, f"{a['prefix']}{a['code']}", a["msg"]) for a in ans]
        res.case(("compose", len(flat)))
        if model_full != full_lines:
            diff = next((i for i, (a, b) in enumerate(zip(model_full, full_lines)) if a != b), min(len(model_full), len(full_lines)))
            res.disagree("compose", {"groups": len(group_reports), "first_difference_at": diff}, model_full[diff : diff + 2], full_lines[diff : diff + 2])
    elif not ctx.driver.available():
        res.disagreements.append({"where": "driver", "reason": "driver executable not built"})

    # ---- locality facts: show what the allow-lists cover (implementation side of the decide-theorems)
    from .. import extract_c10

    for r in extract_c10.locality_rows():
        res.case(("locality", r["module"]), nontrivial=bool(r["module_state"] or r["node_writes"] or r["errors_other"] or r["mutable_imports"]))
    res.assumptions += [
        "Local(c) — a check's output on a node depends only on the tree and its own state — is a syntactic scan (ast) of the check modules: "
        "no mutable imports between check modules, no writes to nodes, `errors` only appended to; the three allow-listed exceptions are justified in Model/Visitor.lean",
        "refurb's test/data is the idiom corpus (every built-in check fires there)",
    ]

    whole_run(ctx)


# ==========================================================================================================
# WHOLE-RUN correspondence: Model/Run.lean `runMain` (settings -> loaded checks -> raw diagnostics of the loaded
# checks -> file stamp -> noqa/amend filter -> sort -> format + hint -> exit status) against the real CLI,
# byte for byte, on generated variations of a small multi-file project; plus the subset law applied directly
# to pairs of real runs.

# destination in the project  <-  source (relative to /repo/test or /verif/corpus), CRLF rewrite?
RUN_POOL = [
    ("a.py", "repo:data/err_123.py", False),
    ("b.py", "repo:data/err_105.py", False),
    ("pkg/b.py", "repo:data/err_116.py", False),
    ("pkg/c.py", "repo:data/err_104.py", False),
    ("pkg/sub/d.py", "repo:data/err_168.py", False),
    ("other/b.py", "repo:data/err_141.py", False),
    ("other/e.py", "repo:data/err_120.py", False),
    ("other/crlf.py", "repo:data/err_176.py", True),
    ("m1.py", "verif:C10/overlap.py", False),
    ("ints.py", "text:x = 1\ny = [2, 3]  # two on one line\n\n\ndef f(a=4):\n    return a or 5\n", False),
]
# probe checks of the plugin `probe_run` (all fire on every integer literal):
# (prefix, code, categories, enabled by default, messages appended per node — in this order)
RUN_PROBES = [
    ("XYZ", 100, (), True, ["probe"]),
    ("FURB", 901, ("c1",), True, ["probe"]),
    ("FURB", 902, ("c1", "c2"), True, ["probe"]),
    ("FURB", 903, ("c2",), False, ["probe"]),
    # same position, same code, different messages, appended in reverse alphabetical order: only a STABLE sort that
    # does not look at the message keeps them in this order
    ("ABC", 105, ("c2",), True, ["zz second look", "aa first look"]),
]


def run_plugin_sources() -> dict[str, str]:
    files = {"probe_run/__init__.py": ""}
    for pfx, code, cats, enabled, msgs in RUN_PROBES:
        files[f"probe_run/k{pfx.lower()}{code}.py"] = (
            "from dataclasses import dataclass\nfrom mypy.nodes import IntExpr\nfrom refurb.error import Error\n\n\n"
            "@dataclass\nclass ErrorInfo(Error):\n"
            f'    """probe"""\n    prefix = {pfx!r}\n    code = {code}\n    name = "probe-{pfx.lower()}{code}"\n'
            f"    categories = {cats!r}\n    enabled = {enabled!r}\n    msg: str = \"probe\"\n\n\n"
            "def check(node: IntExpr, errors: list[Error]) -> None:\n"
            + "".join(f"    errors.append(ErrorInfo.from_node(node, {m!r}))\n" for m in msgs)
        )
    return files


# runs inside the project directory, in a fresh interpreter: refurb's own pipeline with the two places that drop or move
# diagnostics switched off (`should_ignore_error`, `sorted`), every check enabled, `--debug` for the tree dumps
RUN_WORKER = r"""
import json, sys
import refurb.main as m
from refurb.loader import get_error_class, get_modules

jobs = json.loads(sys.stdin.read())
m.should_ignore_error = lambda error, settings: False
m.sorted = lambda xs, key=None: list(xs)
out = []
for job in jobs:
    s = m.load_settings([*job["files"], "--enable-all", "--debug", "--load", "probe_run"])
    res = m.run_refurb(s)
    if job.get("expect_failure"):
        out.append({"lines": [x for x in res if isinstance(x, str)], "all_text": all(isinstance(x, str) for x in res)})
        continue
    files, cur = [], None
    for e in res:
        if isinstance(e, str):
            cur = {"dump": e, "raw": []}
            files.append(cur)
        else:
            cur["path"] = e.filename
            cur["raw"].append({"line": e.line, "col": e.column, "prefix": e.prefix, "code": e.code, "msg": e.msg, "line_end": e.line_end})
    cat = []
    for mod in get_modules(s.load):
        err = get_error_class(mod)
        if err:
            cat.append({"module": mod.__name__, "prefix": err.prefix, "code": err.code, "categories": list(err.categories), "enabled": bool(err.enabled)})
    out.append({"files": files, "catalogue": cat})
print(json.dumps(out))
"""


def run_pool_sources() -> dict[str, bytes]:
    out: dict[str, bytes] = {}
    for dest, src, crlf in RUN_POOL:
        kind, _, rest = src.partition(":")
        if kind == "text":
            text = rest
        elif kind == "repo":
            text = (core.REPO / "test" / rest).read_text()
        else:
            text = (core.VERIF / "corpus" / rest).read_text()
        data = text.encode()
        if crlf:
            data = data.replace(b"\r\n", b"\n").replace(b"\n", b"\r\n")
        out[dest] = data
    return out


def run_write_tree(root: Path, files: dict[str, Any]) -> None:
    for rel, data in files.items():
        p = root / rel
        p.parent.mkdir(parents=True, exist_ok=True)
        if isinstance(data, bytes):
            p.write_bytes(data)
        else:
            p.write_text(data)


def run_safe_lines(text: str) -> list[int]:
    """physical lines (1-based) at whose end a comment can be appended without changing the program: the line ends a
    logical line or is a blank/comment line (never inside a multi-line string or before a backslash continuation)"""
    import io
    import tokenize

    ok = set()
    try:
        for tok in tokenize.generate_tokens(io.StringIO(text, newline="").readline):
            if tok.type in (tokenize.NEWLINE, tokenize.NL) and tok.start[0] == tok.end[0]:
                ok.add(tok.start[0])
    except (tokenize.TokenError, IndentationError, SyntaxError):
        return []
    n = len(text.split("\n"))
    return sorted(l for l in ok if l <= n)


NOQA_KINDS = ["bare", "bare-trailing", "tab-bare", "hit", "miss", "multi-hit", "multi-miss", "nospace", "upper", "quoted", "after-comment", "comma-space"]


def run_comment(kind: str, code_here: str | None, rng) -> str:
    c = code_here or "FURB123"
    return {
        "bare": "  # noqa",
        "bare-trailing": "  # noqa   ",
        "tab-bare": "\t# noqa",
        "hit": f"  # noqa: {c}",
        "miss": "  # noqa: FURB999",
        "multi-hit": rng.choice([f"  # noqa: FURB999,{c}", f"  # noqa: {c} XYZ100", f"  # noqa: XYZ100, {c},FURB998"]),
        "multi-miss": "  # noqa: FURB999, XYZ999",
        "nospace": f"  # noqa:{c}",
        "upper": "  # NOQA",
        "quoted": f"  # noqa: {c} 'why'",
        "after-comment": "  # see below  # noqa",
        "comma-space": f"  # noqa: FURB999 , {c}",
    }[kind]


def run_apply_comments(data: bytes, comments: dict[int, str]) -> bytes:
    lines = data.decode().split("\n")
    for ln, text in comments.items():
        l = lines[ln - 1]
        if l.endswith("\r"):
            lines[ln - 1] = l[:-1] + text + "\r"
        else:
            lines[ln - 1] = l + text
    return "\n".join(lines).encode()


def run_toml(cfg: dict[str, Any], amend: list[dict[str, Any]]) -> str:
    import json as _json

    lines = ["[tool.refurb]"]
    for k, v in cfg.items():
        lines.append(f"{k} = {'true' if v is True else 'false' if v is False else _json.dumps(v)}")
    for a in amend:
        lines += ["", "[[tool.refurb.amend]]", f"path = {_json.dumps(a['path'])}", f"ignore = {_json.dumps(a['ignore'])}"]
    return "\n".join(lines) + "\n"


def run_sel_options(rng, names: list[str], n: int) -> list[tuple[str, Any]]:
    opts: list[tuple[str, Any]] = []
    for _ in range(n):
        r = rng.random()
        if r < 0.10:
            opts.append(("enable_all", None))
        elif r < 0.22:
            opts.append(("disable_all", None))
        else:
            kind = rng.choice(["enable", "enable", "disable", "disable", "ignore"])
            opts.append((kind, [rng.choice(names) for _ in range(rng.choice([1, 1, 1, 2, 3]))]))
    return opts


def run_cfg_spelling(n: str) -> Any:
    # a FURB code may be written as a bare TOML integer in the config file
    return int(n[4:]) if n.startswith("FURB") and len(n) == 7 and n[4:].isdigit() and int(n[4:]) >= 100 and int(n[4:]) % 3 == 0 else n


def run_base(rng, pool: dict[str, bytes], rawinfo: dict[str, Any], names: list[str], idx: int, must_include: str | None, debug: bool, need_plugin: bool, fires_in: dict[str, list[str]]) -> dict[str, Any]:
    """everything about a run EXCEPT the selection options"""
    paths = list(pool)
    k = rng.choice([1, 2, 2, 3, 3, 4, 5, 6, len(paths)])
    files = rng.sample(paths, min(k, len(paths)))
    if "ints.py" not in files and rng.random() < 0.5:
        files.insert(rng.randrange(len(files) + 1), "ints.py")
    if must_include and must_include not in files:
        files.insert(rng.randrange(len(files) + 1), must_include)
    spell = {f: ("./" + f if rng.random() < 0.12 else f) for f in files}
    comments: dict[str, dict[int, str]] = {}
    kinds_used: list[str] = []
    for f in files:
        if rng.random() < 0.55:
            text = pool[f].decode()
            safe = run_safe_lines(text)
            diag_lines: dict[int, list[str]] = {}
            end_lines: dict[int, list[str]] = {}  # last line of a diagnosed node that spans several lines (not itself diagnosed)
            for r in rawinfo[f]["raw"]:
                diag_lines.setdefault(r["line"], []).append(f"{r['prefix']}{r['code']}")
            for r in rawinfo[f]["raw"]:
                le = r.get("line_end")
                if le and le != r["line"] and le not in diag_lines:
                    end_lines.setdefault(le, []).append(f"{r['prefix']}{r['code']}")
            cm: dict[int, str] = {}
            for _ in range(rng.choice([1, 1, 2, 3, 5])):
                on_diag = [l for l in safe if l in diag_lines]
                on_end = [l for l in safe if l in end_lines]
                off_diag = [l for l in safe if l not in diag_lines and l not in end_lines]
                r0 = rng.random()
                if on_end and r0 < 0.2:
                    ln, where = rng.choice(on_end), "end:"
                elif on_diag and (r0 < 0.75 or not off_diag):
                    ln, where = rng.choice(on_diag), "on:"
                elif off_diag:
                    ln, where = rng.choice(off_diag), "off:"
                else:
                    continue
                if ln in cm:
                    continue
                kind = rng.choice(NOQA_KINDS if where != "end:" else ["bare", "hit", "multi-hit", "tab-bare"])
                here = rng.choice(diag_lines[ln]) if ln in diag_lines else rng.choice(end_lines[ln]) if ln in end_lines else None
                cm[ln] = run_comment(kind, here, rng)
                kinds_used.append(where + kind)
            if cm:
                comments[f] = cm
    conf_dir = rng.random() < 0.25
    amend: list[dict[str, Any]] = []
    if rng.random() < 0.45:
        up = "../" if conf_dir else ""
        for _ in range(rng.choice([1, 1, 2, 3])):
            path = rng.choice(["pkg", "pkg/", "./pkg", "pkg/sub", "pkg/b.py", "other", "oth", ".", "nonexistent", "pkg/../other", "other/e.py", "a.py", "ABS:pkg", "ABS:"])
            # mostly name what fires below the path (or below its look-alike sibling), so that the table matters
            target = {"pkg": "pkg/", "pkg/": "pkg/", "./pkg": "pkg/", "pkg/sub": "pkg/sub/", "pkg/b.py": "pkg/b.py", "other": "other/", "oth": "other/",
                      "pkg/../other": "other/", "other/e.py": "other/e.py", "a.py": "a.py", "ABS:pkg": "pkg/"}.get(path, "")
            local = sorted(n for n, fs in fires_in.items() if any(f.startswith(target) and f in files for f in fs))
            if not path.startswith("ABS:"):  # "ABS:x" is made absolute once the run directory is known
                path = ".." if (path == "." and up) else up + path
            pick = [rng.choice(local) if local and rng.random() < 0.75 else rng.choice(names) for _ in range(rng.choice([1, 2, 3]))]
            amend.append({"path": path, "ignore": [run_cfg_spelling(x) for x in dict.fromkeys(pick)]})
    rep = {
        "sort": rng.choice([None, None, "filename", "error", "error"]),
        "sort_where": rng.choice(["cli", "cfg", "both"]),
        "format": rng.choice([None, None, "text", "github", "github"]),
        "format_where": rng.choice(["cli", "cfg", "both"]),
        "quiet": None if debug else rng.choice([None, None, None, "cli", "cfg"]),
        "debug": debug or rng.random() < 0.03,
        "load": rng.choice(["cli", "cfg"]) if need_plugin else rng.choice(["cli", "cli", "cfg", "cfg", None]),
    }
    return {"idx": idx, "files": files, "spell": spell, "comments": comments, "noqa_kinds": kinds_used, "amend": amend, "conf_dir": conf_dir, "rep": rep}


def run_member(rng, base: dict[str, Any], sel: list[tuple[str, Any]], verbose: bool, failure: str | None, tag: str) -> dict[str, Any]:
    """one run: the base + selection options split between config file and command line"""
    rep = base["rep"]
    cut = rng.randint(0, len(sel))
    cfg_sel, cli_sel = (sel[:cut], sel[cut:]) if rng.random() < 0.8 else ([], sel)
    cfg: dict[str, Any] = {}
    for k, v in cfg_sel:
        if v is None:
            cfg[k] = True
        else:
            cfg.setdefault(k, [])
            cfg[k] += [run_cfg_spelling(x) for x in v if run_cfg_spelling(x) not in cfg[k]]
    groups: list[list[str]] = []
    for k, v in cli_sel:
        groups.append(["--" + k.replace("_", "-")] if v is None else ["--" + k, ",".join(v)])
    if rep["sort"]:
        if rep["sort_where"] in ("cfg", "both"):
            cfg["sort_by"] = rep["sort"] if rep["sort_where"] == "cfg" else ("filename" if rep["sort"] == "error" else "error")
        if rep["sort_where"] in ("cli", "both"):
            groups.append(["--sort", rep["sort"]])
    if rep["format"]:
        if rep["format_where"] in ("cfg", "both"):
            cfg["format"] = rep["format"] if rep["format_where"] == "cfg" else ("text" if rep["format"] == "github" else "github")
        if rep["format_where"] in ("cli", "both"):
            groups.append(["--format", rep["format"]])
    if rep["quiet"] == "cli":
        groups.append(["--quiet"])
    elif rep["quiet"] == "cfg":
        cfg["quiet"] = True
    if rep["debug"]:
        groups.append(["--debug"])
    if verbose:
        groups.append(["--verbose"])
    if rep["load"] == "cli":
        groups.append(["--load", "probe_run"])
    elif rep["load"] == "cfg":
        cfg["load"] = ["probe_run"]
    files = [base["spell"][f] for f in base["files"]]
    if failure == "missing-file":
        files.insert(rng.randrange(len(files) + 1), "nope.py")
    elif failure == "syntax":
        files.insert(rng.randrange(len(files) + 1), "bad.py")
    elif failure == "load-error":
        groups.append(["--load", "no_such_plugin_xyz"])
    elif failure == "bad-option":
        groups.append([rng.choice(["--bogus", "--enable", "--sort"])] if rng.random() < 0.5 else rng.choice([["--enable", "FURB1"], ["--format", "xml"], ["--sort", "line"], ["--ignore", "furb123"], ["--python-version", "3"]]))
    elif failure == "bad-config":
        cfg[rng.choice(["colour", "enable_al"])] = True
    # the options keep their relative order; the file arguments are dropped in between at random positions
    slots: list[list[str]] = [[] for _ in range(len(groups) + 1)]
    if failure == "bad-option" and groups and len(groups[-1]) == 1 and groups[-1][0] in ("--enable", "--sort"):
        # an option that lacks its value must stay last
        for f in files:
            slots[rng.randrange(len(groups))].append(f)
    else:
        for f in files:
            slots[rng.randrange(len(groups) + 1)].append(f)
    argv: list[str] = []
    for i, g in enumerate(groups):
        argv += slots[i] + g
    argv += slots[len(groups)]
    has_cfg = bool(cfg or base["amend"]) or rng.random() < 0.7
    cfg_path = "conf/refurb.toml" if base["conf_dir"] else "pyproject.toml"
    if base["conf_dir"]:
        argv += ["--config-file", cfg_path]
        has_cfg = True
    if failure == "missing-config":
        argv += ["--config-file", "conf/none.toml"]
        cfg_path = "conf/none.toml"
        has_cfg = False
    return {"base": base, "tag": tag, "argv": argv, "cfg": cfg, "has_cfg": has_cfg, "cfg_path": cfg_path, "verbose": verbose, "failure": failure,
            "loaded_plugin": rep["load"] is not None, "sel": sel}


def run_materialise(root: Path, m: dict[str, Any], pool: dict[str, bytes]) -> dict[str, Any]:
    """write the run's directory; returns the file texts as written (for the model and for the replay)"""
    base = m["base"]
    tree: dict[str, Any] = dict(run_plugin_sources())
    written: dict[str, bytes] = {}
    for f in base["files"]:
        data = run_apply_comments(pool[f], base["comments"].get(f, {}))
        tree[f] = data
        written[f] = data
    if m["failure"] == "syntax":
        tree["bad.py"] = "x = (\n"
    amend = [{"path": (str(root / a["path"][4:]) if a["path"].startswith("ABS:") else a["path"]), "ignore": a["ignore"]} for a in base["amend"]]
    cfg_text = run_toml(m["cfg"], amend) if m["has_cfg"] else None
    if cfg_text is not None:
        tree[m["cfg_path"]] = cfg_text
    run_write_tree(root, tree)
    return {"written": written, "cfg_text": cfg_text}


GITHUB_RE = __import__("re").compile(r"^::error line=(-?\d+),col=(-?\d+),title=Refurb ([A-Z]{3,4}\d+),file=(.*?)::")


def run_diag_lines(stdout: str) -> list[tuple[str, str]]:
    """(code, whole line) of every diagnostic line of a real report, in order (plain or github format)"""
    out = []
    for line in stdout.split("\n"):
        mm = core.DIAG_RE.match(line)
        if mm:
            out.append((f"{mm['prefix']}{mm['code']}", line))
            continue
        g = GITHUB_RE.match(line)
        if g:
            out.append((g.group(3), line))
    return out


def whole_run(ctx) -> None:
    import json as _json
    import os
    import subprocess

    from .. import settings_io

    res = ctx.res
    rng = ctx.rng("c10-run")
    if not ctx.driver.available():
        return
    pool = run_pool_sources()
    nfam = 54 if ctx.quick else 670
    with core.scratch("rv-c10run-") as d0:
        d = Path(os.path.realpath(d0))
        # ---- the raw per-file diagnostics, ONCE: instrumented in-process run, every check enabled, nothing ignored/sorted
        proj = d / "raw"
        run_write_tree(proj, {**run_plugin_sources(), **pool, "bad.py": "x = (\n", "pyproject.toml": ""})
        jobs = [{"files": list(pool)}, {"files": ["b.py", "nope.py"], "expect_failure": True}, {"files": ["b.py", "bad.py"], "expect_failure": True}]
        p = subprocess.run([core.PY, "-c", RUN_WORKER], cwd=proj, input=_json.dumps(jobs), capture_output=True, text=True, env=core.py_env(), timeout=600)
        if p.returncode != 0:
            res.disagree("run_main", {"stage": "raw-diagnostics worker"}, None, p.stderr[-1500:])
            return
        wout = _json.loads([l for l in p.stdout.split("\n") if l.strip()][-1])
        if len(wout[0]["files"]) != len(pool) or any(e.get("path", f) != f for f, e in zip(pool, wout[0]["files"])):
            res.disagree("run_main", {"stage": "raw-diagnostics worker"}, None, "the instrumented run did not return one block per file, in order")
            return
        rawinfo = {f: {"raw": e["raw"], "dump": e["dump"]} for f, e in zip(pool, wout[0]["files"])}
        catalogue = wout[0]["catalogue"]
        builtin_cat = [c for c in catalogue if not c["module"].startswith("probe_run")]
        fail_lines = {"missing-file": wout[1], "syntax": wout[2]}
        keys = [(c["prefix"], c["code"]) for c in catalogue]
        if len(set(keys)) != len(keys):
            res.notes.append("whole-run: two check modules share prefix+code; the model identifies a diagnostic's class by prefix+code")
        res.bump("run:raw_diagnostics", sum(len(f["raw"]) for f in rawinfo.values()))
        res.bump("run:catalogue", len(catalogue))
        fired = sorted({f"{r['prefix']}{r['code']}" for f in rawinfo.values() for r in f["raw"]})
        cats = sorted({"#" + c for row in catalogue if f"{row['prefix']}{row['code']}" in fired for c in row["categories"]})
        names = sorted(set(fired + cats + [f"{p}{c}" for p, c, _, _, _ in RUN_PROBES] + ["#c1", "#c2", "FURB100", "FURB999", "#nosuch"]))

        # ---- the variations: families of runs that differ ONLY in the selection options
        # where each code / category fires (to make a systematic option matter in its family)
        fires_in: dict[str, list[str]] = {}
        cats_of = {f"{row['prefix']}{row['code']}": ["#" + c for c in row["categories"]] for row in catalogue}
        for f, info in rawinfo.items():
            for r in info["raw"]:
                code = f"{r['prefix']}{r['code']}"
                for nm in [code, *cats_of.get(code, [])]:
                    if f not in fires_in.setdefault(nm, []):
                        fires_in[nm].append(f)
        # the probe checks first: five checks on one node are where interference between checks shows
        first = ["#c1", "#c2", "FURB901", "ABC105", "XYZ100"]
        cycle = first + [n for n in cats + fired if n not in first]
        for nm in first:
            fires_in.setdefault(nm, ["ints.py"])
        failures = ["missing-file", "syntax", "load-error", "bad-option", "bad-config", "missing-config"]
        members: list[dict[str, Any]] = []
        for fam in range(nfam):
            # sub0 is SYSTEMATIC: one ignore / disable / enable of each category and code in turn (categories first)
            kind = ["ignore", "disable", "enable"][fam % 3]
            name = cycle[(fam // 3) % len(cycle)]
            sys_sel: list[tuple[str, Any]] = [(kind, [name])]
            if kind == "enable":
                sys_sel.insert(0, ("disable_all", None))
            elif rng.random() < 0.5:
                sys_sel.insert(0, ("enable_all", None))
            probe_names = {f"{p}{c}" for p, c, _, _, _ in RUN_PROBES} | {"#" + c for _, _, cs, _, _ in RUN_PROBES for c in cs}
            base = run_base(rng, pool, rawinfo, names, fam, rng.choice(fires_in.get(name, [None])), debug=fam % 9 == 4, need_plugin=name in probe_names, fires_in=fires_in)
            fail = failures[(fam // 9) % len(failures)] if fam % 9 == 8 else None
            verbose_fam = rng.random() < 0.5
            members.append(run_member(rng, base, [("enable_all", None)], verbose_fam, fail, "full"))
            members.append(run_member(rng, base, sys_sel, verbose_fam and rng.random() < 0.8, fail, "sub0"))
            sel = run_sel_options(rng, names, rng.choice([1, 1, 2, 2, 3, 4]))
            members.append(run_member(rng, base, sel, verbose_fam and rng.random() < 0.8, fail, "sub1"))

        def real(k: int) -> tuple[int, str, str, dict[str, Any]]:
            m = members[k]
            root = d / f"r{k}"
            mat = run_materialise(root, m, pool)
            rc, out, err = core.refurb_cli(m["argv"], cwd=root, timeout=600)
            return rc, out, err, mat

        import time as _time

        _t0 = _time.time()
        with ThreadPoolExecutor(16) as ex:
            reals = list(ex.map(real, range(len(members))))
        res.distribution["run:real_runs_wall_s"] = round(_time.time() - _t0, 1)

        # ---- the model's prediction for each run, from the raw diagnostics
        reqs = []
        for k, (m, (rc, out, err, mat)) in enumerate(zip(members, reals)):
            base = m["base"]
            root = d / f"r{k}"
            cat = catalogue if m["loaded_plugin"] else builtin_cat
            if m["failure"] in ("missing-file", "syntax"):
                mypy = {"r": "failed", "lines": fail_lines[m["failure"]]["lines"]}
            else:
                mypy = {"r": "built", "files": [
                    {"path": f, "rel": f, "source": mat["written"][f].decode(), "dump": rawinfo[f]["dump"] if base["rep"]["debug"] else "",
                     "raw": rawinfo[f]["raw"]} for f in base["files"]]}
            req = {"verb": "run_main", "env_color": False, "args": m["argv"], "file": settings_io.file_outcome(root / m["cfg_path"]),
                   "checks": cat, "mypy": mypy, "cwd": [x for x in str(root).split("/") if x], "links": [], "fuel": 64}
            if m["failure"] == "load-error":
                req["load_error"] = "No module named 'no_such_plugin_xyz'"
            reqs.append(req)
        _t0 = _time.time()
        nchunk = 8
        chunks = [reqs[c::nchunk] for c in range(nchunk)]
        with ThreadPoolExecutor(nchunk) as ex:
            parts = list(ex.map(lambda c: ctx.driver.batch(c, timeout=1200), chunks))
        answers = [None] * len(reqs)
        for c, part in enumerate(parts):
            answers[c::nchunk] = part
        res.distribution["run:model_wall_s"] = round(_time.time() - _t0, 1)

    def replay_of(k: int) -> dict[str, Any]:
        m, (rc, out, err, mat) = members[k], reals[k]
        return {"files": {f: mat["written"][f].decode() for f in m["base"]["files"]}, "config_file": m["cfg_path"], "config_text": mat["cfg_text"], "argv": m["argv"],
                "plugin": "harness/props/c10.py:run_plugin_sources() written next to the files", "how": "write the files, the config file and the probe_run plugin into an empty directory; run python -m refurb ARGV there"}

    for k, (m, (rc, out, err, mat), ans) in enumerate(zip(members, reals, answers)):
        base = m["base"]
        res.case(("run", tuple(m["argv"]), mat["cfg_text"], tuple(sorted((f, tuple(sorted(c.items()))) for f, c in base["comments"].items()))), nontrivial=bool(out))
        res.bump("run:real_runs")
        res.bump(f"run:files={min(len(base['files']), 7)}")
        res.bump("run:format=" + (base["rep"]["format"] or "default"))
        res.bump("run:sort=" + (base["rep"]["sort"] or "default"))
        res.bump("run:exit=%d" % rc)
        for kd in base["noqa_kinds"]:
            res.bump("run:noqa:" + kd)
        if not base["noqa_kinds"]:
            res.bump("run:noqa:none")
        if base["amend"]:
            res.bump("run:amend_tables")
        if m["failure"]:
            res.bump("run:failure:" + m["failure"])
        for kind, _ in m["sel"]:
            res.bump("run:opt:" + kind)
        if not m["sel"]:
            res.bump("run:opt:none")
        if m["verbose"]:
            res.bump("run:verbose")
        if base["rep"]["debug"]:
            res.bump("run:debug")
        if err.strip():
            res.violate("refurb wrote to stderr during a whole-run variation", {"kind": "run-stderr", "tail": err.strip().split("\n")[-1][:120]}, {**replay_of(k), "stderr": err[-1500:]})
            continue
        if ans.get("stdout") != out or ans.get("exit") != rc:
            mo = ans.get("stdout", "")
            i = next((j for j, (a, b) in enumerate(zip(mo, out)) if a != b), min(len(mo), len(out)))
            res.disagree("run_main", replay_of(k), {"exit": ans.get("exit"), "kind": ans.get("kind"), "stdout_from_first_difference": mo[max(0, i - 80) : i + 200], "stdout_len": len(mo)},
                         {"exit": rc, "stdout_from_first_difference": out[max(0, i - 80) : i + 200], "stdout_len": len(out)})
    if members:
        k = next((j for j, m in enumerate(members) if m["tag"] != "full" and reals[j][1] and m["base"]["comments"]), 0)
        res.sample({"whole_run": {"argv": members[k]["argv"], "config": reals[k][3]["cfg_text"], "comments": members[k]["base"]["comments"], "exit": reals[k][0],
                                  "stdout_head": reals[k][1][:300], "model_agrees": answers[k].get("stdout") == reals[k][1]}})

    # ---- the subset law on the REAL runs of each family: a run with fewer checks prints exactly the full run's lines of its codes
    for fam in range(nfam):
        ks = [fam * 3, fam * 3 + 1, fam * 3 + 2]
        full = reals[ks[0]]
        if members[ks[0]]["failure"] or members[ks[0]]["base"]["rep"]["debug"] or full[2].strip():
            continue
        full_lines = run_diag_lines(full[1])
        for k in ks[1:]:
            rc, out, err, mat = reals[k]
            if err.strip() or (rc == 1 and out.startswith("refurb: ")):
                continue
            sub_lines = run_diag_lines(out)
            listed = None
            if members[k]["verbose"] and out.startswith("Enabled checks: "):
                first = out.split("\n", 1)[0][len("Enabled checks: "):]
                listed = set() if first == "No checks enabled" else set(first.split(", "))
            codes = listed if listed is not None else {c for c, _ in sub_lines}
            want = [l for l in full_lines if l[0] in codes]
            res.bump("run:oracle_pairs")
            if listed is not None:
                res.bump("run:oracle_pairs_with_listing")
            if sub_lines != want:
                missing = [l for l in want if l not in sub_lines][:3]
                extra = [l for l in sub_lines if l not in want][:3]
                res.violate(
                    "whole run: a run that differs from an --enable-all run only in its selection options does not print exactly the --enable-all run's "
                    f"lines of its loaded codes ({'order only' if not missing and not extra else f'missing {len(missing)}+, extra {len(extra)}+'})",
                    {"kind": "run-selection-differs", "mode": "order" if not missing and not extra else "content", "codes": sorted({l[0] for l in missing + extra})[:4]},
                    {"subset_run": replay_of(k), "full_run_argv": members[ks[0]]["argv"], "full_run_config": full[3]["cfg_text"], "missing_from_subset_run": missing,
                     "only_in_subset_run": extra, "subset_stdout": out[:1500], "full_stdout": full[1][:1500]},
                )
    res.rule += (
        "; WHOLE RUN: families of 3 real CLI runs (one --enable-all; one with ONE ignore/disable/enable of each category and each firing code in turn; one with "
        "1-4 random enable/disable/ignore/enable-all/disable-all options; options split between config file and argv) over a random ordered subset of a 10-file project (sub-directories, same-named files, a CRLF file, a file of integer literals "
        "for the 5-check probe plugin), with random --sort/--format/--quiet/--verbose/--debug (argv, config or contradicting both), `# noqa` comments of 12 "
        "shapes appended to diagnosed and undiagnosed lines, amend tables (relative, absolute, dotted, sibling-prefix, missing paths), pyproject.toml or "
        "--config-file in a sub-directory, and a few failing runs (missing file, syntax error, bad option/config, unknown plugin); a case = one run, "
        "non-trivial = it printed something; each run's stdout and exit status are compared byte for byte with Model/Run.lean runMain fed the raw "
        "diagnostics of ONE instrumented all-checks run"
    )
    res.assumptions += [
        "whole-run model: mypy's part (which files are built, in which order; failure lines) and the raw diagnostics of every check are inputs, taken once from an "
        "instrumented in-process run (should_ignore_error and sorted switched off, --enable-all --debug); that a run with fewer checks produces exactly the raw "
        "diagnostics of the loaded checks is Props/C10 visitAll_select + the subset oracle on real runs",
    ]


def replay(path) -> int:
    print(Path(path).read_text())
    return 0
