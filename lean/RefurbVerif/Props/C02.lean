/-
C02 — code quoted in a diagnostic is the user's code, and is valid Python.

`Der ℓ ts e` (Lemmas/Grammar.lean): the token list `ts` is derived from the non-terminal of level `ℓ` of Python's
expression grammar and denotes the tree `e` (one constructor per production; canonical spacing, spaces are
tokens).  `e` is the tree as the user wrote it (`Node` with f-strings as `.fstr`); `desugar e` is what mypy hands
to refurb; `sfy`/`stringify` are refurb's `_stringify`/`stringify`; `ppRef` is the precedence-aware printer.

All statements are for trees of any size and depth.
-/
import RefurbVerif.Lemmas.StringifyEq
import RefurbVerif.Lemmas.Templates
import RefurbVerif.Generated.Templates

namespace RefurbVerif.C02
open RefurbVerif.Sfy

/-- **The reference printer is faithful.** For every expression tree the Python parser can produce (any size,
    any nesting), the text the precedence-aware printer gives is derived by Python's grammar *as that tree*: this
    is what `_stringify` would satisfy if it parenthesised children by the level of their position. -/
theorem pp_faithful (e : Node) (h : wf e = true) : Der 1 (ppRef e) e :=
  sub_der (pr_der e h) (by omega)


/-! ### `_stringify`: the full statement, its refutation, and the part that holds -/

/-- **Full statement (false of the current code).** Whatever expression the user wrote, the text refurb quotes for
    it parses back, as a Python expression, to that very expression. -/
def Faithful : Prop := ∀ e : Node, wf e = true → Der 1 (stringify (desugar e)) e

/-- Under the guard `safe` (and unless the whole expression is a bare walrus) refurb prints exactly the
    reference text … -/
theorem stringify_eq_ppRef (e : Node) (hw : wf e = true) (hs : safe e = true) (hp : 1 ≤ e.prec) :
    stringify (desugar e) = ppRef e := by
  simp [stringify, sfy_desugar e hw hs, orX, ppRef, wrap_ge _ hp]

/-- **The part that holds.** … and therefore the quoted text is the user's expression: if no operand needs
    parentheses in its position (`safe`: every child has at least the precedence its position requires), no
    unsupported node, no slice inside a tuple subscript, no call shaped like a desugared f-string, and every
    f-string consists of brace-free chunks and conversion-free fields, then the text `stringify` returns is
    derived by Python's grammar as the very tree the user wrote. Any size, any nesting. -/
theorem stringify_faithful_partial (e : Node) (hw : wf e = true) (hs : safe e = true) (hp : 1 ≤ e.prec) :
    Der 1 (stringify (desugar e)) e := by
  rw [stringify_eq_ppRef e hw hs hp]
  exact pp_faithful e hw

private def na : Node := .name ['a']
private def nb : Node := .name ['b']
private def nc : Node := .name ['c']

/-- **Refutation: two trees, one text.** `(a + b) * c` and `a + b * c` are different well-formed expressions and
    refurb quotes both as `a + b * c`. -/
theorem stringify_refuted :
    ∃ a b : Node, wf a = true ∧ wf b = true ∧ a ≠ b ∧ stringify (desugar a) = stringify (desugar b) :=
  ⟨.op .mul (.op .add na nb) nc, .op .add na (.op .mul nb nc),
    by simp [wf, na, nb, nc, isName, isIdent, isIdentStart, keywords],
    by simp [wf, na, nb, nc, isName, isIdent, isIdentStart, keywords],
    by simp, by decide⟩

/-- a text names at most one tree: true of CPython's parser (a function), not proved of `Der` -/
def Unambiguous : Prop := ∀ ts a b, Der 1 ts a → Der 1 ts b → a = b

/-- … so the full statement fails as soon as a text denotes at most one tree (which is the case for CPython's
    parser; the harness checks on every run that the two witnesses' common text parses to the second tree). -/
theorem faithful_refuted (hu : Unambiguous) : ¬ Faithful := by
  intro hf
  let a : Node := .op .mul (.op .add na nb) nc
  let b : Node := .op .add na (.op .mul nb nc)
  have hwa : wf a = true := by simp [a, wf, na, nb, nc, isName, isIdent, isIdentStart, keywords]
  have hwb : wf b = true := by simp [b, wf, na, nb, nc, isName, isIdent, isIdentStart, keywords]
  have hsb : safe b = true := by simp [b, safe, na, nb, nc, BinOp.lhs, BinOp.rhs, BinOp.prec, Node.prec]
  have h1 := hf a hwa
  have h2 := stringify_faithful_partial b hwb hsb (by decide)
  have he : stringify (desugar a) = stringify (desugar b) := by decide
  rw [he] at h1
  exact absurd (hu _ _ _ h1 h2) (by simp [a, b])

/-- the reference printer gives different trees different texts, under the same assumption -/
theorem ppRef_injective (hu : Unambiguous) (a b : Node) (ha : wf a = true) (hb : wf b = true)
    (h : ppRef a = ppRef b) : a = b :=
  hu _ _ _ (pp_faithful a ha) (h ▸ pp_faithful b hb)

/-! Further witnesses, one per way the printed text goes wrong (each is validated against CPython by the harness:
    the text parses to another tree, or not at all). -/

/-- unary operand: `-(a + b)` is quoted as `-a + b` -/
theorem refuted_unary : stringify (desugar (.unary .neg (.op .add na nb))) = stringify (desugar (.op .add (.unary .neg na) nb)) := by
  decide

/-- callee: `(lambda: a)()` is quoted as `lambda: a()` -/
theorem refuted_callee : stringify (desugar (.call (.lambda [] (some na)) [])) = stringify (desugar (.lambda [] (some (.call na [])))) := by
  decide

/-- f-string: `f"{{x}}{a}"` (a literal `{x}`) is quoted as `f"{x}{a}"` (a field `x`) -/
theorem refuted_fstring_braces :
    render (stringify (desugar (.fstr [.str "{x}".toList, .ffield na none []])))
      = render (stringify (desugar (.fstr [.ffield (.name ['x']) none [], .ffield na none []]))) := by
  decide

/-- f-string with a conversion: `f"{a!r}"` is quoted in mypy's desugared form `"{!r:{}}".format(a, "")` -/
theorem refuted_fstring_conv :
    stringify (desugar (.fstr [.ffield na (some 'r') []]))
      = stringify (desugar (.call (.member (.str "{!r:{}}".toList) sFormat) [(.pos, [], na), (.pos, [], .str [])])) := by
  decide

/-- a call the user wrote in the desugared shape is quoted as an f-string -/
theorem refuted_fake_fstring :
    stringify (desugar (.call (.member (.str fmtFormat) sFormat) [(.pos, [], na), (.pos, [], .str [])]))
      = stringify (desugar (.fstr [.ffield na none []])) := by
  decide

/-! ### Placeholders

`stringify` (as opposed to `_stringify`) is used for the base and the index of a subscript, the bounds of a slice,
the items of list/tuple/set displays, the keys and values of a dict display and both sides of an assignment: an
operand refurb cannot print becomes the documented placeholder `x` instead of failing the whole message. -/

/-- the operand as `stringify` treats it: itself if `_stringify` can print it, the name `x` otherwise -/
def phOr (c : Node) : Node := if (sfy c).isSome then c else .name ['x']

/-- the placeholder is printable, and replacing an unprintable operand by it beforehand changes nothing -/
theorem stringify_phOr (c : Node) : (sfy (phOr c)).isSome = true ∧ orX (sfy (phOr c)) = orX (sfy c) := by
  unfold phOr
  cases h : sfy c <;> simp [h, sfy, orX, xTok, unmangle, isMangleChar]

theorem sfyItems_phOr : ∀ items : List Node, sfyItems (items.map phOr) = sfyItems items
  | [] => rfl
  | x :: rest => by simp [sfyItems, (stringify_phOr x).2, sfyItems_phOr rest]

/-- **Placeholder lemma (one step).** What refurb prints for a subscript, a list, a tuple or a set is what it
    prints for the same node with every unprintable operand replaced by the name `x`: the result is the text of a
    tree that matches the user's up to that wildcard, and whose operands all print. Together with
    `stringify_faithful_partial` for the replaced tree this is why the oracle treats `x` as a wildcard. -/
theorem placeholder_sites (b i : Node) (items : List Node) :
    sfy (.index b i) = sfy (.index (phOr b) (phOr i)) ∧
    sfy (.list items) = sfy (.list (items.map phOr)) ∧
    sfy (.tuple items) = sfy (.tuple (items.map phOr)) ∧
    sfy (.set items) = sfy (.set (items.map phOr)) := by
  refine ⟨?_, ?_, ?_, ?_⟩
  · simp [sfy, (stringify_phOr b).2, (stringify_phOr i).2]
  · simp [sfy, sfyItems_phOr]
  · simp [sfy, sfyItems_phOr]
  · simp [sfy, sfyItems_phOr]

/-- e.g. `[*a, b]`: refurb has no case for a starred item and prints `[x, b]` -/
example : render (stringify (.list [.star na, nb])) = "[x, b]".toList := by decide

/-! ### Fragments in the holes of a message template -/

/-- **Fragment in hole.** A template is a tree `T` with holes; its text is the reference text of `T` with a marker
    where each hole is. If the fragment put into every hole derives — at the level that hole's position requires
    (`reqs`: 16 before `.attr`/`[…]`/`(…)`, 4/3 around `or`, 7 in a comparison, 3 in an f-string field, 1 after
    `key=`, 0 as a plain argument …) — the tree `σ i`, then the filled text derives the template's tree with the
    `σ i` in the holes. In particular it parses. Any template, any fragments. -/
theorem fragment_in_hole (T : Node) (f : Nat → Toks) (σ : Nat → Node) (hT : wfT T = true)
    (h : ∀ r ∈ reqs 1 false false T, Meets f σ r) :
    Der 1 (fillT f (wrap 1 T.prec (pr T))) (fillN σ T) :=
  fill_sub f σ T 1 (by omega) false false hT h

/-- what `stringify` prints for an operand meets a hole's demand as soon as the operand is safe and binds at
    least as tightly as the hole requires -/
theorem meets_of_meetsB (σ : Nat → Node) (r : Req) (h : meetsB r (σ r.hole) = true) :
    Meets (fun i => stringify (desugar (σ i))) σ r := by
  have ⟨⟨⟨⟨⟨hw, hs⟩, hp⟩, h17⟩, hni⟩, hnb⟩ :
      (((((wf (σ r.hole) = true ∧ safe (σ r.hole) = true) ∧ r.level ≤ (σ r.hole).prec) ∧ r.level ≤ 17) ∧
        (r.notInt = false ∨ isIntLit (σ r.hole) = false)) ∧ (r.noBrace = false ∨ startsWithBrace (pr (σ r.hole)) = false)) := by
    simpa [meetsB] using h
  have heq : stringify (desugar (σ r.hole)) = pr (σ r.hole) := by simp [stringify, sfy_desugar _ hw hs, orX]
  refine ⟨h17, ?_, ?_, ?_⟩
  · show Der r.level (stringify (desugar (σ r.hole))) (σ r.hole)
    rw [heq]; exact Der.up hp (pr_der _ hw)
  · intro hn; rcases hni with h | h
    · simp [hn] at h
    · exact h
  · intro hn
    show startsWithBrace (stringify (desugar (σ r.hole))) = false
    rw [heq]; rcases hnb with h | h
    · simp [hn] at h
    · exact h

/-- **A check's message is faithful when its operands fit its holes.** The text a check builds by putting
    `stringify(operand)` into the holes of its template denotes the template's tree over the operands, provided
    every operand is safe and has at least the precedence its hole requires (`meetsB`, decidable; the driver
    evaluates it for every diagnostic the harness sees and the oracle must agree). -/
theorem template_faithful (T : Node) (σ : Nat → Node) (hT : wfT T = true)
    (h : ∀ r ∈ reqs 1 false false T, meetsB r (σ r.hole) = true) :
    Der 1 (fillT (fun i => stringify (desugar (σ i))) (wrap 1 T.prec (pr T))) (fillN σ T) :=
  fragment_in_hole T _ σ hT (fun r hr => meets_of_meetsB σ r (h r hr))

/-- every committed template is well-formed … -/
theorem templates_wf : ∀ t ∈ templates, wfT t.shape = true := by
  simp [templates, wfT, T.h, T.nm, T.att, T.call, T.meth, T.sliceAll, fillN, fillNL, fillNA, fillNO, fillNC, fillNP, wf,
    wfArgs, wfItems, wfIndex, wfOpt, wfCmp, wfParts, noAdjLits, isFieldB, argsOrdered, dummy, isName, isIdent,
    isIdentStart, isIdentChar, keywords, constNames, hasBrace]

/-- … and these are the levels its holes require: e.g. the operand of FURB145's `{0}[:]` / `{0}.copy()` must be a
    primary (16) and not a bare integer; FURB110's `{0} or {1}` needs levels 4 and 3; FURB171's `{0} == {1}` needs 7
    on both sides; an f-string field needs 3 and no leading brace; a plain call argument needs nothing (0). -/
theorem templates_levels :
    templateReqs.map (fun t => (t.1, t.2.1, t.2.2.map (fun r => (r.hole, r.level, r.notInt, r.noBrace)))) = [
      ("FURB145", "old", [(0, 16, false, false)]), ("FURB145", "new", [(0, 16, true, false)]),
      ("FURB110", "old", [(0, 3, false, false), (0, 3, false, false), (1, 1, false, false)]),
      ("FURB110", "new", [(0, 4, false, false), (1, 3, false, false)]),
      ("FURB143", "old", [(0, 4, false, false), (1, 3, false, false)]), ("FURB143", "new", [(0, 1, false, false)]),
      ("FURB129", "old", [(0, 16, true, false)]), ("FURB129", "new", [(0, 1, false, false)]),
      ("FURB185", "old", [(0, 16, true, false)]), ("FURB185", "new", [(0, 1, false, false)]),
      ("FURB131", "new", [(0, 16, true, false)]),
      ("FURB115", "new", [(0, 5, false, false)]), ("FURB115", "new", [(0, 1, false, false)]),
      ("FURB149", "new", [(0, 5, false, false)]), ("FURB149", "new", [(0, 1, false, false)]),
      ("FURB166", "old", [(0, 16, false, false), (1, 0, false, false)]), ("FURB166", "new", [(0, 0, false, false)]),
      ("FURB169", "old", [(0, 0, false, false)]), ("FURB169", "new", [(0, 7, false, false)]),
      ("FURB169", "old", [(0, 0, false, false)]), ("FURB169", "new", [(0, 7, false, false)]),
      ("FURB171", "old", [(0, 7, false, false), (1, 0, false, false)]),
      ("FURB171", "new", [(0, 7, false, false), (1, 7, false, false)]),
      ("FURB183", "old", [(0, 3, false, true)]), ("FURB183", "new", [(0, 0, false, false)]),
      ("FURB116", "new", [(0, 3, false, true)]),
      ("FURB123", "old", [(1, 16, false, false), (0, 0, false, false)]),
      ("FURB123", "new", [(0, 1, false, false)]), ("FURB123", "new", [(0, 16, true, false)]),
      ("FURB122", "new", [(0, 16, true, false), (1, 0, false, false)]),
      ("FURB132", "new", [(0, 16, true, false), (1, 0, false, false)]),
      ("FURB142", "new", [(0, 16, true, false), (1, 0, false, false)]),
      ("FURB142", "new", [(0, 16, true, false), (1, 0, false, false)]),
      ("FURB113", "new", [(0, 16, true, false)]), ("FURB187", "new", [(0, 16, true, false)]),
      ("FURB186", "new", [(0, 16, true, false)]),
      ("FURB181", "old", [(0, 16, true, false)]), ("FURB181", "new", [(0, 16, true, false)]),
      ("FURB173", "new", [(0, 7, false, false), (1, 8, false, false)]),
      ("FURB117", "old", [(0, 0, false, false)]), ("FURB117", "old", [(0, 0, false, false)]),
      ("FURB117", "new", [(0, 16, true, false)]),
      ("FURB164", "new", [(0, 16, false, false), (1, 0, false, false)]),
      ("FURB192", "old", [(0, 0, false, false)]), ("FURB192", "old", [(0, 0, false, false)]),
      ("FURB192", "new", [(0, 0, false, false)]), ("FURB192", "new", [(0, 0, false, false)]),
      ("FURB188", "new", [(0, 16, true, false), (1, 0, false, false)]),
      ("FURB188", "new", [(0, 16, true, false), (1, 0, false, false)]),
      ("FURB130", "new", [(0, 7, false, false)]), ("FURB135", "new", [(0, 16, true, false)]),
      ("FURB118", "new", [(0, 0, false, false)])] := by
  simp [templateReqs, templates, T.h, T.nm, T.att, T.call, T.meth, T.sliceAll, reqs, reqsA, reqsL, reqsO, reqsC, reqsI,
    reqsP, isHoleB, BinOp.lhs, BinOp.rhs, BinOp.prec, UnOp.prec]

/-! ### Non-vacuity -/

/-- the hypotheses of the partial theorem are met by a nested, non-trivial expression:
    `f(a.b[1:c], key=lambda x: not a) if a < b <= c else -a ** b` -/
example : ∃ e : Node, wf e = true ∧ safe e = true ∧ 1 ≤ e.prec ∧
    render (stringify (desugar e)) = "f(a.b[1:c], key=lambda x: not a) if a < b <= c else -a ** b".toList :=
  ⟨.cond (.call (.name ['f']) [(.pos, [], .index (.member na ['b']) (.slice (some (.int 1)) (some nc) none)),
        (.named, ['k', 'e', 'y'], .lambda [(['x'], .pos)] (some (.unary .not_ na)))])
      (.cmp na [(.lt, nb), (.le, nc)]) (.unary .neg (.op .pow na nb)),
    by simp [wf, wfArgs, wfIndex, wfOpt, wfCmp, argsOrdered, na, nb, nc, isName, isIdent, isIdentStart, isIdentChar, keywords],
    by simp [safe, safeArgs, safeIndex, safeOpt, safeCmp, na, nb, nc, BinOp.lhs, BinOp.rhs, BinOp.prec, Node.prec,
      UnOp.prec, isIntLit, looksLikeFString],
    by decide, by decide⟩

/-- the template theorem applies to a real case: FURB145 on `a.b[:]` … -/
example : meetsB ⟨0, 16, true, false⟩ (.member na ['b']) = true := by
  simp [meetsB, wf, safe, na, isName, isIdent, isIdentStart, keywords, Node.prec, isIntLit, pr, startsWithBrace,
    wrap]

/-- … and rejects `(a + b)[:]`, whose quoted form `a + b[:]` is another expression -/
example : meetsB ⟨0, 16, true, false⟩ (.op .add na nb) = false := by
  simp [meetsB, Node.prec, BinOp.prec]

/-- … and the refutation witnesses are well-formed trees outside the guard -/
example : wf (.op .mul (.op .add na nb) nc) = true ∧ safe (.op .mul (.op .add na nb) nc) = false :=
  ⟨by simp [wf, na, nb, nc, isName, isIdent, isIdentStart, keywords],
   by simp [safe, na, nb, nc, BinOp.lhs, BinOp.rhs, BinOp.prec, Node.prec]⟩

/-! ## The messages of the checks, regenerated from their source (Generated/Templates.lean)

`genTable` lists, per check, every back-quoted fragment of every message the check can build, as read off the
check's current source by harness/extract_c02.py (`stringify(…)` holes and raw holes, the fragment parsed with names
in the holes).  Everything below is re-checked against that table on every run: a check that gains a message, or
whose message moves an operand into a tighter position, breaks an obligation here.  The `decide`s evaluate the
structural twins `pr2`/`reqs2`/`wf2` (Lemmas/Templates.lean), proved equal to the model's `pr`/`reqs`/`wf`. -/

open RefurbVerif.Generated

/-- `g` is a fragment of a message of the check with code `code` in the regenerated table -/
def InTable (code : Nat) (g : GenFrag) : Prop := ∃ c ∈ genTable, c.code = code ∧ g ∈ c.frags

/-- the fragment a row of the regenerated table stands for -/
abbrev fragOf (g : GenFrag) : Option Frag := g.frag

/-- **The hand-written template table agrees with the source of the checks.** For every (check, role) the committed
    tables (`templates` of the model and `templatesMore`) classify: each message the check can build today is in the
    table with the same hole levels, and each table entry is still a message of the check. A new message variant, a
    changed operator, an operand moved next to `.attr`: this fails (`decide` over the regenerated table). -/
theorem gen_agrees_committed : genInCommitted = true ∧ committedInGen = true ∧ committedChecksExist = true := by
  decide +kernel

/-- the first half, unfolded for one regenerated fragment, in terms of the model's `pr` and `reqs` -/
theorem gen_fragment_classified (c : GenCheck) (hc : c ∈ genTable) (g : GenFrag) (hg : g ∈ c.frags) (s : Node)
    (hs : comparableShape g = some s)
    (hk : ∃ t ∈ committed, codeOf t.check = c.code ∧ roleOf t.role = g.role) :
    ∃ t ∈ committed, codeOf t.check = c.code ∧ roleOf t.role = g.role ∧ canonForm t.shape = canonForm s := by
  have h := List.all_eq_true.mp (List.all_eq_true.mp gen_agrees_committed.1 c hc) g hg
  obtain ⟨t0, ht0, hc0, hr0⟩ := hk
  have hany : (committedOf c.code).any (fun t => t.1 == g.role) = true := by
    simp only [committedOf, List.any_map, List.any_filter, List.any_eq_true]
    exact ⟨t0, ht0, by simp [hc0, hr0]⟩
  simp only [hany, hs, Bool.not_true, Bool.false_or, List.any_eq_true] at h
  obtain ⟨⟨r, cf⟩, hmem, hh⟩ := h
  simp only [committedOf, List.mem_map, List.mem_filter] at hmem
  obtain ⟨t, ⟨ht, hcode⟩, heq⟩ := hmem
  simp only [Bool.and_eq_true, beq_iff_eq, decide_eq_true_eq] at hh hcode
  have h1 : roleOf t.role = r := (Prod.mk.inj heq).1
  have h2 : canonForm2 t.shape = cf := (Prod.mk.inj heq).2
  exact ⟨t, ht, hcode, by rw [h1]; exact hh.1, by rw [← canonForm2_eq, ← canonForm2_eq, h2]; exact hh.2⟩

/-- the committed classification of EVERY check (hand-reviewed; `bin/check` reports the regenerated value where it
    differs): per check its code, the number of distinct messages and, per distinct fragment class, role, form and
    for each hole occurrence (filled by `stringify`?, level its position demands, not-a-bare-integer,
    no-leading-brace). Level 99: the position is not modelled (statement fragments, holes inside names or literals,
    generator expressions). -/
def classified : List (Nat × Nat × List FragClass) := [
-- BEGIN classified (one check per line; harness/props/c02.py reads this block)
  (100, 1, [(.old, .expr, [(true, 1, false, false)]), (.new, .expr, [(true, 0, false, false), (false, 0, false, false)])]),
  (101, 5, [(.old, .unmodelled, []), (.new, .assign, [])]),
  (102, 2, [(.old, .unmodelled, [(false, 99, false, false)]), (.new, .unmodelled, [(false, 99, false, false)])]),
  (103, 2, [(.old, .unmodelled, []), (.new, .expr, [])]),
  (104, 1, [(.old, .expr, [(false, 16, false, false)]), (.new, .expr, [])]),
  (105, 1, [(.old, .expr, []), (.new, .expr, [])]),
  (106, 16, [(.old, .expr, [(false, 13, false, false)]), (.new, .expr, []), (.new, .expr, [(false, 0, false, false)]), (.old, .unmodelled, [(false, 99, false, false)]), (.old, .expr, [(false, 12, false, false)]), (.old, .expr, [(false, 0, false, false)])]),
  (107, 4, [(.old, .unmodelled, [(false, 99, false, false)]), (.new, .unmodelled, [(false, 99, false, false)]), (.old, .unmodelled, []), (.new, .unmodelled, [])]),
  (108, 1, [(.old, .expr, [(false, 7, false, false), (false, 7, false, false), (false, 7, false, false), (false, 7, false, false)]), (.new, .expr, [(false, 7, false, false), (false, 7, false, false)])]),
  (109, 2, [(.old, .inTail, []), (.new, .inTail, []), (.old, .notInTail, []), (.new, .notInTail, [])]),
  (110, 1, [(.old, .expr, [(true, 3, false, false), (true, 3, false, false), (true, 1, false, false)]), (.new, .expr, [(true, 4, false, false), (true, 3, false, false)])]),
  (111, 11, [(.old, .expr, [(true, 1, false, false)]), (.new, .expr, [(true, 1, false, false)]), (.new, .expr, []), (.new, .expr, [(false, 1, false, false)])]),
  (112, 9, [(.old, .expr, [(false, 16, false, false)]), (.new, .expr, [])]),
  (113, 1, [(.old, .unmodelled, [(true, 99, false, false)]), (.new, .expr, [(true, 16, true, false)])]),
  (114, 1, [(.old, .expr, []), (.new, .expr, [])]),
  (115, 2, [(.old, .expr, [(true, 1, false, false)]), (.new, .expr, [(true, 5, false, false)]), (.new, .expr, [(true, 1, false, false)])]),
  (116, 3, [(.old, .expr, [(true, 1, false, false)]), (.new, .expr, [(true, 3, false, true)])]),
  (117, 4, [(.old, .expr, [(true, 0, false, false)]), (.new, .expr, [(true, 16, true, false)]), (.old, .expr, [(true, 0, false, false), (true, 0, false, false)]), (.new, .expr, [(true, 16, true, false), (true, 0, false, false)])]),
  (118, 30, [(.old, .expr, [(true, 1, false, false)]), (.new, .unmodelled, [(false, 99, false, false)]), (.new, .expr, []), (.new, .expr, [(false, 0, false, false)]), (.new, .expr, [(true, 0, false, false)]), (.new, .expr, [(false, 1, false, false)])]),
  (119, 7, [(.old, .unmodelled, [(false, 99, false, false), (true, 99, false, false)]), (.new, .unmodelled, [(true, 99, false, false)])]),
  (120, 1, []),
  (121, 2, [(.old, .expr, [(false, 16, false, false), (false, 16, false, false)]), (.new, .expr, [(false, 16, false, false)])]),
  (122, 2, [(.old, .expr, [(true, 1, false, false)]), (.new, .unmodelled, [(true, 99, false, false), (true, 99, false, false), (true, 99, false, false), (true, 99, false, false)]), (.new, .expr, [(true, 16, true, false), (true, 0, false, false)])]),
  (123, 2, [(.old, .expr, [(false, 16, false, false), (true, 0, false, false)]), (.new, .expr, [(true, 16, true, false)]), (.new, .expr, [(true, 1, false, false)])]),
  (124, 2, [(.old, .expr, [(false, 7, false, false), (false, 7, false, false), (false, 7, false, false), (false, 7, false, false)]), (.new, .expr, [])]),
  (125, 1, []),
  (126, 2, [(.old, .unmodelled, []), (.new, .unmodelled, [])]),
  (127, 1, []),
  (128, 1, []),
  (129, 1, [(.old, .expr, [(true, 16, true, false)]), (.new, .expr, [(true, 1, false, false)])]),
  (130, 2, [(.old, .inTail, [(true, 7, false, false)]), (.new, .inTail, [(true, 7, false, false)]), (.old, .notInTail, [(true, 7, false, false)]), (.new, .notInTail, [(true, 7, false, false)])]),
  (131, 1, [(.old, .expr, [(true, 1, false, false)]), (.new, .expr, [(true, 16, true, false)])]),
  (132, 1, [(.old, .expr, [(true, 1, false, false)]), (.new, .expr, [(true, 16, true, false), (true, 0, false, false)])]),
  (133, 1, []),
  (134, 2, [(.old, .unmodelled, []), (.new, .unmodelled, [])]),
  (135, 2, [(.new, .forIn, [(true, 16, false, false), (true, 16, true, false)]), (.new, .forIn, [(true, 16, false, false), (true, 1, false, false)])]),
  (136, 2, [(.old, .unparsed, [(false, 99, false, false)]), (.new, .expr, [(false, 16, false, false)])]),
  (137, 25, [(.old, .expr, [(false, 16, false, false)]), (.new, .expr, [])]),
  (138, 1, []),
  (139, 24, [(.old, .expr, []), (.new, .expr, [(false, 1, false, false)])]),
  (140, 1, [(.old, .expr, [(false, 1, false, false)]), (.new, .expr, [(false, 1, false, false)])]),
  (141, 2, [(.old, .expr, []), (.new, .expr, [])]),
  (142, 4, [(.old, .unmodelled, [(true, 99, false, false), (true, 99, false, false), (true, 99, false, false)]), (.new, .unmodelled, [(true, 99, false, false), (true, 99, false, false), (true, 99, false, false)]), (.old, .expr, [(true, 1, false, false)]), (.new, .expr, [(true, 16, true, false), (true, 0, false, false)])]),
  (143, 1, [(.old, .expr, [(true, 4, false, false), (true, 3, false, false)]), (.new, .expr, [(true, 1, false, false)])]),
  (144, 2, [(.old, .unmodelled, [(false, 99, false, false)]), (.new, .expr, [])]),
  (145, 1, [(.old, .expr, [(true, 16, false, false)]), (.new, .expr, [(true, 16, true, false)])]),
  (146, 8, [(.old, .expr, [(false, 16, false, false)]), (.new, .expr, [])]),
  (147, 2, [(.old, .expr, []), (.new, .expr, []), (.old, .expr, [(false, 0, false, false)]), (.new, .unparsed, [(false, 99, false, false), (false, 99, false, false)])]),
  (148, 2, [(.new, .forIn, [(true, 16, false, false), (true, 1, false, false)]), (.new, .forIn, [(true, 16, false, false), (true, 0, false, false)])]),
  (149, 16, [(.old, .expr, [(true, 7, false, false), (false, 7, false, false)]), (.new, .expr, [(true, 5, false, false)]), (.old, .expr, [(false, 7, false, false), (true, 7, false, false)]), (.new, .expr, [(true, 1, false, false)])]),
  (150, 8, [(.old, .expr, [(false, 16, false, false)]), (.new, .expr, []), (.new, .expr, [(false, 0, false, false)])]),
  (151, 2, [(.old, .unmodelled, [(false, 99, false, false)]), (.new, .expr, [])]),
  (152, 1, [(.old, .expr, [(false, 1, false, false)]), (.new, .unmodelled, [(false, 99, false, false)])]),
  (153, 3, [(.old, .expr, [(true, 16, false, false)]), (.new, .expr, []), (.old, .expr, [(true, 16, false, false), (true, 0, false, false)])]),
  (154, 4, [(.old, .unmodelled, []), (.new, .unmodelled, [])]),
  (155, 10, [(.old, .expr, [(false, 16, false, false)]), (.new, .expr, [])]),
  (156, 1, [(.old, .expr, [(false, 1, false, false)]), (.new, .expr, [(false, 1, false, false)])]),
  (157, 4, [(.old, .unmodelled, [(false, 99, false, false)]), (.new, .expr, [(false, 0, false, false)]), (.new, .unmodelled, [(false, 99, false, false)])]),
  (158, 1, [(.old, .unmodelled, [(false, 99, false, false), (false, 99, false, false)]), (.new, .expr, [(false, 16, false, false), (false, 0, false, false)])]),
  (159, 5, [(.old, .expr, [(true, 1, false, false)]), (.new, .expr, [(true, 16, true, false)]), (.new, .expr, [(true, 16, true, false), (false, 0, false, false)]), (.new, .unmodelled, [(true, 99, false, false), (false, 99, false, false)]), (.new, .unmodelled, [(true, 99, false, false), (false, 99, false, false), (false, 99, false, false)])]),
  (160, 1, []),
  (161, 4, [(.old, .expr, []), (.new, .expr, [])]),
  (162, 5, [(.old, .unmodelled, [(true, 99, false, false), (false, 99, false, false)]), (.new, .expr, [(true, 16, false, false)]), (.old, .expr, [(false, 1, false, false)])]),
  (163, 3, [(.old, .expr, []), (.new, .expr, []), (.old, .expr, [(false, 0, false, false)]), (.new, .unmodelled, [(false, 99, false, false)]), (.new, .expr, [(false, 1, false, false)])]),
  (164, 2, [(.old, .expr, [(true, 16, true, false), (true, 0, false, false)]), (.new, .expr, [(true, 16, false, false), (true, 0, false, false)])]),
  (165, 4, [(.old, .unmodelled, [(false, 99, false, false), (false, 99, false, false)]), (.new, .unmodelled, [(false, 99, false, false), (false, 99, false, false)])]),
  (166, 2, [(.old, .expr, [(true, 16, false, false), (false, 1, false, false)]), (.new, .expr, [(true, 0, false, false)]), (.old, .expr, [(true, 16, false, false), (false, 0, false, false)])]),
  (167, 8, [(.old, .expr, [(false, 1, false, false)]), (.new, .expr, [])]),
  (168, 4, [(.old, .expr, []), (.new, .expr, []), (.old, .expr, [(false, 0, false, false)])]),
  (169, 4, [(.old, .expr, [(true, 0, false, false)]), (.new, .expr, [(true, 7, false, false)])]),
  (170, 1, [(.old, .expr, [(false, 16, false, false), (false, 0, false, false)]), (.new, .unmodelled, [(false, 99, false, false), (false, 99, false, false)])]),
  (171, 2, [(.old, .expr, [(true, 1, false, false)]), (.new, .expr, [(true, 7, false, false), (true, 7, false, false)])]),
  (172, 1, [(.old, .unmodelled, [(false, 99, false, false)]), (.new, .unmodelled, [(false, 99, false, false)])]),
  (173, 3, [(.old, .expr, [(false, 0, false, false)]), (.new, .expr, [(false, 1, false, false)]), (.old, .expr, [(true, 1, false, false)]), (.new, .expr, [(false, 0, false, false)])]),
  (174, 16, [(.old, .expr, []), (.new, .expr, []), (.old, .expr, [(false, 0, false, false)]), (.new, .expr, [(false, 0, false, false)]), (.old, .expr, [(true, 16, false, false), (false, 1, false, false)]), (.new, .expr, [(true, 16, false, false), (false, 0, false, false)])]),
  (175, 20, [(.old, .assign, [(false, 16, false, false)]), (.new, .assign, [(false, 16, false, false)]), (.new, .expr, [(false, 1, false, false)]), (.old, .unmodelled, [(false, 99, false, false)]), (.new, .unmodelled, [(false, 99, false, false)])]),
  (176, 1, [(.old, .unmodelled, [(false, 99, false, false), (false, 99, false, false)]), (.new, .expr, [(false, 1, false, false)])]),
  (177, 2, [(.old, .unmodelled, [(false, 99, false, false)]), (.new, .expr, []), (.old, .expr, [])]),
  (178, 6, [(.old, .unmodelled, []), (.new, .unmodelled, []), (.new, .expr, []), (.old, .unmodelled, [(false, 99, false, false)])]),
  (179, 6, [(.old, .unmodelled, []), (.new, .expr, []), (.old, .expr, [(true, 1, false, false)]), (.new, .expr, [(true, 0, false, false)]), (.new, .expr, [(true, 16, true, false), (true, 0, false, false)]), (.old, .expr, [(false, 1, false, false)]), (.new, .expr, [(false, 1, false, false)])]),
  (180, 2, [(.old, .assign, []), (.new, .expr, [])]),
  (181, 2, [(.old, .expr, [(true, 16, true, false)]), (.new, .expr, [(true, 16, true, false)]), (.old, .expr, [(true, 16, true, false), (true, 0, false, false)]), (.new, .expr, [(true, 16, true, false), (true, 0, false, false)])]),
  (182, 1, [(.old, .unmodelled, [(false, 99, false, false), (true, 99, false, false), (true, 99, false, false)]), (.new, .assign, [(false, 16, false, false), (true, 16, false, false), (true, 0, false, false)])]),
  (183, 1, [(.old, .expr, [(true, 3, false, true)]), (.new, .expr, [(true, 0, false, false)])]),
  (184, 2, []),
  (185, 1, [(.old, .expr, [(true, 16, true, false)]), (.new, .expr, [(true, 1, false, false)])]),
  (186, 1, [(.old, .expr, [(true, 1, false, false)]), (.new, .expr, [(true, 16, true, false), (false, 0, false, false)])]),
  (187, 1, [(.old, .expr, [(true, 1, false, false)]), (.new, .expr, [(true, 16, true, false)])]),
  (188, 4, [(.old, .expr, [(true, 1, false, false)]), (.new, .assign, [(true, 16, false, false), (true, 16, true, false), (true, 0, false, false)]), (.new, .expr, [(true, 16, true, false), (true, 0, false, false)])]),
  (189, 3, [(.old, .unmodelled, [(false, 99, false, false), (false, 99, false, false)]), (.new, .unmodelled, [(false, 99, false, false)])]),
  (190, 1, [(.old, .expr, [(true, 1, false, false)]), (.new, .unmodelled, [(false, 99, false, false)])]),
  (191, 2, [(.old, .expr, [(true, 1, false, false)]), (.new, .expr, [(true, 0, false, false)])]),
  (192, 4, [(.old, .expr, [(true, 1, false, false)]), (.new, .expr, [(true, 0, false, false)]), (.new, .expr, [(true, 0, false, false), (true, 1, false, false)])])
-- END classified
]

/-- **Every message of every check is classified.** The regenerated table has exactly the checks, the message
    counts and the fragment classes of `classified`: a check that gains a message, a `stringify(x)` that becomes
    `str(x)`, a fragment that no longer parses (`unparsed`), an operand that moves from an argument position (level
    0) to the operand of `not` (5) or the receiver of `.attr` (16) — each changes `genSummary`. -/
theorem gen_classified : (genSummary == classified) = true := by decide +kernel

/-- the demands recorded in the summary are the model's `reqs` of the fragment -/
theorem gen_reqs_eq (g : GenFrag) : g.reqs = (fragOf g).map reqsF := by
  simp only [GenFrag.reqs, fragOf]
  cases g.frag <;> simp [reqsF2_eq]

/-! ### The proposed replacement parses -/

/-- every fragment of the table that has a tree is well-formed, and where the harness claimed so its text IS the
    reference text of that tree -/
def genSound : Bool :=
  genTable.all (fun c => c.frags.all (fun g => match g.frag with
    | some F => wfF2 F && (!g.exact || decide (render (prFrag2 F) = g.text))
    | none => !g.exact))

theorem gen_sound : genSound = true := by decide +kernel

/-- a replacement built only from literal text and quoted fragments is never `unparsed` (CPython accepts it with
    names in the holes), and unless it is one of the forms the model has no tree for (`unmodelled`: generator
    expressions, statement lists, decorators …) it has a tree and — when it has holes at all — its text is exactly
    the reference text of that tree (a hole-free literal such as FURB161's `(x).bit_count()` may carry redundant
    parentheses) -/
def closedNewCovered : Bool :=
  genTable.all (fun c => c.frags.all (fun g => !(g.role == .new && closed g) ||
    (g.form != .unparsed && (g.form == .unmodelled || (g.frag.isSome && (g.exact || g.holes.isEmpty))))))

theorem closed_new_covered : closedNewCovered = true := by decide +kernel

theorem gen_wf {code : Nat} {g : GenFrag} (hg : InTable code g) (F : Frag) (hF : fragOf g = some F) : wfF F = true := by
  obtain ⟨c, hc, _, hg⟩ := hg
  have h := List.all_eq_true.mp (List.all_eq_true.mp gen_sound c hc) g hg
  simp only [fragOf] at hF
  simp only [hF, Bool.and_eq_true, wfF2_eq] at h
  exact h.1

/-- the text of an exact row is the reference text of its tree, character for character (holes as `{i}`) -/
theorem gen_text_exact {code : Nat} {g : GenFrag} (hg : InTable code g) (F : Frag) (hF : fragOf g = some F)
    (he : g.exact = true) : render (prFrag F) = g.text := by
  obtain ⟨c, hc, _, hg⟩ := hg
  have h := List.all_eq_true.mp (List.all_eq_true.mp gen_sound c hc) g hg
  simp only [fragOf] at hF
  simp only [hF, he, Bool.and_eq_true, Bool.not_true, Bool.false_or, decide_eq_true_eq, prFrag2_eq] at h
  exact h.2

/-- **The proposed replacement parses (second sentence of the property).** Take any fragment of any message of any
    check (`old` or `new`; expression, assignment, loop head or `in` tail) that the table gives a tree. If the text
    put into each hole derives at the level that hole's position requires (and what lands left of `=` / after `for`
    is a target), the whole fragment is derived by Python's grammar, as the fragment's tree over the operands. No
    bound on the operands. -/
theorem replacement_parses {code : Nat} {g : GenFrag} (hg : InTable code g) (F : Frag) (hF : fragOf g = some F)
    (f : Nat → Toks) (σ : Nat → Node) (h : ∀ r ∈ reqsF F, Meets f σ r)
    (ht : ∀ t, F.target? = some t → isTargetN (fillN σ t) = true) :
    DerFrag (fillT f (prFrag F)) (fillF σ F) :=
  fragment_in_form F f σ (gen_wf hg F hF) h ht

/-- **… with refurb's own printer in the holes.** When every operand is safe and binds at least as tightly as its
    hole requires (`meetsB`), the text the check builds with `stringify` parses as the fragment over the user's
    operands. -/
theorem replacement_parses_refurb {code : Nat} {g : GenFrag} (hg : InTable code g) (F : Frag) (hF : fragOf g = some F)
    (σ : Nat → Node) (h : ∀ r ∈ reqsF F, meetsB r (σ r.hole) = true)
    (ht : ∀ t, F.target? = some t → isTargetN (fillN σ t) = true) :
    DerFrag (fillT (fun i => stringify (desugar (σ i))) (prFrag F)) (fillF σ F) :=
  replacement_parses hg F hF _ σ (fun r hr => meets_of_meetsB σ r (h r hr)) ht

/-- **Full statement for replacements (false of the current code).** Whatever well-formed operands a check finds,
    the replacement it builds from quoted fragments denotes the replacement's tree over those operands. -/
def ReplacementFaithful : Prop :=
  ∀ code g, InTable code g → g.role = .new → closed g = true → ∀ F, fragOf g = some F →
    ∀ σ : Nat → Node, (∀ i, wf (σ i) = true) → (∀ t, F.target? = some t → isTargetN (fillN σ t) = true) →
    DerFrag (fillT (fun i => stringify (desugar (σ i))) (prFrag F)) (fillF σ F)

private def sumAB : Node := .op .add na nb
/-- `e.copy()` -/
def copyOf (e : Node) : Node := .call (.member e ['c', 'o', 'p', 'y']) []

private def isCopyShape : Option Node → Bool
  | some (.call (.member (.other 0) a) []) => a == ['c', 'o', 'p', 'y']
  | _ => false

theorem isCopyShape_eq {o : Option Node} (h : isCopyShape o = true) : o = some (copyOf (.other 0)) := by
  unfold isCopyShape at h
  split at h
  · simp at h; simp [copyOf, h]
  · simp at h

/-- the row of FURB145's replacement `{0}.copy()` (one hole, filled by `stringify`) is in the regenerated table -/
private def has145 : Bool :=
  genTable.any (fun c => c.code == 145 && c.frags.any (fun g => g.role == .new && g.form == .expr &&
    g.holes == [(0, true)] && isCopyShape g.shape))

theorem has145_true : has145 = true := by decide +kernel

/-- FURB145 proposes `{0}.copy()`, the hole filled by `stringify` -/
theorem furb145_row : ∃ g, InTable 145 g ∧ g.role = .new ∧ closed g = true ∧ fragOf g = some (.expr (copyOf (.other 0))) := by
  have h := has145_true
  simp only [has145, List.any_eq_true, Bool.and_eq_true, beq_iff_eq] at h
  obtain ⟨c, hc, hcode, g, hg, ⟨⟨hr, hf⟩, hh⟩, hs⟩ := h
  refine ⟨g, ⟨c, hc, hcode, hg⟩, hr, by simp [closed, hh], ?_⟩
  simp [fragOf, GenFrag.frag, hf, isCopyShape_eq hs]

/-- an expression fragment is derived as an expression -/
theorem DerFrag.expr_inv {ts : Toks} {e : Node} (h : DerFrag ts (.expr e)) : Der 1 ts e := by
  generalize hF : Frag.expr e = F at h
  cases h with
  | expr hd => cases hF; exact hd
  | assign _ _ _ => cases hF
  | forIn _ _ _ => cases hF
  | inTail _ => cases hF

/-- **Refutation witness (the recorded lost-parentheses finding): the replacement denotes another tree.** For
    `(a + b)[:]` FURB145 proposes the text `a + b.copy()`: Python's grammar derives it as `a + (b.copy())`, which is
    not the tree `(a + b).copy()` the message stands for. Unconditional. -/
theorem replacement_other_tree :
    ∃ code g, InTable code g ∧ g.role = .new ∧ closed g = true ∧ ∃ s, fragOf g = some (.expr s) ∧
      ∃ σ : Nat → Node, (∀ i, wf (σ i) = true) ∧
        ∃ e', Der 1 (fillT (fun i => stringify (desugar (σ i))) (prFrag (.expr s))) e' ∧ e' ≠ fillN σ s := by
  obtain ⟨g, hg, hr, hc, hF⟩ := furb145_row
  refine ⟨145, g, hg, hr, hc, _, hF, fun _ => sumAB, ?_, .op .add na (copyOf nb), ?_, ?_⟩
  · intro _; simp [sumAB, wf, na, nb, isName, isIdent, isIdentStart, keywords]
  · have hw : wf (.op .add na (copyOf nb)) = true := by
      simp [copyOf, wf, wfArgs, argsOrdered, na, nb, isName, isIdent, isIdentStart, isIdentChar, keywords]
    have he : fillT (fun _ => stringify (desugar sumAB)) (prFrag (.expr (copyOf (.other 0))))
        = ppRef (.op .add na (copyOf nb)) := by
      rw [← prFrag2_eq, ppRef, ← pr2_eq]
      decide +kernel
    rw [he]; exact pp_faithful _ hw
  · simp [fillN, fillNA, copyOf, sumAB]

/-- … so, as soon as a text denotes at most one tree (CPython's parser is a function), the full statement fails:
    the guard of `replacement_parses_refurb` cannot be dropped. Together with `replacement_parses_refurb` this pair
    is the formal face of the recorded finding C02-lost-parens at the level of the checks' messages. -/
theorem replacement_refuted (hu : Unambiguous) : ¬ ReplacementFaithful := by
  intro hf
  obtain ⟨code, g, hg, hr, hc, s, hF, σ, hw, e', hd, hne⟩ := replacement_other_tree
  have := (hf code g hg hr hc (.expr s) hF σ hw (by intro t ht; simp [Frag.target?] at ht)).expr_inv
  exact hne (hu _ _ _ hd this)

/-- `{0} or {1}` -/
def orShape : Node := .op .or_ (.other 0) (.other 1)

private def isOrShape : Option Node → Bool
  | some (.op .or_ (.other 0) (.other 1)) => true
  | _ => false

theorem isOrShape_eq {o : Option Node} (h : isOrShape o = true) : o = some orShape := by
  unfold isOrShape at h
  split at h
  · rfl
  · simp at h

/-- the row of FURB110's replacement `{0} or {1}` (both holes filled by `stringify`) is in the regenerated table -/
private def has110 : Bool :=
  genTable.any (fun c => c.code == 110 && c.frags.any (fun g => g.role == .new && g.form == .expr &&
    g.holes == [(0, true), (1, true)] && isOrShape g.shape))

theorem has110_true : has110 = true := by decide +kernel

/-- FURB110 proposes `{0} or {1}`, both holes filled by `stringify` -/
theorem furb110_row : ∃ g, InTable 110 g ∧ g.role = .new ∧ closed g = true ∧ fragOf g = some (.expr orShape) := by
  have h := has110_true
  simp only [has110, List.any_eq_true, Bool.and_eq_true, beq_iff_eq] at h
  obtain ⟨c, hc, hcode, g, hg, ⟨⟨hr, hf⟩, hh⟩, hs⟩ := h
  refine ⟨g, ⟨c, hc, hcode, hg⟩, hr, by simp [closed, hh], ?_⟩
  simp [fragOf, GenFrag.frag, hf, isOrShape_eq hs, orShape]

private def nq : Node := .name ['q', 'q']
private def walWB : Node := .walrus (.name ['w', 'w']) nb

/-- **Refutation witness: the replacement does not parse at all.** For `qq if qq else (ww := b)` FURB110 proposes
    the text `qq or ww := b`: no tree whatever is derived from it as an expression (one `:=`, no bracket, no comma —
    `not_der_of_wal`). This is the "unparsable text" case of the recorded finding C02-lost-parens. Unconditional. -/
theorem replacement_unparsable :
    ∃ code g, InTable code g ∧ g.role = .new ∧ closed g = true ∧ ∃ s, fragOf g = some (.expr s) ∧
      ∃ σ : Nat → Node, (∀ i, wf (σ i) = true) ∧
        ∀ e', ¬ Der 1 (fillT (fun i => stringify (desugar (σ i))) (prFrag (.expr s))) e' := by
  obtain ⟨g, hg, hr, hc, hF⟩ := furb110_row
  refine ⟨110, g, hg, hr, hc, _, hF, fun i => if i = 0 then nq else walWB, ?_, ?_⟩
  · intro i
    by_cases h : i = 0 <;> simp [h, nq, walWB, nb, wf, isName, isIdent, isIdentStart, isIdentChar, keywords]
  · refine not_der_of_wal (by omega) ?_
    rw [← prFrag2_eq]
    decide +kernel

/-- **The full statement fails, without any assumption on the grammar**: there is a check, a replacement built only
    from quoted fragments and well-formed operands for which the text refurb proposes is not Python. -/
theorem replacement_refuted_unparsable : ¬ ReplacementFaithful := by
  intro hf
  obtain ⟨code, g, hg, hr, hc, s, hF, σ, hw, hno⟩ := replacement_unparsable
  exact hno _ (hf code g hg hr hc (.expr s) hF σ hw (by intro t ht; simp [Frag.target?] at ht)).expr_inv

/-! ### Non-vacuity of the statements about fragments -/

/-- the hypotheses of `fragment_in_form` / `replacement_parses_refurb` are met by FURB188's replacement
    `{0} = {0}.removesuffix({1})` on `a.b = a.b.removesuffix("x")` … -/
example : ∃ (F : Frag) (σ : Nat → Node), wfF F = true ∧ (∀ r ∈ reqsF F, meetsB r (σ r.hole) = true) ∧
    (∀ t, F.target? = some t → isTargetN (fillN σ t) = true) ∧ reqsF F ≠ [] :=
  ⟨.assign (.other 0) (T.meth (.other 0) "removesuffix" [.other 1]),
    fun i => if i = 0 then .member na ['b'] else .str ['x'],
    by simp [wfF, wfT, T.meth, T.call, T.att, fillN, fillNA, wf, wfArgs, argsOrdered, dummy, isName, isIdent, isIdentStart,
      isIdentChar, keywords],
    by simp [reqsF, reqs, reqsA, T.meth, T.call, T.att, meetsB, wf, safe, na, isName, isIdent, isIdentStart, keywords,
      Node.prec, isIntLit, pr, startsWithBrace, wrap],
    by intro t ht; simp [Frag.target?] at ht; subst ht; simp [fillN, isTargetN],
    by simp [reqsF, reqs]⟩

/-- … and refused for FURB145 on `(a + b)[:]`: the receiver of `.copy` must be a primary -/
example : ∃ g, InTable 145 g ∧ ∃ F, fragOf g = some F ∧ ∃ r ∈ reqsF F, meetsB r sumAB = false := by
  obtain ⟨g, hg, _, _, hF⟩ := furb145_row
  exact ⟨g, hg, _, hF, ⟨0, 16, true, false⟩, by simp [reqsF, reqs, reqsA, copyOf], by simp [meetsB, sumAB, Node.prec, BinOp.prec]⟩

/-- `gen_fragment_classified` applies to a row: FURB145's replacement is known to the committed tables -/
example : ∃ t ∈ committed, codeOf t.check = 145 ∧ roleOf t.role = .new := by decide +kernel

end RefurbVerif.C02
