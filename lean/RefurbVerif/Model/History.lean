/-
HISTORY — what outlives a run inside one process, and REGROUPING of the whole-run model (C11).

Part 1 (`RefurbVerif.History`).  `run_refurb` (refurb/main.py:146-252) may be called any number of times by one
interpreter.  What one call can hand to the next is the PROCESS-GLOBAL state refurb touches:

  * `main.get_source_lines` — `@functools.cache`, keyed by path; `cache_clear()` is the first statement of a run,
  * `sys.set_int_max_str_digits(0)` — an interpreter setting, written (a constant) before anything is printed,
  * `types.BUILTINS_MYPY_FILE` — a module attribute, assigned from this run's build before the files are visited,
  * the module-level `set[int]()` tables of five checks (`ignore` of FURB140 / FURB179 / FURB123's helper,
    `ignored_nodes` of FURB185 / FURB188): `id(node)` of nodes of the tree being visited, never cleared,
  * `visitor.takes_settings` — `@cache` of a pure function of the check function,
  * `sys.path` (`loader.get_modules` appends the working directory), the interpreter's recursion limit (no
    statement of refurb sets it today), every other module-level table of refurb/checks/** (never stored into).

The list, the order of the accesses inside a run and the kind of key of every keyed table are REGENERATED from
/repo by harness/extract_c11.py into Generated/Globals.lean; nothing below is specific to today's list.

The model is a small machine.  A component is a finite map `Key → Option Int` (`Map`); a scalar is the map's one
`cell`.  A run executes a `Script` — main.py's statements in order — of three kinds of instruction:

  `op c o`     an unconditional access `o` of component `c` made by `run_refurb` itself,
  `free al`    a phase (process_options, build, load_checks, the visiting loop, the `# noqa` filter) in which the
               run may perform ANY sequence of the accesses listed in `al`, with keys of its choosing, ADAPTIVELY:
               what it does next may depend on everything it has read so far (`Prog`, a resumption),
  `defer c o`  registers an access for the way out (`finally`), executed also when the run ends early.

A run may end after any instruction (`Input.stop`: SystemExit of process_options, CompileError of build, an
exception in a check or in `load_checks`, IndexError of the `# noqa` lookup); a phase that is cut short is a
shorter `Prog`.  Keys: `stable n` means the same thing in every run (a path, a (line, column) pair, a function of an
imported module); `live run n` is `id()` of an object created by run number `run` of this process.  That two
objects of DIFFERENT runs never share a key is the assumption `FreshIds` (CPython may reuse the address of a
collected object); it is built into `resolve` and named wherever a theorem depends on it.

What a run READS from the globals (`get`, `memo`) is its observation trace; its report is a function of its own input
and of that trace, since — by the translator's scan — it reads no other process-global state of refurb.

`classify` assigns a `Discipline` to a component from the script alone; Props/C11 `history_independent` proves
that the classification is sound: no `leaks` ⇒ the trace of a run does not depend on the runs before it.

Part 2 (`RefurbVerif.Run`, at the end): the whole-run model (Model/Run.lean) over a file list split into groups.
-/
import RefurbVerif.Model.Run

namespace RefurbVerif.History

/-- how a process-global component is kept from carrying one run into the next -/
inductive Discipline where
  /-- the first access of every run empties it (`get_source_lines.cache_clear()`) -/
  | resetAtRunStart
  /-- a single cell; the first access of every run stores a value that does not depend on the old one
      (or every access does) -/
  | overwrittenBeforeRead
  /-- no statement reachable from a run stores into it -/
  | constant
  /-- every key is `id()` of an object of the current run: entries of earlier runs are never looked up again
      (unless CPython reuses an address: `FreshIds`) -/
  | keyedByLiveNodeIdentity
  /-- none of the above: an earlier run can change what a later run reads -/
  | leaks
  deriving DecidableEq, Repr

inductive KeyKind where
  /-- the component is one cell (a module attribute, an interpreter setting) -/
  | cell
  /-- a value that denotes the same thing in every run: a path, a position, a module-level function -/
  | stable
  /-- `id()` of an object the current run created -/
  | liveNode
  deriving DecidableEq, Repr

inductive Key where
  | cell
  | stable (n : Nat)
  | live (run n : Nat)
  deriving DecidableEq, Repr

/-- the concrete key of an access made by run number `run` (`FreshIds`: the run number is part of a live key) -/
def resolve (run : Nat) : KeyKind → Nat → Key
  | .cell, _ => .cell
  | .stable, n => .stable n
  | .liveNode, n => .live run n

/-- one access of a component -/
inductive Op where
  /-- `.cache_clear()`, `.clear()`, `name = set()` -/
  | clear
  /-- store the value this run computes for the key (`tbl[k] = v`, `s.add(k)`, `mod.ATTR = v`) -/
  | put (k : KeyKind)
  /-- store a literal into the cell (`sys.set_int_max_str_digits(0)`) -/
  | putConst (v : Int)
  /-- change the cell relative to its current value (`sys.setrecursionlimit(sys.getrecursionlimit() + d)`) -/
  | bump (d : Int)
  /-- read (`k in s`, `tbl.get(k)`, the value of a module attribute) -/
  | get (k : KeyKind)
  /-- a `@cache` lookup: the stored value if there is one, otherwise compute, store and use -/
  | memo (k : KeyKind)
  /-- store this run's value into the cell and read it back, in one function activation
      (`sys.path.append(cwd)` as the first statement of the function that then imports) -/
  | refresh
  deriving DecidableEq, Repr

abbrev Map := Key → Option Int

def Map.empty : Map := fun _ => none

def Map.set (m : Map) (k : Key) (v : Int) : Map := fun k' => if k' = k then some v else m k'

/-- one access by run number `run`; `val n` is what this run computes for key number `n` (the file's lines now, this
    run's builtins tree, `1` for set membership).  Result: the new map and what was read, if the access reads. -/
def applyOp (run : Nat) (val : Nat → Int) (o : Op) (n : Nat) (m : Map) : Map × Option (Option Int) :=
  match o with
  | .clear => (Map.empty, none)
  | .put k => (m.set (resolve run k n) (val n), none)
  | .putConst v => (m.set .cell v, none)
  | .bump d => (m.set .cell ((m .cell).getD 0 + d), none)
  | .get k => (m, some (m (resolve run k n)))
  | .memo k =>
    match m (resolve run k n) with
    | some v => (m, some (some v))
    | none => (m.set (resolve run k n) (val n), some (some (val n)))
  | .refresh => (m.set .cell (val n), some (some (val n)))

inductive Instr where
  | op (c : Nat) (o : Op)
  | free (allowed : List (Nat × Op))
  | defer (c : Nat) (o : Op)
  deriving DecidableEq, Repr

abbrev Script := List Instr

/-- what a run does inside a `free` phase: request an access (component, access, key number) and continue with
    what was read (`none` for an access that reads nothing) -/
inductive Prog where
  | done
  | act (c : Nat) (o : Op) (n : Nat) (k : Option Int → Prog)

/-- one call of `run_refurb`, as far as the globals are concerned -/
structure Input where
  /-- component, key number ↦ the value this run would compute and store -/
  val : Nat → Nat → Int
  /-- the behaviour in the phase at instruction index `i` -/
  prog : Nat → Prog
  /-- the run ends (returns early or raises) after this many instructions; `none`: it runs to the end -/
  stop : Option Nat := none

/-- the process-global state between two runs; `runs` counts the runs so far (it only numbers live keys) -/
structure Globals where
  runs : Nat
  g : Nat → Map

/-- a fresh interpreter -/
def init : Globals := { runs := 0, g := fun _ => Map.empty }

/-- component maps and the observations so far -/
abbrev St := (Nat → Map) × List (Option Int)

def setComp (g : Nat → Map) (c : Nat) (m : Map) : Nat → Map := fun c' => if c' = c then m else g c'

/-- perform one access on component `c`; also returns what the run sees of it -/
def perform (run : Nat) (val : Nat → Nat → Int) (c : Nat) (o : Op) (n : Nat) (σ : St) : St × Option Int :=
  let r := applyOp run (val c) o n (σ.1 c)
  ((setComp σ.1 c r.1, match r.2 with | some v => σ.2 ++ [v] | none => σ.2), r.2.getD none)

/-- a phase: only accesses the script lists are carried out (a request outside the list is answered `none`) -/
def runProg (allowed : List (Nat × Op)) (run : Nat) (val : Nat → Nat → Int) : Prog → St → St
  | .done, σ => σ
  | .act c o n k, σ =>
    if allowed.contains (c, o) then
      let r := perform run val c o n σ
      runProg allowed run val (k r.2) r.1
    else runProg allowed run val (k none) σ

/-- state of a run: the maps + observations, and the registered `finally` accesses (most recent first) -/
abbrev Ex := St × List (Nat × Op)

def execInstr (run : Nat) (val : Nat → Nat → Int) (prog : Nat → Prog) (idx : Nat) : Instr → Ex → Ex
  | .op c o, x => ((perform run val c o 0 x.1).1, x.2)
  | .free al, x => (runProg al run val (prog idx) x.1, x.2)
  | .defer c o, x => (x.1, (c, o) :: x.2)

def execFrom (run : Nat) (val : Nat → Nat → Int) (prog : Nat → Prog) : Nat → Script → Ex → Ex
  | _, [], x => x
  | idx, ins :: rest, x => execFrom run val prog (idx + 1) rest (execInstr run val prog idx ins x)

def runDefers (run : Nat) (val : Nat → Nat → Int) : List (Nat × Op) → St → St
  | [], σ => σ
  | (c, o) :: rest, σ => runDefers run val rest (perform run val c o 0 σ).1

/-- the instructions a run gets to -/
def reached (T : Script) (i : Input) : Script :=
  match i.stop with
  | none => T
  | some k => T.take k

/-- **one run inside a process**: the globals are threaded through main.py's statements in order; the result is
    everything the run read from them, and the globals it leaves behind -/
def runIn (T : Script) (G : Globals) (i : Input) : List (Option Int) × Globals :=
  let x := execFrom G.runs i.val i.prog 0 (reached T i) ((G.g, []), [])
  let σ := runDefers G.runs i.val x.2 x.1
  (σ.2, { runs := G.runs + 1, g := σ.1 })

/-- the globals after a sequence of earlier runs -/
def after (T : Script) (G : Globals) (hist : List Input) : Globals :=
  hist.foldl (fun G i => (runIn T G i).2) G

/-! ### the classification -/

/-- the accesses of component `c` an instruction can make -/
def instrOps (c : Nat) : Instr → List Op
  | .op c' o => if c' = c then [o] else []
  | .free al => (al.filter (fun p => p.1 == c)).map (·.2)
  | .defer c' o => if c' = c then [o] else []

def opsOf (c : Nat) (T : Script) : List Op := T.flatMap (instrOps c)

def mentions (c : Nat) (ins : Instr) : Bool := !(instrOps c ins).isEmpty

/-- the first instruction of a run that touches `c` -/
def firstTouch (c : Nat) (T : Script) : Option Instr := T.find? (mentions c)

def isGet : Op → Bool
  | .get _ => true
  | _ => false

def kindOf : Op → Option KeyKind
  | .clear => none
  | .put k => some k
  | .putConst _ => some .cell
  | .bump _ => some .cell
  | .get k => some k
  | .memo k => some k
  | .refresh => some .cell

def isCellOp (o : Op) : Bool := kindOf o == some .cell
def isLiveOp (o : Op) : Bool := kindOf o == some .liveNode

/-- stores into the cell without reading it -/
def isCellWrite : Op → Bool
  | .put .cell => true
  | .putConst _ => true
  | .refresh => true
  | _ => false

/-- the first access of a run is the unconditional `clear` -/
def isClearFirst (c : Nat) (T : Script) : Bool :=
  match firstTouch c T with
  | some (.op _ .clear) => true
  | _ => false

/-- the first access of a run is an unconditional store into the cell -/
def isWriteFirst (c : Nat) (T : Script) : Bool :=
  match firstTouch c T with
  | some (.op _ o) => isCellWrite o
  | _ => false

/-- the discipline of a component, read off the script -/
def classify (T : Script) (c : Nat) : Discipline :=
  if (opsOf c T).all isGet then .constant
  else if isClearFirst c T then .resetAtRunStart
  else if (isWriteFirst c T && (opsOf c T).all isCellOp) || (opsOf c T).all isCellWrite then .overwrittenBeforeRead
  else if (opsOf c T).all isLiveOp then .keyedByLiveNodeIdentity
  else .leaks

def instrComps : Instr → List Nat
  | .op c _ => [c]
  | .free al => al.map (·.1)
  | .defer c _ => [c]

/-- the components a script touches -/
def comps (T : Script) : List Nat := T.flatMap instrComps

/-- no component of the script is classified `leaks` -/
def noLeaks (T : Script) : Bool := (comps T).all (fun c => classify T c != .leaks)

/-- a generated table: names of the components (index = component number), where each lives, and the script -/
structure GlobalsTable where
  names : List String
  script : Script

def GlobalsTable.disciplines (t : GlobalsTable) : List (String × Discipline) :=
  (List.range t.names.length).map (fun c => (t.names.getD c "", classify t.script c))

end RefurbVerif.History

/-! ## Regrouping the whole run -/

namespace RefurbVerif.Run
open RefurbVerif

/-- the same run (settings, checks, environment) over another list of files -/
def RunInput.withFiles (i : RunInput) (files : List FileIn) : RunInput := { i with mypy := .built files }

/-- `run_refurb` for every group on its own; `none` if one of the runs raises in the `# noqa` lookup -/
def reportsOf (i : RunInput) (s : Settings) : List (List FileIn) → Option (List (List Item))
  | [] => some []
  | g :: gs =>
    match runRefurb (i.withFiles g) s, reportsOf i s gs with
    | some r, some rs => some (r :: rs)
    | _, _ => none

/-- k-way merge of sorted reports: earlier groups win ties (core `List.merge` is left-biased) -/
def mergeAll (by_ : SortBy) : List (List Item) → List Item
  | [] => []
  | r :: rs => List.merge r (mergeAll by_ rs) (leItem by_)

/-- the item is a diagnostic about this file -/
def Item.isAbout (path : Str) : Item → Bool
  | .diag d => d.file == path
  | .text _ => false

/-- is the list in the documented order? (executable form of `Sorted`) -/
def isSortedB (by_ : SortBy) : List Item → Bool
  | [] => true
  | a :: l => l.all (fun b => leItem by_ a b) && isSortedB by_ l

end RefurbVerif.Run
