/-
A small Python value semantics for C01 (rewrites preserve behaviour).

Universe: None, bool, int, float (abstracted), str, and flat lists / tuples of those scalars.
Floats are abstracted to three kinds — NaN, -0.0 and integer-valued floats — the points where
Python's comparison / truthiness / identity semantics are irregular.  Operands of a rule are
variables bound to values: side-effect free and never raising, as the property presupposes.
`in` is equality-based: Python tests identity first, which differs only for NaN (documented
as a finding); the theorems that involve `in` therefore carry a NaN-freeness guard.
Text: `str()` / f-strings of the scalars (a whole float only below 1e16, where `repr` switches to exponent
notation; `str()` of a container — the `repr` of its items — is not modelled and raises), `bin`/`oct`/`hex` and
the `b`/`o`/`x` format codes of ints, `startswith`/`endswith` (str or tuple argument), `removeprefix`/
`removesuffix`, `count`, one-sided slices with Python's clamping of negative / too large bounds.
-/
namespace RefurbVerif.Py

inductive Flt where
  | nan
  | negZero
  | whole (z : Int)      -- an integer-valued float; `whole 0` is +0.0
  deriving DecidableEq, Repr

inductive Scalar where
  | none
  | bool (b : Bool)
  | int (i : Int)
  | flt (f : Flt)
  | str (s : List Char)
  deriving DecidableEq, Repr

inductive Val where
  | sc (s : Scalar)
  | list (xs : List Scalar)
  | tuple (xs : List Scalar)
  deriving DecidableEq, Repr

inductive Err where
  | typeError | valueError | indexError | nameError
  deriving DecidableEq, Repr

/-- numeric value of a scalar, if it is a number that is not NaN (bool ⊂ int ⊂ float numerically) -/
def Scalar.num? : Scalar → Option Int
  | .bool b => some (if b then 1 else 0)
  | .int i => some i
  | .flt (.whole z) => some z
  | .flt .negZero => some 0
  | _ => Option.none

def Scalar.isNaN : Scalar → Bool
  | .flt .nan => true
  | _ => false

/-- Python `==` on scalars: numbers compare by value across bool/int/float, NaN equals nothing -/
def sEq (a b : Scalar) : Bool :=
  match a.num?, b.num? with
  | some x, some y => x == y
  | _, _ =>
    match a, b with
    | .none, .none => true
    | .str s, .str t => s == t
    | _, _ => false

def listEq : List Scalar → List Scalar → Bool
  | [], [] => true
  | a :: as, b :: bs => sEq a b && listEq as bs
  | _, _ => false

/-- Python `==` -/
def pyEq : Val → Val → Bool
  | .sc a, .sc b => sEq a b
  | .list a, .list b => listEq a b
  | .tuple a, .tuple b => listEq a b
  | _, _ => false

def Scalar.truthy : Scalar → Bool
  | .none => false
  | .bool b => b
  | .int i => i != 0
  | .flt .nan => true
  | .flt .negZero => false
  | .flt (.whole z) => z != 0
  | .str s => !s.isEmpty

def truthy : Val → Bool
  | .sc s => s.truthy
  | .list xs => !xs.isEmpty
  | .tuple xs => !xs.isEmpty

def vBool (b : Bool) : Val := .sc (.bool b)
def vInt (i : Int) : Val := .sc (.int i)
def vNone : Val := .sc .none

/-- lexicographic `<` on strings by code point -/
def strLt : List Char → List Char → Bool
  | [], [] => false
  | [], _ :: _ => true
  | _ :: _, [] => false
  | a :: as, b :: bs => if a < b then true else if b < a then false else strLt as bs

/-- Python `<` on scalars: numbers by value (NaN: always False), strings lexicographically, else TypeError -/
def sLt (a b : Scalar) : Except Err Bool :=
  match a, b with
  | .str s, .str t => .ok (strLt s t)
  | _, _ =>
    match a.num?, b.num? with
    | some x, some y => .ok (decide (x < y))
    | _, _ =>
      -- a NaN on either side of a numeric comparison is False, not an error
      if (a.isNaN && (b.num?.isSome || b.isNaN)) || (b.isNaN && a.num?.isSome) then .ok false
      else .error .typeError

def pyLt : Val → Val → Except Err Bool
  | .sc a, .sc b => sLt a b
  | _, _ => .error .typeError   -- container ordering is not needed by the rules modelled here

def isPrefixB : List Char → List Char → Bool
  | [], _ => true
  | _ :: _, [] => false
  | a :: as, b :: bs => a == b && isPrefixB as bs

/-- substring test (`s in t` for strings) -/
def isInfixB (s : List Char) : List Char → Bool
  | [] => s.isEmpty
  | c :: t => isPrefixB s (c :: t) || isInfixB s t

/-- `x in container` (equality-based; see the header for NaN) -/
def pyIn (x : Val) : Val → Except Err Bool
  | .list ys => .ok (match x with | .sc a => ys.any (sEq a) | _ => false)
  | .tuple ys => .ok (match x with | .sc a => ys.any (sEq a) | _ => false)
  | .sc (.str t) =>
    match x with
    | .sc (.str s) => .ok (isInfixB s t)
    | _ => .error .typeError
  | _ => .error .typeError

def pyLen : Val → Except Err Int
  | .list xs => .ok xs.length
  | .tuple xs => .ok xs.length
  | .sc (.str s) => .ok s.length
  | _ => .error .typeError

/-- `min`/`max` of two operands: the FIRST one wins ties (Python's rule) -/
def pyMin2 (a b : Val) : Except Err Val := do
  let lt ← pyLt b a
  .ok (if lt then b else a)
def pyMax2 (a b : Val) : Except Err Val := do
  let gt ← pyLt a b
  .ok (if gt then b else a)

/-- the first minimal element of a non-empty list of scalars (`min(xs)`), `ValueError` when empty -/
def minOfAux (m : Scalar) : List Scalar → Except Err Scalar
  | [] => .ok m
  | x :: xs => do
    let lt ← sLt x m
    minOfAux (if lt then x else m) xs
def minOf : List Scalar → Except Err Scalar
  | [] => .error .valueError
  | x :: xs => minOfAux x xs

/-- insertion of `a` into a sorted list, before the first element it is strictly smaller than…
    stable: `sorted()` keeps equal elements in input order -/
def insSorted (a : Scalar) : List Scalar → Except Err (List Scalar)
  | [] => .ok [a]
  | b :: l => do
    let lt ← sLt b a
    if lt then do
      let r ← insSorted a l
      .ok (b :: r)
    else .ok (a :: b :: l)
def pySorted : List Scalar → Except Err (List Scalar)
  | [] => .ok []
  | a :: l => do
    let r ← pySorted l
    insSorted a r


/-- `max` of a non-empty list: the FIRST maximal element (CPython replaces the candidate only when `item > candidate`) -/
def maxOfAux (m : Scalar) : List Scalar → Except Err Scalar
  | [] => .ok m
  | x :: xs => do
    let gt ← sLt m x
    maxOfAux (if gt then x else m) xs
def maxOf : List Scalar → Except Err Scalar
  | [] => .error .valueError
  | x :: xs => maxOfAux x xs

/-- `sorted(xs, reverse=True)`: CPython reverses, sorts stably, reverses — equal elements keep their input order -/
def pySortedRev (xs : List Scalar) : Except Err (List Scalar) := do
  let r ← pySorted xs.reverse
  .ok r.reverse

/-! ### text -/

def isSuffixB (p s : List Char) : Bool := isPrefixB p.reverse s.reverse

/-- the tuple form of `startswith`/`endswith`: items are tested in order, a non-str item raises when it is reached -/
def affixAny (test : List Char → Bool) : List Scalar → Except Err Bool
  | [] => .ok false
  | .str p :: rest => if test p then .ok true else affixAny test rest
  | _ :: _ => .error .typeError

/-- `x.startswith(arg)` (`suffix = false`) / `x.endswith(arg)`: `x` a str (anything else has no such method), `arg` a str
    or a tuple of strs -/
def pyAffix (suffix : Bool) (x arg : Val) : Except Err Bool :=
  match x with
  | .sc (.str s) =>
    match arg with
    | .sc (.str p) => .ok (if suffix then isSuffixB p s else isPrefixB p s)
    | .tuple ps => affixAny (fun p => if suffix then isSuffixB p s else isPrefixB p s) ps
    | _ => .error .typeError
  | _ => .error .typeError

/-- `x.removeprefix(p)` -/
def pyRemovePrefix (x p : Val) : Except Err Val :=
  match x, p with
  | .sc (.str s), .sc (.str q) => .ok (.sc (.str (if isPrefixB q s then s.drop q.length else s)))
  | _, _ => .error .typeError
/-- `x.removesuffix(p)`: CPython removes only a NON-EMPTY suffix -/
def pyRemoveSuffix (x p : Val) : Except Err Val :=
  match x, p with
  | .sc (.str s), .sc (.str q) => .ok (.sc (.str (if isSuffixB q s && !q.isEmpty then s.take (s.length - q.length) else s)))
  | _, _ => .error .typeError

/-- a slice bound clamped as CPython does: negative counts from the end (not below 0), too large is the length -/
def clampIdx (n : Nat) (i : Int) : Nat := if i < 0 then (i + n).toNat else min i.toNat n

/-- the value of a slice bound: an int (a bool is one), or None = absent -/
def sliceBound : Val → Except Err (Option Int)
  | .sc (.int i) => .ok (some i)
  | .sc (.bool b) => .ok (some (if b then 1 else 0))
  | .sc .none => .ok Option.none
  | _ => .error .typeError

def cutList {α : Type} (lo hi : Option Int) (l : List α) : List α :=
  let n := l.length
  let a := match lo with | some i => clampIdx n i | Option.none => 0
  let b := match hi with | some i => clampIdx n i | Option.none => n
  (l.drop a).take (b - a)

/-- `v[lo:hi]` (step 1) -/
def pySlice (v : Val) (lo hi : Option Int) : Except Err Val :=
  match v with
  | .list xs => .ok (.list (cutList lo hi xs))
  | .tuple xs => .ok (.tuple (cutList lo hi xs))
  | .sc (.str s) => .ok (.sc (.str (cutList lo hi s)))
  | _ => .error .typeError

/-- unary minus -/
def pyNeg : Val → Except Err Val
  | .sc (.int i) => .ok (.sc (.int (-i)))
  | .sc (.bool b) => .ok (.sc (.int (if b then -1 else 0)))
  | .sc (.flt .nan) => .ok (.sc (.flt .nan))
  | .sc (.flt .negZero) => .ok (.sc (.flt (.whole 0)))
  | .sc (.flt (.whole z)) => .ok (.sc (.flt (if z = 0 then .negZero else .whole (-z))))
  | _ => .error .typeError

/-- non-overlapping occurrences of a NON-EMPTY `sub`, scanning left to right (`skip` = characters of the last match
    still to be passed over) -/
def countFrom (sub : List Char) : Nat → List Char → Nat
  | _, [] => 0
  | k + 1, _ :: t => countFrom sub k t
  | 0, c :: t => if isPrefixB sub (c :: t) then 1 + countFrom sub (sub.length - 1) t else countFrom sub 0 t
/-- `s.count(sub)` on strings (the empty string occurs `len(s) + 1` times) -/
def strCount (s sub : List Char) : Nat := if sub.isEmpty then s.length + 1 else countFrom sub 0 s

/-- `x.count(y)`: substring count on strings, number of `==` items on lists / tuples -/
def pyCount (x y : Val) : Except Err Int :=
  match x with
  | .sc (.str s) => match y with | .sc (.str t) => .ok (strCount s t) | _ => .error .typeError
  | .list xs => .ok (match y with | .sc b => (xs.filter (fun a => sEq a b)).length | _ => 0)
  | .tuple xs => .ok (match y with | .sc b => (xs.filter (fun a => sEq a b)).length | _ => 0)
  | _ => .error .typeError

inductive Radix where
  | bin | oct | hex
  deriving DecidableEq, Repr

def Radix.base : Radix → Nat | .bin => 2 | .oct => 8 | .hex => 16
def Radix.letter : Radix → Char | .bin => 'b' | .oct => 'o' | .hex => 'x'

/-- an int in a radix: sign, optional `0b`/`0o`/`0x`, digits of the absolute value (lower case).
    `alt = true` is `bin(i)`/`oct(i)`/`hex(i)` and the `#b`/`#o`/`#x` format codes; `alt = false` the `b`/`o`/`x` codes -/
def fmtRadix (r : Radix) (alt : Bool) (i : Int) : List Char :=
  (if i < 0 then ['-'] else []) ++ (if alt then ['0', r.letter] else []) ++ Nat.toDigits r.base i.natAbs

/-- the operand of `bin()`/`hex()`/… and of an integer format code: an int (a bool is one) -/
def intLike : Val → Except Err Int
  | .sc (.int i) => .ok i
  | .sc (.bool b) => .ok (if b then 1 else 0)
  | _ => .error .typeError

/-- number of one bits of a natural number (`fuel` ≥ the number suffices) -/
def popAux : Nat → Nat → Nat
  | 0, _ => 0
  | f + 1, n => if n = 0 then 0 else n % 2 + popAux f (n / 2)
/-- `int.bit_count()`: the number of ones in the binary representation of the ABSOLUTE value -/
def popcount (n : Nat) : Nat := popAux n n

/-- `str(s)` = `format(s, "")` = what an f-string `{s}` inserts -/
def pyStr : Scalar → Except Err (List Char)
  | .none => .ok "None".toList
  | .bool b => .ok (if b then "True".toList else "False".toList)
  | .int i => .ok (toString i).toList
  | .str s => .ok s
  | .flt .nan => .ok "nan".toList
  | .flt .negZero => .ok "-0.0".toList
  | .flt (.whole z) =>
    if z.natAbs < 10000000000000000 then .ok ((toString z).toList ++ ".0".toList)
    else .error .valueError     -- NOT MODELLED (repr switches to exponent notation at 1e16); Python does not raise here
def valStr : Val → Except Err Val
  | .sc s => do .ok (.sc (.str (← pyStr s)))
  | _ => .error .typeError      -- NOT MODELLED: str() of a container is the repr of its items

inductive TypeName where
  | noneType | bool | int | float | str | list | tuple
  deriving DecidableEq, Repr

def typeOf : Val → TypeName
  | .sc .none => .noneType
  | .sc (.bool _) => .bool
  | .sc (.int _) => .int
  | .sc (.flt _) => .float
  | .sc (.str _) => .str
  | .list _ => .list
  | .tuple _ => .tuple

/-- `isinstance(v, T)` for a builtin class (bool is a subclass of int) -/
def isInstance (v : Val) (t : TypeName) : Bool :=
  typeOf v == t || (t == .int && typeOf v == .bool)

/-- `T()`: what the constructor of a builtin class returns without arguments (`type(None)()` is None) -/
def emptyOf : TypeName → Val
  | .noneType => .sc .none
  | .bool => .sc (.bool false)
  | .int => .sc (.int 0)
  | .float => .sc (.flt (.whole 0))
  | .str => .sc (.str [])
  | .list => .list []
  | .tuple => .tuple []

/-- the items of a sequence (`reversed()` needs one; strings yield their characters) -/
def seqElems : Val → Except Err (List Scalar)
  | .list xs => .ok xs
  | .tuple xs => .ok xs
  | .sc (.str s) => .ok (s.map (fun c => Scalar.str [c]))
  | _ => .error .typeError

/-! ### Expressions -/

inductive PyExpr where
  | var (n : String)
  | lit (v : Val)
  | eq (a b : PyExpr) | ne (a b : PyExpr)
  | lt (a b : PyExpr) | le (a b : PyExpr) | gt (a b : PyExpr) | ge (a b : PyExpr)
  | is_ (a b : PyExpr) | isNot (a b : PyExpr)
  | in_ (a b : PyExpr) | notIn (a b : PyExpr)
  | and_ (a b : PyExpr) | or_ (a b : PyExpr) | not_ (a : PyExpr)
  | ifExp (t c e : PyExpr)               -- `t if c else e`
  | chainEq (a b c : PyExpr)             -- `a == b == c`
  | tup1 (a : PyExpr) | tup2 (a b : PyExpr) | list1 (a : PyExpr) | list2 (a b : PyExpr)
  | len (a : PyExpr) | boolOf (a : PyExpr) | intOf (a : PyExpr) | strOf (a : PyExpr)
  | listOf (a : PyExpr) | tupleOf (a : PyExpr) | copy (a : PyExpr)
  | min2 (a b : PyExpr) | max2 (a b : PyExpr)
  | minL (a : PyExpr) | maxL (a : PyExpr) | sorted (a : PyExpr)
  | index0 (a : PyExpr) | indexLast (a : PyExpr) | sliceAll (a : PyExpr)
  | isinstance (a : PyExpr) (t : TypeName) | typeIsNone (a : PyExpr)   -- `type(a) is type(None)`
  | typeEqNone (a : PyExpr) | typeNeNone (a : PyExpr) | typeIsNotNone (a : PyExpr)   -- `type(a) == / != / is not type(None)`
  | isinstance2 (a : PyExpr) (t u : TypeName)                        -- `isinstance(a, t | u)`
  | call0 (t : TypeName)                                             -- `t()`: the constructor without arguments
  | tup3 (a b c : PyExpr) | list3 (a b c : PyExpr)
  | sliceFrom (a i : PyExpr) | sliceTo (a i : PyExpr) | sliceRev (a : PyExpr)   -- `a[i:]`, `a[:i]`, `a[::-1]`
  | neg (a : PyExpr)
  | startswith (a b : PyExpr) | endswith (a b : PyExpr) | removeprefix (a b : PyExpr) | removesuffix (a b : PyExpr)
  | sortedRev (a : PyExpr) | listReversed (a : PyExpr)               -- `sorted(a, reverse=True)`, `list(reversed(a))`
  | radixOf (r : Radix) (a : PyExpr)                                 -- `bin(a)` / `oct(a)` / `hex(a)`
  | fmtRadix (r : Radix) (alt : Bool) (a : PyExpr)                   -- `f"{a:#b}"` (alt) / `f"{a:b}"`
  | fstr (a : PyExpr)                                                -- `f"{a}"`
  | count (a b : PyExpr) | bitCount (a : PyExpr)                     -- `a.count(b)`, `a.bit_count()`
  deriving Repr

abbrev Env := String → Option Val

/-- `is`: identity of the singletons None/True/False; other objects are never the same object as a
    literal.  Only used with a None/True/False operand on one side. -/
def pyIs (a b : Val) : Bool :=
  match a, b with
  | .sc .none, .sc .none => true
  | .sc (.bool x), .sc (.bool y) => x == y
  | _, _ => false

def scalarOf : Val → Except Err Scalar
  | .sc s => .ok s
  | _ => .error .typeError

def cmpLe (a b : Val) : Except Err Bool := do
  -- a <= b  ≡  a < b or a == b (for the total orders modelled; NaN gives False)
  let lt ← pyLt a b
  .ok (lt || (pyEq a b && !(match a with | .sc s => s.isNaN | _ => false)))

def eval (σ : Env) : PyExpr → Except Err Val
  | .var n => match σ n with | some v => .ok v | Option.none => .error .nameError
  | .lit v => .ok v
  | .eq a b => do .ok (vBool (pyEq (← eval σ a) (← eval σ b)))
  | .ne a b => do .ok (vBool (!pyEq (← eval σ a) (← eval σ b)))
  | .lt a b => do .ok (vBool (← pyLt (← eval σ a) (← eval σ b)))
  | .gt a b => do
      let x ← eval σ a
      let y ← eval σ b
      .ok (vBool (← pyLt y x))
  | .le a b => do .ok (vBool (← cmpLe (← eval σ a) (← eval σ b)))
  | .ge a b => do
      let x ← eval σ a
      let y ← eval σ b
      .ok (vBool (← cmpLe y x))
  | .is_ a b => do .ok (vBool (pyIs (← eval σ a) (← eval σ b)))
  | .isNot a b => do .ok (vBool (!pyIs (← eval σ a) (← eval σ b)))
  | .in_ a b => do .ok (vBool (← pyIn (← eval σ a) (← eval σ b)))
  | .notIn a b => do .ok (vBool (!(← pyIn (← eval σ a) (← eval σ b))))
  | .and_ a b => do
      let x ← eval σ a
      if truthy x then eval σ b else .ok x
  | .or_ a b => do
      let x ← eval σ a
      if truthy x then .ok x else eval σ b
  | .not_ a => do .ok (vBool (!truthy (← eval σ a)))
  | .ifExp t c e => do
      let cv ← eval σ c
      if truthy cv then eval σ t else eval σ e
  | .chainEq a b c => do
      let x ← eval σ a
      let y ← eval σ b
      if pyEq x y then do
        let z ← eval σ c
        .ok (vBool (pyEq y z))
      else .ok (vBool false)
  | .tup1 a => do .ok (.tuple [← scalarOf (← eval σ a)])
  | .tup2 a b => do .ok (.tuple [← scalarOf (← eval σ a), ← scalarOf (← eval σ b)])
  | .list1 a => do .ok (.list [← scalarOf (← eval σ a)])
  | .list2 a b => do .ok (.list [← scalarOf (← eval σ a), ← scalarOf (← eval σ b)])
  | .len a => do .ok (vInt (← pyLen (← eval σ a)))
  | .boolOf a => do .ok (vBool (truthy (← eval σ a)))
  | .intOf a => do
      match ← eval σ a with
      | .sc (.int i) => .ok (vInt i)
      | .sc (.bool b) => .ok (vInt (if b then 1 else 0))
      | .sc (.flt (.whole z)) => .ok (vInt z)
      | .sc (.flt .negZero) => .ok (vInt 0)
      | .sc (.flt .nan) => .error .valueError
      | _ => .error .typeError      -- int("…") parsing is not modelled
  | .strOf a => do valStr (← eval σ a)
  | .listOf a => do
      match ← eval σ a with
      | .list xs => .ok (.list xs)
      | .tuple xs => .ok (.list xs)
      | _ => .error .typeError
  | .tupleOf a => do
      match ← eval σ a with
      | .list xs => .ok (.tuple xs)
      | .tuple xs => .ok (.tuple xs)
      | _ => .error .typeError
  | .copy a => do
      match ← eval σ a with
      | .list xs => .ok (.list xs)
      | _ => .error .typeError      -- tuples and scalars have no .copy()
  | .min2 a b => do pyMin2 (← eval σ a) (← eval σ b)
  | .max2 a b => do pyMax2 (← eval σ a) (← eval σ b)
  | .minL a => do
      match ← eval σ a with
      | .list xs => do .ok (.sc (← minOf xs))
      | .tuple xs => do .ok (.sc (← minOf xs))
      | _ => .error .typeError
  | .maxL a => do
      match ← eval σ a with
      | .list xs => do .ok (.sc (← maxOf xs))
      | .tuple xs => do .ok (.sc (← maxOf xs))
      | _ => .error .typeError
  | .sorted a => do
      match ← eval σ a with
      | .list xs => do .ok (.list (← pySorted xs))
      | .tuple xs => do .ok (.list (← pySorted xs))
      | _ => .error .typeError
  | .index0 a => do
      match ← eval σ a with
      | .list (x :: _) => .ok (.sc x)
      | .tuple (x :: _) => .ok (.sc x)
      | .list [] => .error .indexError
      | .tuple [] => .error .indexError
      | _ => .error .typeError
  | .indexLast a => do
      match ← eval σ a with
      | .list xs => match xs.getLast? with | some x => .ok (.sc x) | Option.none => .error .indexError
      | .tuple xs => match xs.getLast? with | some x => .ok (.sc x) | Option.none => .error .indexError
      | _ => .error .typeError
  | .sliceAll a => do
      match ← eval σ a with
      | .list xs => .ok (.list xs)
      | .tuple xs => .ok (.tuple xs)
      | .sc (.str s) => .ok (.sc (.str s))
      | _ => .error .typeError
  | .isinstance a t => do .ok (vBool (isInstance (← eval σ a) t))
  | .typeIsNone a => do .ok (vBool (typeOf (← eval σ a) == .noneType))
  | .typeEqNone a => do .ok (vBool (typeOf (← eval σ a) == .noneType))
  | .typeNeNone a => do .ok (vBool (typeOf (← eval σ a) != .noneType))
  | .typeIsNotNone a => do .ok (vBool (typeOf (← eval σ a) != .noneType))
  | .isinstance2 a t u => do
      let v ← eval σ a
      .ok (vBool (isInstance v t || isInstance v u))
  | .call0 t => .ok (emptyOf t)
  | .tup3 a b c => do .ok (.tuple [← scalarOf (← eval σ a), ← scalarOf (← eval σ b), ← scalarOf (← eval σ c)])
  | .list3 a b c => do .ok (.list [← scalarOf (← eval σ a), ← scalarOf (← eval σ b), ← scalarOf (← eval σ c)])
  | .sliceFrom a i => do
      let v ← eval σ a
      let lo ← sliceBound (← eval σ i)
      pySlice v lo Option.none
  | .sliceTo a i => do
      let v ← eval σ a
      let hi ← sliceBound (← eval σ i)
      pySlice v Option.none hi
  | .sliceRev a => do
      match ← eval σ a with
      | .list xs => .ok (.list xs.reverse)
      | .tuple xs => .ok (.tuple xs.reverse)
      | .sc (.str s) => .ok (.sc (.str s.reverse))
      | _ => .error .typeError
  | .neg a => do pyNeg (← eval σ a)
  | .startswith a b => do .ok (vBool (← pyAffix false (← eval σ a) (← eval σ b)))
  | .endswith a b => do .ok (vBool (← pyAffix true (← eval σ a) (← eval σ b)))
  | .removeprefix a b => do pyRemovePrefix (← eval σ a) (← eval σ b)
  | .removesuffix a b => do pyRemoveSuffix (← eval σ a) (← eval σ b)
  | .sortedRev a => do
      match ← eval σ a with
      | .list xs => do .ok (.list (← pySortedRev xs))
      | .tuple xs => do .ok (.list (← pySortedRev xs))
      | _ => .error .typeError
  | .listReversed a => do
      let xs ← seqElems (← eval σ a)
      .ok (.list xs.reverse)
  | .radixOf r a => do .ok (.sc (.str (fmtRadix r true (← intLike (← eval σ a)))))
  | .fmtRadix r alt a => do .ok (.sc (.str (fmtRadix r alt (← intLike (← eval σ a)))))
  | .fstr a => do valStr (← eval σ a)
  | .count a b => do .ok (vInt (← pyCount (← eval σ a) (← eval σ b)))
  | .bitCount a => do
      let i ← intLike (← eval σ a)
      .ok (vInt (popcount i.natAbs))

/-- the observable outcome the property compares: the value, or the fact that an exception was raised -/
def outcome (r : Except Err Val) : Option Val :=
  match r with
  | .ok v => some v
  | .error _ => Option.none

/-! ### Statements

A tiny block language for the statement-level rewrites (FURB113/125/126/128/131/133/138/148/160/186/187/188): assignments,
the in-place list methods `clear`/`sort`/`reverse`, `del x[:]`, `x[:] = []`,
`x.append(e)`, `x.extend((e1, e2))`, a list comprehension, `return`, `continue`, `if/else`, `for`.
Lists are VALUES here: `x.append(e)` rebinds `x` to the longer list, so aliasing between names is not
modelled (the harness executes aliased arguments; the theorems do not speak about them), and list elements
are scalars (appending a container is outside the value universe and modelled as a raise).
A block runs in an environment and ends in a `Flow`: fell through, returned, hit `continue`, or raised. -/

def setVar (σ : Env) (n : String) (v : Val) : Env := fun m => if m = n then some v else σ m

inductive Stmt where
  | pass
  | assign (x : String) (e : PyExpr)                       -- x = e
  | assign2 (x y : String) (e1 e2 : PyExpr)                -- x, y = e1, e2
  | append (x : String) (e : PyExpr)                       -- x.append(e)
  | extend2 (x : String) (e1 e2 : PyExpr)                  -- x.extend((e1, e2))
  | listComp (x : String) (elt : PyExpr) (v : String) (it : PyExpr) (cond : Option PyExpr)   -- x = [elt for v in it if cond]
  | ret (e : Option PyExpr)                                -- return / return e
  | cont                                                   -- continue
  | ifElse (c : PyExpr) (t e : List Stmt)
  | forIn (v : String) (it : PyExpr) (body : List Stmt)    -- for v in it: body
  | forEnum (i v : String) (it : PyExpr) (body : List Stmt) -- for i, v in enumerate(it): body
  | delAll (x : String)                                    -- del x[:]
  | sliceAssignEmpty (x : String)                          -- x[:] = []
  | clear (x : String)                                     -- x.clear()
  | sortIn (x : String) (rev : Bool)                       -- x.sort() / x.sort(reverse=True)
  | reverseIn (x : String)                                 -- x.reverse()

inductive Flow where
  | next (σ : Env)
  | returned (v : Val) (σ : Env)
  | continued (σ : Env)
  | raised

/-- the elements a `for` loop / comprehension draws from a value (strings yield their characters) -/
def iterElems : Val → Except Err (List Scalar)
  | .list xs => .ok xs
  | .tuple xs => .ok xs
  | .sc (.str s) => .ok (s.map (fun c => Scalar.str [c]))
  | _ => .error .typeError

/-- a `for` loop over already-evaluated elements: `continue` and falling through both go to the next element -/
def iterate (step : Env → Scalar → Flow) : List Scalar → Env → Flow
  | [], σ => .next σ
  | a :: as, σ =>
    match step σ a with
    | .next σ' => iterate step as σ'
    | .continued σ' => iterate step as σ'
    | .returned v σ' => .returned v σ'
    | .raised => .raised

/-- the same with the running index of `enumerate` -/
def iterateIdx (step : Env → Int → Scalar → Flow) : Int → List Scalar → Env → Flow
  | _, [], σ => .next σ
  | k, a :: as, σ =>
    match step σ k a with
    | .next σ' => iterateIdx step (k + 1) as σ'
    | .continued σ' => iterateIdx step (k + 1) as σ'
    | .returned v σ' => .returned v σ'
    | .raised => .raised

/-- `[elt for v in … if cond]`: `v` is bound per element in the comprehension's own scope (the enclosing
    environment `σ` is not changed) -/
def compElems (σ : Env) (elt : PyExpr) (v : String) (cond : Option PyExpr) : List Scalar → Except Err (List Scalar)
  | [] => .ok []
  | a :: as => do
    let σ' := setVar σ v (.sc a)
    let keep ← match cond with
      | some c => do .ok (truthy (← eval σ' c))
      | Option.none => .ok true
    if keep then do
      let e ← scalarOf (← eval σ' elt)
      let rest ← compElems σ elt v cond as
      .ok (e :: rest)
    else compElems σ elt v cond as

mutual
def exec (σ : Env) : Stmt → Flow
  | .pass => .next σ
  | .assign x e =>
    match eval σ e with
    | .ok v => .next (setVar σ x v)
    | .error _ => .raised
  | .assign2 x y e1 e2 =>
    match eval σ e1, eval σ e2 with
    | .ok a, .ok b => .next (setVar (setVar σ x a) y b)
    | _, _ => .raised
  | .append x e =>
    match σ x, eval σ e with
    | some (.list xs), .ok (.sc s) => .next (setVar σ x (.list (xs ++ [s])))
    | _, _ => .raised
  | .extend2 x e1 e2 =>
    match σ x, eval σ e1, eval σ e2 with
    | some (.list xs), .ok (.sc a), .ok (.sc b) => .next (setVar σ x (.list (xs ++ [a, b])))
    | _, _, _ => .raised
  | .listComp x elt v it cond =>
    match eval σ it with
    | .ok itv =>
      match iterElems itv with
      | .ok xs =>
        match compElems σ elt v cond xs with
        | .ok ys => .next (setVar σ x (.list ys))
        | .error _ => .raised
      | .error _ => .raised
    | .error _ => .raised
  | .ret Option.none => .returned vNone σ
  | .ret (some e) =>
    match eval σ e with
    | .ok v => .returned v σ
    | .error _ => .raised
  | .cont => .continued σ
  | .ifElse c t e =>
    match eval σ c with
    | .ok v => if truthy v then execBlock σ t else execBlock σ e
    | .error _ => .raised
  | .forIn v it body =>
    match eval σ it with
    | .ok itv =>
      match iterElems itv with
      | .ok xs => iterate (fun σ' a => execBlock (setVar σ' v (.sc a)) body) xs σ
      | .error _ => .raised
    | .error _ => .raised
  | .forEnum i v it body =>
    match eval σ it with
    | .ok itv =>
      match iterElems itv with
      | .ok xs => iterateIdx (fun σ' k a => execBlock (setVar (setVar σ' i (vInt k)) v (.sc a)) body) 0 xs σ
      | .error _ => .raised
    | .error _ => .raised
  | .delAll x =>
    match σ x with
    | some (.list _) => .next (setVar σ x (.list []))
    | _ => .raised            -- a tuple / str does not support item deletion
  | .sliceAssignEmpty x =>
    match σ x with
    | some (.list _) => .next (setVar σ x (.list []))
    | _ => .raised
  | .clear x =>
    match σ x with
    | some (.list _) => .next (setVar σ x (.list []))
    | _ => .raised            -- only lists have .clear() in this universe
  | .sortIn x rev =>
    match σ x with
    | some (.list xs) =>
      match (if rev then pySortedRev xs else pySorted xs) with
      | .ok ys => .next (setVar σ x (.list ys))
      | .error _ => .raised
    | _ => .raised
  | .reverseIn x =>
    match σ x with
    | some (.list xs) => .next (setVar σ x (.list xs.reverse))
    | _ => .raised
def execBlock (σ : Env) : List Stmt → Flow
  | [] => .next σ
  | s :: rest =>
    match exec σ s with
    | .next σ' => execBlock σ' rest
    | f => f
end

/-- what a caller of a function whose body is the block observes: the returned value (None when the body falls
    off its end) and the final bindings; `none` = an exception (a `continue` outside a loop is not a program) -/
def callResult : Flow → Option (Val × Env)
  | .next σ => some (vNone, σ)
  | .returned v σ => some (v, σ)
  | .continued _ => Option.none
  | .raised => Option.none

end RefurbVerif.Py
