/-
Model of the check catalogue and of `refurb.explain.explain` (refurb/explain.py:10-40).

`CheckInfo` is one row of the table the translator (harness/extract.py) regenerates from the
imported check modules; `explain` is "first module, in `get_modules` order, whose ErrorCode
matches".
-/
namespace RefurbVerif

structure CheckInfo where
  module : String
  cls : String
  pfx : String
  code : Nat
  name : String
  hasName : Bool
  enabled : Bool
  categories : List String
  nodeTypes : List String
  nparams : Nat
  nannotations : Nat
  docHash : String
  /-- `error.__doc__` starts with `"<ClassName>("`: the dataclass-generated docstring, i.e. no docs -/
  docIsDefault : Bool
  /-- names in `dir(module)` that satisfy `is_valid_error_class` -/
  errorClasses : List String
  deriving Repr, DecidableEq

def CheckInfo.key (c : CheckInfo) : String × Nat := (c.pfx, c.code)

inductive ExplainResult where
  | found (c : CheckInfo)
  | noDoc
  | notFound
  deriving Repr, DecidableEq

/-- `explain`: the first catalogue entry whose (prefix, id) equals the lookup. -/
def explain (cat : List CheckInfo) (key : String × Nat) : ExplainResult :=
  match cat.find? (fun c => c.key == key) with
  | some c => if c.docIsDefault then .noDoc else .found c
  | none => .notFound

/-- the first line `explain` prints for a documented check: `f"{error_code}: {name} {categories}"` with
    `categories = " ".join(f"[{x}]" for x in error.categories)` and `<name unknown>` for a check without a name -/
def CheckInfo.explainHeader (c : CheckInfo) : String :=
  c.pfx ++ toString c.code ++ ": " ++ (if c.hasName then c.name else "<name unknown>") ++ " "
    ++ " ".intercalate (c.categories.map (fun x => "[" ++ x ++ "]"))

/-- One parsed entry of docs/checks.md. -/
structure DocEntry where
  code : String
  name : String
  categories : List String
  bodyHash : String
  deriving Repr, DecidableEq

def CheckInfo.docEntry (c : CheckInfo) : DocEntry :=
  { code := c.pfx ++ toString c.code, name := c.name, categories := c.categories, bodyHash := c.docHash }

/-! ### docs/gen_checks.py: one section per check, keyed by the printed code, written in key order -/

/-- the text `str(ErrorCode)` prints: prefix directly followed by the id -/
def CheckInfo.codeStr (c : CheckInfo) : String := c.pfx ++ toString c.code

/-- `docs[k] = v` on an insertion-ordered dict: an existing key keeps its place and takes the new value -/
def dictSet {α : Type} (d : List (String × α)) (k : String) (v : α) : List (String × α) :=
  match d with
  | [] => [(k, v)]
  | (k', v') :: r => if k' = k then (k, v) :: r else (k', v') :: dictSet r k v

/-- the `docs` dict after the loop over `get_modules([])` -/
def docsDict (cat : List CheckInfo) : List (String × DocEntry) :=
  cat.foldl (fun d c => dictSet d c.codeStr c.docEntry) []

/-- `for _, v in sorted(docs.items())`: the sections of checks.md in the order they are written -/
def genDocs (cat : List CheckInfo) : List DocEntry :=
  ((docsDict cat).mergeSort (fun a b => decide (a.1 ≤ b.1))).map (·.2)

/-- One documented example block and what the check's own run said about it. -/
structure Example where
  code : Nat
  kind : String       -- "Bad" | "Good"
  index : Nat
  flaggedByOwnCheck : Bool
  deriving Repr, DecidableEq

end RefurbVerif
