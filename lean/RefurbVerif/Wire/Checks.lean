import RefurbVerif.Wire.Basic
import RefurbVerif.Model.Rules
open Lean

namespace RefurbVerif.Wire
open RefurbVerif.Py

def fltJ : Flt → Json
  | .nan => Json.mkObj [("t", "float"), ("k", "nan")]
  | .negZero => Json.mkObj [("t", "float"), ("k", "negzero")]
  | .whole z => Json.mkObj [("t", "float"), ("k", "whole"), ("z", z)]

def scalarJ : Scalar → Json
  | .none => Json.mkObj [("t", "none")]
  | .bool b => Json.mkObj [("t", "bool"), ("v", b)]
  | .int i => Json.mkObj [("t", "int"), ("v", i)]
  | .flt f => fltJ f
  | .str s => Json.mkObj [("t", "str"), ("v", String.ofList s)]

def valJ : Val → Json
  | .sc s => scalarJ s
  | .list xs => Json.mkObj [("t", "list"), ("items", Json.arr (xs.map scalarJ).toArray)]
  | .tuple xs => Json.mkObj [("t", "tuple"), ("items", Json.arr (xs.map scalarJ).toArray)]

def toScalar (j : Json) : Scalar :=
  match str j "t" with
  | "bool" => .bool (bool j "v")
  | "int" => .int (int j "v")
  | "str" => .str (str j "v").toList
  | "float" =>
    match str j "k" with
    | "nan" => .flt .nan
    | "negzero" => .flt .negZero
    | _ => .flt (.whole (int j "z"))
  | _ => .none

def toVal (j : Json) : Val :=
  match str j "t" with
  | "list" => .list ((arr j "items").map toScalar)
  | "tuple" => .tuple ((arr j "items").map toScalar)
  | _ => .sc (toScalar j)

def typeNameS : TypeName → String
  | .noneType => "type(None)" | .bool => "bool" | .int => "int" | .float => "float" | .str => "str" | .list => "list" | .tuple => "tuple"

def litSrc : Val → String
  | .sc .none => "None"
  | .sc (.bool b) => if b then "True" else "False"
  | .sc (.int i) => toString i
  | .sc (.flt .nan) => "float('nan')"
  | .sc (.flt .negZero) => "-0.0"
  | .sc (.flt (.whole z)) => s!"{z}.0"
  | .sc (.str s) => "\"" ++ String.ofList s ++ "\""     -- only plain literals occur in the rule table
  | .list [] => "[]"
  | .tuple [] => "()"
  | .list _ => "[...]"
  | .tuple _ => "(...)"

def radixFn : Radix → String | .bin => "bin" | .oct => "oct" | .hex => "hex"

/-- Python source of a model expression (fully parenthesised) -/
def render : PyExpr → String
  | .var n => n
  | .lit v => litSrc v
  | .eq a b => s!"({render a} == {render b})"
  | .ne a b => s!"({render a} != {render b})"
  | .lt a b => s!"({render a} < {render b})"
  | .le a b => s!"({render a} <= {render b})"
  | .gt a b => s!"({render a} > {render b})"
  | .ge a b => s!"({render a} >= {render b})"
  | .is_ a b => s!"({render a} is {render b})"
  | .isNot a b => s!"({render a} is not {render b})"
  | .in_ a b => s!"({render a} in {render b})"
  | .notIn a b => s!"({render a} not in {render b})"
  | .and_ a b => s!"({render a} and {render b})"
  | .or_ a b => s!"({render a} or {render b})"
  | .not_ a => s!"(not {render a})"
  | .ifExp t c e => s!"({render t} if {render c} else {render e})"
  | .chainEq a b c => s!"({render a} == {render b} == {render c})"
  | .tup1 a => s!"({render a},)"
  | .tup2 a b => s!"({render a}, {render b})"
  | .list1 a => s!"[{render a}]"
  | .list2 a b => s!"[{render a}, {render b}]"
  | .len a => s!"len({render a})"
  | .boolOf a => s!"bool({render a})"
  | .intOf a => s!"int({render a})"
  | .strOf a => s!"str({render a})"
  | .listOf a => s!"list({render a})"
  | .tupleOf a => s!"tuple({render a})"
  | .copy a => s!"{render a}.copy()"
  | .min2 a b => s!"min({render a}, {render b})"
  | .max2 a b => s!"max({render a}, {render b})"
  | .minL a => s!"min({render a})"
  | .maxL a => s!"max({render a})"
  | .sorted a => s!"sorted({render a})"
  | .index0 a => s!"{render a}[0]"
  | .indexLast a => s!"{render a}[-1]"
  | .sliceAll a => s!"{render a}[:]"
  | .isinstance a t => s!"isinstance({render a}, {typeNameS t})"
  | .typeIsNone a => s!"(type({render a}) is type(None))"
  | .typeEqNone a => s!"(type({render a}) == type(None))"
  | .typeNeNone a => s!"(type({render a}) != type(None))"
  | .typeIsNotNone a => s!"(type({render a}) is not type(None))"
  | .isinstance2 a t u => s!"isinstance({render a}, {typeNameS t} | {typeNameS u})"
  | .call0 t => s!"{typeNameS t}()"
  | .tup3 a b c => s!"({render a}, {render b}, {render c})"
  | .list3 a b c => s!"[{render a}, {render b}, {render c}]"
  | .sliceFrom a i => s!"{render a}[{render i}:]"
  | .sliceTo a i => s!"{render a}[:{render i}]"
  | .sliceRev a => s!"{render a}[::-1]"
  | .neg a => s!"(-{render a})"
  | .startswith a b => s!"{render a}.startswith({render b})"
  | .endswith a b => s!"{render a}.endswith({render b})"
  | .removeprefix a b => s!"{render a}.removeprefix({render b})"
  | .removesuffix a b => s!"{render a}.removesuffix({render b})"
  | .sortedRev a => s!"sorted({render a}, reverse=True)"
  | .listReversed a => s!"list(reversed({render a}))"
  | .radixOf r a => s!"{radixFn r}({render a})"
  | .fmtRadix r alt a => "f\"{" ++ render a ++ ":" ++ (if alt then "#" else "") ++ String.singleton r.letter ++ "}\""
  | .fstr a => "f\"{" ++ render a ++ "}\""
  | .count a b => s!"{render a}.count({render b})"
  | .bitCount a => s!"{render a}.bit_count()"

def ruleJ (r : Rule) (refuted : Bool) : Json := Json.mkObj [
  ("guard", r.guard), ("guarded", !r.guard.isEmpty),
  ("code", r.code), ("label", r.label),
  ("vars", Json.arr (r.vars.map (fun p => Json.arr #[Json.str p.1, optJ (fun t => Json.str (typeNameS t)) p.2])).toArray),
  ("old", render r.old), ("new", render r.new), ("cond_pos", r.condPos), ("refuted", refuted)]

def allRules : List (Rule × Bool) := rules.map (·, false) ++ guardedRules.map (·, false) ++ refutedRules.map (·, true)

def envOfJ (j : Json) : Env := fun n =>
  match j.getObjVal? n with
  | .ok v => some (toVal v)
  | .error _ => none

/-! statement-level rules: Python source of the blocks, and running them -/

def pad (n : Nat) (l : String) : String := String.ofList (List.replicate (4 * n) ' ') ++ l

mutual
def renderStmt (ind : Nat) : Stmt → List String
  | .pass => [pad ind "pass"]
  | .assign x e => [pad ind s!"{x} = {render e}"]
  | .assign2 x y e1 e2 => [pad ind s!"{x}, {y} = {render e1}, {render e2}"]
  | .append x e => [pad ind s!"{x}.append({render e})"]
  | .extend2 x e1 e2 => [pad ind s!"{x}.extend(({render e1}, {render e2}))"]
  | .listComp x elt v it cond =>
    let c := match cond with | some c => s!" if {render c}" | none => ""
    [pad ind s!"{x} = [{render elt} for {v} in {render it}{c}]"]
  | .ret none => [pad ind "return"]
  | .ret (some e) => [pad ind s!"return {render e}"]
  | .cont => [pad ind "continue"]
  | .ifElse c t e =>
    [pad ind s!"if {render c}:"] ++ renderBlock (ind + 1) t ++ (if e.isEmpty then [] else [pad ind "else:"] ++ renderBlock (ind + 1) e)
  | .forIn v it b => [pad ind s!"for {v} in {render it}:"] ++ renderBlock (ind + 1) b
  | .forEnum i v it b => [pad ind s!"for {i}, {v} in enumerate({render it}):"] ++ renderBlock (ind + 1) b
  | .delAll x => [pad ind s!"del {x}[:]"]
  | .sliceAssignEmpty x => [pad ind s!"{x}[:] = []"]
  | .clear x => [pad ind s!"{x}.clear()"]
  | .sortIn x rev => [pad ind (if rev then s!"{x}.sort(reverse=True)" else s!"{x}.sort()")]
  | .reverseIn x => [pad ind s!"{x}.reverse()"]
def renderBlock (ind : Nat) : List Stmt → List String
  | [] => [pad ind "pass"]
  | [s] => renderStmt ind s
  | s :: t :: rest => renderStmt ind s ++ renderBlock ind (t :: rest)
end

def nestLines : Nat → Nat → List Stmt → List String
  | 0, ind, b => renderBlock ind b
  | k + 1, ind, b => [pad ind "for _ in range(1):"] ++ nestLines k (ind + 1) b

def sruleJ (r : SRule) (refuted : Bool) : Json := Json.mkObj [
  ("guard", r.guard), ("guarded", !r.guard.isEmpty),
  ("code", r.code), ("label", r.label),
  ("vars", Json.arr (r.vars.map (fun p => Json.arr #[Json.str p.1, optJ (fun t => Json.str (typeNameS t)) p.2])).toArray),
  ("old", "\n".intercalate (nestLines r.nest 0 r.old)), ("new", "\n".intercalate (nestLines r.nest 0 r.new)),
  ("advice", r.advice), ("ignore", Json.arr (r.ignore.map Json.str).toArray), ("refuted", refuted)]

def allSRules : List (SRule × Bool) := srules.map (·, false) ++ guardedSRules.map (·, false) ++ refutedSRules.map (·, true)

def flowJ (names : List String) : Flow → Json
  | .next σ => Json.mkObj [("r", "next"), ("state", Json.mkObj (names.map (fun n => (n, optJ valJ (σ n)))))]
  | .returned v σ => Json.mkObj [("r", "returned"), ("v", valJ v), ("state", Json.mkObj (names.map (fun n => (n, optJ valJ (σ n)))))]
  | .continued _ => Json.mkObj [("r", "continued")]
  | .raised => Json.mkObj [("r", "raised")]

/-- verbs: py_rules (the rule table with Python renderings), py_eval (a rule's old/new under an environment),
    py_srules (the statement rules), py_exec (a statement rule's old/new block run from an environment; `names` = the
    bindings to report) -/
def handleChecks (verb : String) (j : Json) : Option Json :=
  match verb with
  | "py_rules" => some (Json.arr (allRules.map (fun p => ruleJ p.1 p.2)).toArray)
  | "py_eval" =>
    match allRules[nat j "rule"]? with
    | none => some (Json.mkObj [("error", "no such rule")])
    | some (r, _) =>
      let e := if str j "which" == "new" then r.new else r.old
      some (match eval (envOfJ (obj j "env")) e with
        | .ok v => Json.mkObj [("r", "ok"), ("v", valJ v), ("truthy", truthy v)]
        | .error _ => Json.mkObj [("r", "raised")])
  | "py_srules" => some (Json.arr (allSRules.map (fun p => sruleJ p.1 p.2)).toArray)
  | "py_exec" =>
    match allSRules[nat j "srule"]? with
    | none => some (Json.mkObj [("error", "no such rule")])
    | some (r, _) =>
      let b := if str j "which" == "new" then r.new else r.old
      some (flowJ (strs j "names") (execBlock (envOfJ (obj j "env")) b))
  | _ => none

end RefurbVerif.Wire
