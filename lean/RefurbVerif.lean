-- Root of the `RefurbVerif` library: every property file.
import RefurbVerif.Props.C01
import RefurbVerif.Props.C03
import RefurbVerif.Props.C04
import RefurbVerif.Props.C05
import RefurbVerif.Props.C07
import RefurbVerif.Props.C08
import RefurbVerif.Props.C09
import RefurbVerif.Props.C10
import RefurbVerif.Props.C11
import RefurbVerif.Props.C12
import RefurbVerif.Props.C13
import RefurbVerif.Props.C14
import RefurbVerif.Props.C15
import RefurbVerif.Props.C16
import RefurbVerif.Props.C17
import RefurbVerif.Props.C18
import RefurbVerif.Props.C19
