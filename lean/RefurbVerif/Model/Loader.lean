/-
Model of refurb/loader.py (module discovery, signature validation, check registration), of the
arity rule of `RefurbVisitor.run_check` (refurb/visitor/visitor.py:56-65) and of what `main` does
with an exception that leaves `run_refurb` (refurb/main.py:393-398).

What is a parameter here (external behaviour, see the harness for how it is tied to the real thing):
  * the importable modules, as a forest in the order `pkgutil.walk_packages` lists them
    (`os.listdir` sorted by file name, packages before recursing into them);
  * `importlib.import_module(name)`: the module object is identified with its dotted name, so the
    same name always gives the same object and a package object is never a leaf object;
  * `inspect.signature(check)` and `check.__annotations__` of a plain `def`/`lambda`.

Python failure modes are kept:
  `LoadErr.typeError loc reason`  a TypeError; `main` prints `str(e)` and returns 1
  `LoadErr.importError target`    ModuleNotFoundError for a `--load` target; `main` prints `str(e)`, returns 1
  `LoadErr.crash exc`             any other exception: not caught by `main` (traceback)
-/
import RefurbVerif.Model.Settings

namespace RefurbVerif.Loader
open RefurbVerif

/-- dotted module name, split at the dots -/
abbrev ModPath := List String

inductive LoadErr where
  | typeError (loc : Option (String × Nat)) (reason : String)
  | importError (target : ModPath)
  | crash (exc : String)
  deriving DecidableEq, Repr

/-- `type_error_with_line_info(func, msg)` -/
def located (file : String) (line : Nat) (reason : String) : LoadErr := .typeError (some (file, line)) reason

/-- `str(e)` of the TypeError built by `type_error_with_line_info`: `f"{filename}:{line}: {msg}"`
    (for an ImportError the exact text needs the forest: `importText`) -/
def LoadErr.text : LoadErr → String
  | .typeError (some (file, line)) reason => file ++ ":" ++ toString line ++ ": " ++ reason
  | .typeError none reason => reason
  | .importError target => "No module named '" ++ ".".intercalate target ++ "'"
  | .crash exc => exc

/-- what `importlib.import_module` raises for a name that does not resolve: ValueError for the empty
    name, otherwise ModuleNotFoundError (relative names are not modelled) -/
def importFailure (t : ModPath) : LoadErr :=
  if t = [""] then .crash "ValueError" else .importError t

/-! ### Signatures -/

/-- one annotation object, as far as `extract_function_types` can tell them apart -/
inductive Atom where
  /-- no annotation: `inspect.Parameter.empty`, a class whose `__name__` is `_empty` -/
  | empty
  /-- a class in `VALID_NODE_TYPES` -/
  | node (name : String)
  /-- `refurb.settings.Settings` -/
  | settings
  /-- `list[Error]` (a `GenericAlias`; its `__name__` is `list`) -/
  | listError
  /-- any other hashable object that has a `__name__` (a class, `list[int]`, `typing.Union[..]`) -/
  | cls (name : String)
  /-- a hashable object without `__name__` (a string annotation), with its `repr` -/
  | opaque (repr : String)
  /-- an unhashable object such as the display `[IntExpr]`; `ty` is its type's name -/
  | unhashable (ty : String) (repr : String)
  deriving DecidableEq, Repr

inductive Ann where
  | one (a : Atom)
  /-- `X | Y`, a `types.UnionType` (flat, hashable, no `__name__`), with its `repr` -/
  | union (args : List Atom) (repr : String)
  deriving DecidableEq, Repr

def Atom.name? : Atom → Option String
  | .empty => some "_empty"
  | .node n => some n
  | .settings => some "Settings"
  | .listError => some "list"
  | .cls n => some n
  | .opaque _ => none
  | .unhashable _ _ => none

/-- `type_name(ty)` = `getattr(ty, "__name__", repr(ty))` -/
def Atom.typeName : Atom → String
  | .opaque r => r
  | .unhashable _ r => r
  | a => (a.name?).getD ""

def Ann.typeName : Ann → String
  | .one a => a.typeName
  | .union _ r => r

def Ann.annotated : Ann → Bool
  | .one .empty => false
  | _ => true

inductive PKind where
  | pos | posDefault | varPos | kwOnly | kwOnlyDefault | varKw
  deriving DecidableEq, Repr

structure Param where
  name : String
  ann : Ann
  kind : PKind := .pos
  deriving DecidableEq, Repr

/-- the `check` attribute of a module -/
structure Sig where
  callable : Bool := true
  params : List Param
  /-- has a return annotation (`-> None`) -/
  ret : Bool
  deriving DecidableEq, Repr

/-- keys of `check.__annotations__` for a plain `def`: the annotated parameters, then `return` -/
def Sig.annotations (sig : Sig) : List String :=
  ((sig.params.filter (·.ann.annotated)).map (·.name)) ++ (if sig.ret then ["return"] else [])

/-- the `isinstance(error_param, GenericAlias) and … is list and … is Error` test -/
def isListError : Ann → Bool
  | .one .listError => true
  | _ => false

/-- body of the `for param in optional_params` loop -/
def checkOptional (file : String) (line : Nat) (p : Param) : Except LoadErr Unit :=
  if p.name = "settings" ∧ p.ann = .one .settings then .ok ()
  else .error (located file line ("\"" ++ p.name ++ ": " ++ p.ann.typeName ++ "\" is not a valid service"))

def checkOptionals (file : String) (line : Nat) : List Param → Except LoadErr Unit
  | [] => .ok ()
  | p :: ps => checkOptional file line p >>= fun _ => checkOptionals file line ps

/-- one member of a union: `ty not in VALID_NODE_TYPES` (a set lookup, so an unhashable member would
    raise; Python cannot build such a union, the branch is kept for totality) -/
def atomNode (file : String) (line : Nat) (a : Atom) : Except LoadErr String :=
  match a with
  | .node n => .ok n
  | .unhashable ty _ => .error (.typeError none ("unhashable type: '" ++ ty ++ "'"))
  | a => .error (located file line ("\"" ++ a.typeName ++ "\" is not a valid Mypy node type"))

def atomNodes (file : String) (line : Nat) : List Atom → Except LoadErr (List String)
  | [] => .ok []
  | a :: as => atomNode file line a >>= fun n => atomNodes file line as >>= fun ns => .ok (n :: ns)

/-- the `match node_param` statement: a union is checked member by member; anything else must be a
    class (`case type() as ty`) that is a node type, and is otherwise named with `type_name` -/
def nodeTypes (file : String) (line : Nat) : Ann → Except LoadErr (List String)
  | .union args _ => atomNodes file line args
  | .one (.node n) => .ok [n]
  | .one a => .error (located file line ("\"" ++ a.typeName ++ "\" is not a valid Mypy node type"))

/-- `list(extract_function_types(func))`: the node types the check subscribes to, or how it ends -/
def validSignature (file : String) (line : Nat) (sig : Sig) : Except LoadErr (List String) :=
  if !sig.callable then .error (.typeError none "Check function must be callable")
  else if sig.params.length ≠ 2 ∧ sig.params.length ≠ 3 then
    .error (located file line "Check function must take 2-3 parameters")
  else
    match sig.params with
    | nodeParam :: errorParam :: optional =>
      if !isListError errorParam.ann then
        .error (located file line "\"error\" param must be of type list[Error]")
      else
        checkOptionals file line optional >>= fun _ => nodeTypes file line nodeParam.ann
    | _ => .error (located file line "Check function must take 2-3 parameters")

/-- `run_check`: the number of arguments the visitor passes;
    `takes_settings(check)` is `len(signature(check).parameters) == 3` -/
def runCheckArity (sig : Sig) : Nat :=
  if sig.params.length = 3 then 3 else 2

/-- the rule `run_check` used before c0c0e5f: `len(check.__annotations__) == 4` -/
def arityByAnnotations (annotations : List String) : Nat :=
  if annotations.length = 4 then 3 else 2

/-- does a call with `n` positional arguments bind to the signature? (else: TypeError at the call) -/
def Sig.binds (sig : Sig) (n : Nat) : Bool :=
  let required := (sig.params.filter (·.kind = .pos)).length
  let maxPos := (sig.params.filter (fun p => p.kind = .pos ∨ p.kind = .posDefault)).length
  let star := sig.params.any (·.kind = .varPos)
  let kwRequired := sig.params.any (·.kind = .kwOnly)
  decide (required ≤ n) && (decide (n ≤ maxPos) || star) && !kwRequired

/-! ### The importable modules -/

/-- an attribute of a check module whose name starts with `Error` -/
structure ErrCls where
  attr : String
  /-- the object's own `__name__` -/
  clsName : String
  /-- `issubclass(obj, Error)` -/
  subclass : Bool
  sel : CheckSel
  deriving DecidableEq, Repr

structure Leaf where
  /-- attributes in `dir(module)` order (sorted by name) -/
  errs : List ErrCls
  /-- `getattr(module, "check", None)` when truthy -/
  check : Option Sig
  file : String
  /-- line of the `def check` -/
  line : Nat
  deriving DecidableEq, Repr

/-- a list of sibling modules, first-child / next-sibling: `leaf name payload rest`,
    `pkg name children rest` -/
inductive Forest where
  | nil
  | leaf (name : String) (l : Leaf) (rest : Forest)
  | pkg (name : String) (kids : Forest) (rest : Forest)
  deriving DecidableEq, Repr

inductive Resolved where
  | leaf (l : Leaf)
  | pkg (kids : Forest)
  deriving DecidableEq, Repr

/-- `importlib.import_module(".".join(path))` looked up in the forest; `none` = ModuleNotFoundError -/
def Forest.resolve : Forest → ModPath → Option Resolved
  | .nil, _ => none
  | _, [] => none
  | .leaf n l rest, c :: cs =>
    if n = c then (if cs = [] then some (.leaf l) else none) else rest.resolve (c :: cs)
  | .pkg n kids rest, c :: cs =>
    if n = c then (if cs = [] then some (.pkg kids) else kids.resolve cs) else rest.resolve (c :: cs)

/-- the non-package names `pkgutil.walk_packages(path, prefix)` yields, in its order -/
def Forest.leaves (pre : ModPath) : Forest → List ModPath
  | .nil => []
  | .leaf n _ rest => (pre ++ [n]) :: rest.leaves pre
  | .pkg n kids rest => kids.leaves (pre ++ [n]) ++ rest.leaves pre

def Forest.leafAt (f : Forest) (p : ModPath) : Option Leaf :=
  match f.resolve p with
  | some (.leaf l) => some l
  | _ => none

/-! ### `get_modules` -/

structure WalkState where
  /-- the `loaded` set: module objects, as (dotted name, is a package) -/
  loaded : List (ModPath × Bool)
  /-- what has been yielded so far, in order -/
  out : List ModPath
  deriving DecidableEq, Repr

/-- `if module not in loaded: loaded.add(module); yield module` -/
def yieldLeaf (st : WalkState) (p : ModPath) : WalkState :=
  if (p, false) ∈ st.loaded then st else { loaded := (p, false) :: st.loaded, out := st.out ++ [p] }

/-- one iteration of `for pkg in (checks_module, *extra_modules)` (the failure branch is kept for
    totality; `getModules` only walks when every name resolves) -/
def stepTarget (f : Forest) (st : WalkState) (t : ModPath) : Except LoadErr WalkState :=
  match f.resolve t with
  | none => .error (importFailure t)
  | some (.leaf _) => if (t, false) ∈ st.loaded then .ok st else .ok (yieldLeaf st t)
  | some (.pkg kids) =>
    if (t, true) ∈ st.loaded then .ok st
    else
      let st' := (kids.leaves t).foldl yieldLeaf st
      .ok { st' with loaded := (t, true) :: st'.loaded }

/-- the generator: everything yielded before it ends, and how it ends -/
def walkTargets (f : Forest) : WalkState → List ModPath → WalkState × Option LoadErr
  | st, [] => (st, none)
  | st, t :: ts =>
    match stepTarget f st t with
    | .error e => (st, some e)
    | .ok st' => walkTargets f st' ts

/-- every name can be imported -/
def allResolve (f : Forest) (ts : List ModPath) : Bool := ts.all (fun t => (f.resolve t).isSome)

/-- the first name that cannot be imported -/
def firstBad (f : Forest) (ts : List ModPath) : Option ModPath := ts.find? (fun t => (f.resolve t).isNone)

/-- `get_modules(paths)`: the built-in package first, then the targets.  The display
    `(checks_module, *extra_modules)` unpacks the lazy `extra_modules` generator before the loop
    starts, so every target is imported up front: if one cannot be imported nothing is yielded. -/
def getModules (f : Forest) (builtin : ModPath) (targets : List ModPath) : List ModPath × Option LoadErr :=
  if allResolve f (builtin :: targets) then
    let r := walkTargets f { loaded := [], out := [] } (builtin :: targets)
    (r.1.out, r.2)
  else ([], some (importFailure ((firstBad f (builtin :: targets)).getD [])))

/-- `str(e)` of the ModuleNotFoundError: it names the first prefix of the dotted name that does not
    resolve, and says so when the parent is a plain module -/
def importTextFrom (f : Forest) (t : ModPath) : Nat → Nat → String
  | 0, _ => "No module named '" ++ ".".intercalate t ++ "'"
  | fuel + 1, k =>
    if (f.resolve (t.take k)).isSome ∧ k < t.length then importTextFrom f t fuel (k + 1)
    else
      let base := "No module named '" ++ ".".intercalate (t.take k) ++ "'"
      match f.resolve (t.take (k - 1)) with
      | some (.leaf _) => base ++ "; '" ++ ".".intercalate (t.take (k - 1)) ++ "' is not a package"
      | _ => base

def importText (f : Forest) (t : ModPath) : String := importTextFrom f t t.length 1

/-! ### `load_checks` -/

def ignoredNames : List String := ["Error", "ErrorCode", "ErrorCategory"]

/-- `get_error_class` -/
def getErrorClass (l : Leaf) : Option CheckSel :=
  (l.errs.find? (fun e =>
    "Error".toList.isPrefixOf e.attr.toList && !(e.attr = "Error" ∨ e.attr = "ErrorCode") &&
    "Error".toList.isPrefixOf e.clsName.toList && !ignoredNames.contains e.clsName && e.subclass)).map (·.sel)

/-- `found`: (node type, check) in registration order; `found[ty]` is `checksFor` -/
abbrev Dispatch := List (String × ModPath)

/-- body of the `for module in get_modules(...)` loop: what one module registers -/
def moduleContribution (f : Forest) (s : Settings) (p : ModPath) : Except LoadErr Dispatch :=
  match f.leafAt p with
  | none => .ok []
  | some l =>
    match getErrorClass l with
    | none => .ok []
    | some e =>
      if shouldLoad s e then
        match l.check with
        | none => .ok []
        | some sig => validSignature l.file l.line sig >>= fun tys => .ok (tys.map (·, p))
      else .ok []

def loadModules (f : Forest) (s : Settings) : List ModPath → Except LoadErr Dispatch
  | [] => .ok []
  | p :: ps => moduleContribution f s p >>= fun c => loadModules f s ps >>= fun r => .ok (c ++ r)

/-- `load_checks(settings)` with `settings.load = targets` -/
def loadChecks (f : Forest) (builtin : ModPath) (targets : List ModPath) (s : Settings) : Except LoadErr Dispatch :=
  loadModules f s (getModules f builtin targets).1 >>= fun t =>
    match (getModules f builtin targets).2 with
    | none => .ok t
    | some e => .error e

/-! ### The visitor, as far as calling checks goes -/

def checksFor (t : Dispatch) (ty : String) : List ModPath := (t.filter (·.1 = ty)).map (·.2)

structure Call where
  check : ModPath
  /-- index of the node in visiting order -/
  node : Nat
  nargs : Nat
  deriving DecidableEq, Repr

def sigAt (f : Forest) (p : ModPath) : Option Sig := (f.leafAt p).bind (·.check)

def arityAt (f : Forest) (p : ModPath) : Nat :=
  match sigAt f p with
  | some sig => runCheckArity sig
  | none => 2

def callsAt (f : Forest) (t : Dispatch) (i : Nat) (ty : String) : List Call :=
  (checksFor t ty).map (fun c => { check := c, node := i, nargs := arityAt f c })

/-- the calls `run_check` makes while the nodes (given by their types, in visiting order) are visited -/
def visitFrom (f : Forest) (t : Dispatch) : Nat → List String → List Call
  | _, [] => []
  | i, ty :: tys => callsAt f t i ty ++ visitFrom f t (i + 1) tys

def visit (f : Forest) (t : Dispatch) (nodes : List String) : List Call := visitFrom f t 0 nodes

def callBinds (f : Forest) (c : Call) : Bool :=
  match sigAt f c.check with
  | some sig => sig.binds c.nargs
  | none => true

/-- linting one file: the first call that does not bind raises TypeError out of the check call -/
def runFile (f : Forest) (t : Dispatch) (nodes : List String) : Except LoadErr (List Call) :=
  match (visit f t nodes).find? (fun c => !callBinds f c) with
  | some _ => .error (.typeError none "check() argument mismatch")
  | none => .ok (visit f t nodes)

/-- what the user sees when `run_refurb` ends with an error (main.py:393-398) -/
structure Report where
  stdoutLine : Option String
  traceback : Bool
  exit : Nat
  deriving DecidableEq, Repr

/-- main.py: `except (TypeError, ImportError) as e: print(e); return 1`; anything else is a traceback -/
def reportOf (f : Forest) : LoadErr → Report
  | .crash _ => { stdoutLine := none, traceback := true, exit := 1 }
  | .importError t => { stdoutLine := some (importText f t), traceback := false, exit := 1 }
  | e => { stdoutLine := some e.text, traceback := false, exit := 1 }

end RefurbVerif.Loader
