import RefurbVerif.Wire.Basic
import RefurbVerif.Model.Pos
import RefurbVerif.Generated.Positions
open Lean

namespace RefurbVerif.Wire
open RefurbVerif.Pos

namespace PosW

/-- pieces travel as integers: `n ≥ 0` = `bytes n`, `-1` = `nl` -/
def toPieces (j : Json) (k : String) : List Piece :=
  (arr j k).map fun x =>
    match x.getInt? with
    | .ok i => if i < 0 then Piece.nl else Piece.bytes i.toNat
    | _ => Piece.nl

def intOf (x : Json) : Int := (x.getInt?).toOption.getD 0
def natOf (x : Json) : Nat := (x.getNat?).toOption.getD 0

def toSrcFile (j : Json) (k : String) : SrcFile :=
  (arr j k).map fun l =>
    match l with
    | .arr #[b, .arr ts] =>
      { bytes := natOf b,
        toks := ts.toList.map fun t => match t with
          | .arr #[c, n] => ⟨natOf c, natOf n⟩
          | _ => ⟨0, 0⟩ }
    | _ => { bytes := 0, toks := [] }

def pairJ (p : Int × Int) : Json := Json.arr #[p.1, p.2]
def locJ (p : Loc) : Json := Json.arr #[(p.line : Nat), (p.col : Nat)]
def optInt (j : Json) (k : String) : Option Int :=
  match j.getObjVal? k with
  | .ok v => (v.getInt?).toOption
  | _ => none

def toLineField (j : Json) : LineField :=
  match str j "field" with
  | "line" => .line
  | "endLine" => .endLine
  | _ => Generated.expandtabsLineField

end PosW
open PosW

/-- driver verbs of C07 -/
def handlePos (verb : String) (j : Json) : Option Json :=
  match verb with
  | "pos_check" =>
    let f := toSrcFile j "lines"
    some (Json.arr ((arr j "ps").map (fun p =>
      match p with
      | .arr #[l, c] =>
        let q : Int × Int := (intOf l, intOf c)
        Json.arr #[lineOk f q, colOk f q, tokOk f q]
      | _ => Json.null)).toArray)
  | "pos_abc" =>
    let l : AbcLayout := { pre := toPieces j "pre", klen := nat j "klen", g1 := toPieces j "g1", g2 := toPieces j "g2" }
    let e := l.reported
    some (Json.mkObj [("kw", locJ l.kw), ("value", locJ l.value), ("stored", pairJ (e.line, e.col)),
      ("printed", pairJ (render e)), ("valid", decide (render e = l.kw.printed))])
  | "pos_tabs" =>
    let l : TabsLayout := { pre := toPieces j "pre", mid := toPieces j "mid", alen := nat j "alen" }
    let e := l.reported (toLineField j)
    some (Json.mkObj [("recv", locJ l.recv), ("attr", locJ l.attr), ("stored", pairJ (e.line, e.col)),
      ("printed", pairJ (render e)), ("valid", decide (render e = l.attr.printed)),
      ("field", match toLineField j with | .line => "line" | .endLine => "endLine")])
  | "pos_extend" =>
    let stmts : List Stmt := (arr j "stmts").map fun s =>
      match s with
      | .arr #[l, c, a] => { span := { line := intOf l, col := intOf c }, app := (a.getNat?).toOption }
      | _ => { span := { line := 0, col := 0 }, app := none }
    some (Json.arr ((listExtend stmts).map (fun e => pairJ (e.line, e.col))).toArray)
  | "pos_from_node" =>
    let s : Span := { line := int j "line", col := int j "col", endLine := optInt j "end_line", endCol := optInt j "end_col" }
    let e := fromNode s
    some (Json.mkObj [("stored", pairJ (e.line, e.col)), ("printed", pairJ (render e)),
      ("line_end", optJ (fun (i : Int) => (i : Json)) e.lineEnd), ("column_end", optJ (fun (i : Int) => (i : Json)) e.colEnd)])
  | "pos_abc_span" =>
    let s : Span := { line := int j "line", col := int j "col", endLine := optInt j "end_line", endCol := optInt j "end_col" }
    let e := abcShorthand s
    some (Json.mkObj [("stored", pairJ (e.line, e.col)),
      ("line_end", optJ (fun (i : Int) => (i : Json)) e.lineEnd), ("column_end", optJ (fun (i : Int) => (i : Json)) e.colEnd)])
  | "pos_tabs_span" =>
    let s : Span := { line := int j "line", col := int j "col", endLine := optInt j "end_line", endCol := optInt j "end_col" }
    let e := expandtabs (toLineField j) s
    some (Json.mkObj [("stored", pairJ (e.line, e.col))])
  | _ => none

end RefurbVerif.Wire
