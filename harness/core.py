"""Shared plumbing for every property check.

Run under /venv/bin/python (has refurb as an editable install of /repo, mypy, hypothesis).

A check run is:  extract -> lake build -> axiom audit -> correspondence -> oracle -> classify.
This module owns everything except the property-specific middle (harness/props/cXX.py).
"""

from __future__ import annotations

import contextlib
import fcntl
import hashlib
import json
import os
import random
import re
import shutil
import subprocess
import sys
import tempfile
import time
from dataclasses import dataclass, field
from pathlib import Path
from typing import Any, Iterable, Iterator

VERIF = Path(__file__).resolve().parent.parent
REPO = Path(os.environ.get("VERIF_REPO", "/repo"))
LEAN = VERIF / "lean"
PY = "/venv/bin/python"
ALLOWED_AXIOMS = {"propext", "Classical.choice", "Quot.sound"}
FORBIDDEN_TOKENS = re.compile(
    r"\b(sorry|admit|native_decide|bv_decide|implemented_by|maxHeartbeats\s+0)\b|^\s*axiom\s|\bunsafe\s",
    re.M,
)

TRUSTED_BASE_COMMON = [
    "Lean 4.33.0 kernel (leanchecker re-checks the .olean files in the thorough tier)",
    "axioms: only those printed by `#print axioms` for each theorem; allowed set {propext, Classical.choice, Quot.sound}",
    "harness/extract.py: the translator that regenerates lean/RefurbVerif/Generated/*.lean from /repo on every run",
    "harness correspondence runner + generators: bound on which inputs the hand-written models were compared with the implementation",
]


def seed() -> int:
    try:
        return int(os.environ.get("VERIF_SEED", "0"))
    except ValueError:
        return 0


def tier_from_env(default: str = "quick") -> str:
    t = os.environ.get("VERIF_TIER", default)
    return t if t in ("quick", "thorough") else default


# --------------------------------------------------------------------------------------------
# scratch space


@contextlib.contextmanager
def scratch(prefix: str = "rv-") -> Iterator[Path]:
    d = Path(tempfile.mkdtemp(prefix=prefix, dir=os.environ.get("VERIF_SCRATCH", "/tmp")))
    try:
        yield d
    finally:
        if not os.environ.get("VERIF_KEEP_SCRATCH"):  # debugging aid
            shutil.rmtree(d, ignore_errors=True)


def write_if_changed(path: Path, content: str) -> bool:
    path.parent.mkdir(parents=True, exist_ok=True)
    if path.exists() and path.read_text() == content:
        return False
    tmp = path.with_suffix(path.suffix + ".tmp%d" % os.getpid())
    tmp.write_text(content)
    os.replace(tmp, path)
    return True


# --------------------------------------------------------------------------------------------
# Lean


@contextlib.contextmanager
def lake_lock() -> Iterator[None]:
    lock = LEAN / ".build.lock"
    with open(lock, "w") as fh:
        fcntl.flock(fh, fcntl.LOCK_EX)
        try:
            yield
        finally:
            fcntl.flock(fh, fcntl.LOCK_UN)


def _clean_env() -> dict[str, str]:
    env = dict(os.environ)
    env.pop("PYTHONPATH", None)
    return env


def py_env() -> dict[str, str]:
    """Environment for a subprocess that imports refurb (honours VERIF_REPO, see refurb_cli)."""
    env = _clean_env()
    env["PYTHONDONTWRITEBYTECODE"] = "1"
    if REPO != Path("/repo"):
        env["PYTHONPATH"] = str(REPO)
    return env


def lake(*args: str, timeout: int = 1800) -> tuple[int, str]:
    p = subprocess.run(
        ["lake", *args], cwd=LEAN, capture_output=True, text=True, timeout=timeout, env=_clean_env()
    )
    return p.returncode, p.stdout + p.stderr


THEOREM_RE = re.compile(r"^(?:private\s+|protected\s+)?theorem\s+([A-Za-z_][\w.']*)", re.M)
NAMESPACE_RE = re.compile(r"^namespace\s+([\w.]+)", re.M)


def props_file(pid: str) -> Path:
    return LEAN / "RefurbVerif" / "Props" / f"{pid}.lean"


def theorems_in(path: Path) -> list[str]:
    """Fully qualified names of the theorems stated in a Props file (single top-level namespace)."""
    text = strip_comments(path.read_text())
    ns = NAMESPACE_RE.search(text)
    pre = ns.group(1) + "." if ns else ""
    return [pre + m.group(1) for m in THEOREM_RE.finditer(text)]


def strip_comments(text: str) -> str:
    out, i, depth = [], 0, 0
    while i < len(text):
        if text.startswith("/-", i):
            depth += 1
            i += 2
        elif depth and text.startswith("-/", i):
            depth -= 1
            i += 2
        elif depth:
            if text[i] == "\n":
                out.append("\n")
            i += 1
        elif text.startswith("--", i):
            while i < len(text) and text[i] != "\n":
                i += 1
        else:
            out.append(text[i])
            i += 1
    return "".join(out)


def forbidden_tokens(paths: Iterable[Path]) -> list[str]:
    hits = []
    for p in paths:
        if not p.exists():
            continue
        body = strip_comments(p.read_text())
        # string literals may legitimately contain these words (e.g. messages); drop them
        body = re.sub(r'"(?:\\.|[^"\\])*"', '""', body)
        for m in FORBIDDEN_TOKENS.finditer(body):
            line = body.count("\n", 0, m.start()) + 1
            hits.append(f"{p.relative_to(VERIF)}:{line}: {m.group(0).strip()}")
    return hits


def lean_sources_for(pid: str) -> list[Path]:
    """Props file + every RefurbVerif module it imports transitively."""
    seen: dict[str, Path] = {}
    todo = [f"RefurbVerif.Props.{pid}"]
    while todo:
        mod = todo.pop()
        if mod in seen:
            continue
        p = LEAN / (mod.replace(".", "/") + ".lean")
        if not p.exists():
            continue
        seen[mod] = p
        for m in re.finditer(r"^import\s+(RefurbVerif[\w.]*)", p.read_text(), re.M):
            todo.append(m.group(1))
    return list(seen.values())


@dataclass
class LeanStatus:
    theorems: list[str] = field(default_factory=list)
    discharged: list[str] = field(default_factory=list)
    broken: list[dict[str, str]] = field(default_factory=list)  # {name, reason}
    axioms: dict[str, list[str]] = field(default_factory=dict)
    build_log: str = ""
    build_ok: bool = False
    driver_ok: bool = False
    forbidden: list[str] = field(default_factory=list)
    build_s: float = 0.0


def build_and_audit(pid: str, need_driver: bool = True) -> LeanStatus:
    """lake build Props.<pid> (+driver), then `#print axioms` for every theorem of the Props file.

    Must be called with the lake lock held (check.py does that around extract+build).
    """
    st = LeanStatus()
    t0 = time.time()
    pf = props_file(pid)
    st.theorems = theorems_in(pf)
    st.forbidden = forbidden_tokens(lean_sources_for(pid))
    rc, log = lake("build", f"RefurbVerif.Props.{pid}")
    st.build_log = log
    st.build_ok = rc == 0
    if need_driver:
        rc2, log2 = lake("build", "driver")
        st.driver_ok = rc2 == 0
        if rc2 != 0:
            st.build_log += "\n--- driver ---\n" + log2
    if st.build_ok:
        audit_src = f"import RefurbVerif.Props.{pid}\n" + "".join(
            f"#print axioms {n}\n" for n in st.theorems
        )
        af = LEAN / ".audit" / f"{pid}.lean"
        af.parent.mkdir(exist_ok=True)
        af.write_text(audit_src)
        p = subprocess.run(
            ["lake", "env", "lean", str(af)], cwd=LEAN, capture_output=True, text=True, env=_clean_env()
        )
        out = p.stdout + p.stderr
        st.axioms = parse_axioms(out)
        for n in st.theorems:
            ax = st.axioms.get(n)
            if ax is None:
                st.broken.append({"name": n, "reason": "no `#print axioms` output (theorem missing?)"})
            elif set(ax) - ALLOWED_AXIOMS:
                st.broken.append(
                    {"name": n, "reason": "depends on axioms outside the allowed set: %s" % sorted(set(ax) - ALLOWED_AXIOMS)}
                )
            else:
                st.discharged.append(n)
    else:
        # Which theorems failed? Attribute each error line of the Props file (or of an imported
        # Lemmas file) to the enclosing theorem.  Everything in a file that failed to build counts
        # as not discharged: lake gives no .olean for it.
        failing = attribute_errors(log, pid)
        if failing:
            # Lean keeps elaborating after an error, so the theorems without an attributed error were
            # accepted; they are still not counted as discharged (no .olean, no axiom audit).
            for n, why in failing.items():
                st.broken.append({"name": n, "reason": why})
        else:
            for n in st.theorems:
                st.broken.append({"name": n, "reason": "module did not build (see build_log)"})
    for hit in st.forbidden:
        st.broken.append({"name": hit, "reason": "forbidden token in proof sources"})
    st.build_s = time.time() - t0
    return st


def parse_axioms(out: str) -> dict[str, list[str]]:
    res: dict[str, list[str]] = {}
    for m in re.finditer(r"'([^']+)' depends on axioms: \[([^\]]*)\]", out, re.S):
        res[m.group(1)] = [a.strip() for a in m.group(2).replace("\n", " ").split(",") if a.strip()]
    for m in re.finditer(r"'([^']+)' does not depend on any axioms", out):
        res[m.group(1)] = []
    return res


def attribute_errors(log: str, pid: str) -> dict[str, str]:
    pf = props_file(pid)
    text = pf.read_text()
    starts = [(text.count("\n", 0, m.start()) + 1, m.group(1)) for m in THEOREM_RE.finditer(text)]
    ns = NAMESPACE_RE.search(text)
    pre = ns.group(1) + "." if ns else ""
    res: dict[str, str] = {}
    for m in re.finditer(r"error: (\S+?\.lean):(\d+):(\d+): (.*)", log):
        f, line, msg = m.group(1), int(m.group(2)), m.group(4)
        if Path(f).name != pf.name:
            continue
        owner = None
        for ln, name in starts:
            if ln <= line:
                owner = name
        if owner:
            res.setdefault(pre + owner, f"{f}:{line}: {msg[:200]}")
    return res


class Driver:
    """Line-protocol client of the compiled Lean model driver (one JSON request per line)."""

    def __init__(self) -> None:
        self.exe = LEAN / ".lake" / "build" / "bin" / "driver"

    def available(self) -> bool:
        return self.exe.exists()

    def batch(self, requests: list[dict[str, Any]], timeout: int = 600) -> list[Any]:
        if not requests:
            return []
        data = "".join(json.dumps(r, ensure_ascii=True) + "\n" for r in requests)
        p = subprocess.run(
            [str(self.exe)], input=data, capture_output=True, text=True, timeout=timeout, env=_clean_env()
        )
        lines = p.stdout.split("\n")
        if lines and lines[-1] == "":
            lines.pop()
        if p.returncode != 0 or len(lines) != len(requests):
            raise RuntimeError(
                f"driver: rc={p.returncode} got {len(lines)} answers for {len(requests)} requests; stderr={p.stderr[:500]}"
            )
        return [json.loads(l) for l in lines]


# --------------------------------------------------------------------------------------------
# running refurb


def refurb_cli(
    args: list[str],
    cwd: Path,
    env_extra: dict[str, str] | None = None,
    timeout: int = 300,
    stdin: str | None = None,
) -> tuple[int, str, str]:
    env = _clean_env()
    env["PYTHONDONTWRITEBYTECODE"] = "1"
    if REPO != Path("/repo"):
        # development aid: run the checks against a scratch worktree of refurb (mutation testing)
        env["PYTHONPATH"] = str(REPO)
    if env_extra:
        env.update(env_extra)
    p = subprocess.run(
        [PY, "-m", "refurb", *args], cwd=cwd, capture_output=True, text=True, timeout=timeout, env=env, input=stdin
    )
    return p.returncode, p.stdout, p.stderr


DIAG_RE = re.compile(r"^(?P<file>.*?):(?P<line>-?\d+):(?P<col>-?\d+) \[(?P<prefix>[A-Z]{3,4})(?P<code>\d+)\]: (?P<msg>.*)$")
HINT = "Run `refurb --explain ERR` to further explain an error. Use `--quiet` to silence this message"


def parse_plain(stdout: str) -> tuple[list[dict[str, Any]], list[str]]:
    """Split refurb's plain output into diagnostics and other lines (hint and blank lines dropped)."""
    diags, other = [], []
    for line in stdout.split("\n"):
        m = DIAG_RE.match(line)
        if m:
            d = m.groupdict()
            d["line"], d["col"], d["code"] = int(d["line"]), int(d["col"]), int(d["code"])
            diags.append(d)
        elif line and line != HINT:
            other.append(line)
    return diags, other


# --------------------------------------------------------------------------------------------
# results, findings, evidence


@dataclass
class Violation:
    what: str  # one line
    signature: dict[str, Any]  # matched against known_findings.json
    replay: dict[str, Any]  # input, observed, required, how to reproduce


@dataclass
class Result:
    pid: str
    tier: str
    evaluations: int = 0
    nontrivial: set[str] = field(default_factory=set)
    rule: str = ""
    samples: list[Any] = field(default_factory=list)
    distribution: dict[str, Any] = field(default_factory=dict)
    disagreements: list[dict[str, Any]] = field(default_factory=list)  # model vs implementation
    violations: list[Violation] = field(default_factory=list)
    exhaustive: bool = False
    notes: list[str] = field(default_factory=list)
    assumptions: list[str] = field(default_factory=list)
    trusted_extra: list[str] = field(default_factory=list)
    not_proved: list[str] = field(default_factory=list)
    extraction_errors: list[str] = field(default_factory=list)

    def case(self, key: Any, nontrivial: bool = True) -> None:
        self.evaluations += 1
        if nontrivial:
            self.nontrivial.add(hashlib.sha1(repr(key).encode()).hexdigest()[:16])

    def sample(self, s: Any, limit: int = 6) -> None:
        if len(self.samples) < limit:
            self.samples.append(s)

    def bump(self, key: str, n: int = 1) -> None:
        self.distribution[key] = self.distribution.get(key, 0) + n

    def disagree(self, where: str, inp: Any, model: Any, impl: Any) -> None:
        if len(self.disagreements) < 50:
            self.disagreements.append({"where": where, "input": inp, "model": model, "impl": impl})

    def violate(self, what: str, signature: dict[str, Any], replay: dict[str, Any]) -> None:
        self.violations.append(Violation(what, signature, replay))


def load_findings() -> list[dict[str, Any]]:
    f = VERIF / "known_findings.json"
    if not f.exists():
        return []
    return json.loads(f.read_text()).get("findings", [])


def finding_matches(entry: dict[str, Any], pid: str, sig: dict[str, Any]) -> bool:
    if entry.get("property") != pid or entry.get("status") != "finding":
        return False
    match = entry.get("match", {})
    for k, v in match.items():
        got = sig.get(k)
        if isinstance(v, list):
            if got not in v:
                return False
        elif isinstance(v, dict) and "regex" in v:
            if not isinstance(got, str) or not re.search(v["regex"], got):
                return False
        elif got != v:
            return False
    return True


def finish(res: Result, lean: LeanStatus | None, t0: float) -> int:
    """Classify, print, write replays + evidence. Returns the exit status."""
    pid = res.pid
    findings = load_findings()
    replay_dir = VERIF / "replays" / pid
    known_lines: dict[str, str] = {}
    new: list[tuple[Violation, Path]] = []
    seen_sig: set[str] = set()
    for v in res.violations:
        entry = next((e for e in findings if finding_matches(e, pid, v.signature)), None)
        if entry:
            known_lines.setdefault(entry["id"], f"KNOWN-FINDING: property={pid} {entry['what']}")
            continue
        key = json.dumps(v.signature, sort_keys=True, default=str)
        if key in seen_sig:
            continue
        seen_sig.add(key)
        h = hashlib.sha1(key.encode()).hexdigest()[:12]
        replay_dir.mkdir(parents=True, exist_ok=True)
        path = replay_dir / f"{h}.json"
        path.write_text(
            json.dumps(
                {"property": pid, "what": v.what, "signature": v.signature, "replay": v.replay, "seed": seed(), "tier": res.tier},
                indent=1,
                default=str,
            )
        )
        new.append((v, path))
    for line in known_lines.values():
        print(line)
    status = 0
    for v, path in new[:20]:
        print(f"VIOLATION property={pid} replay={path.relative_to(VERIF)}")
        print(f"  {v.what}", file=sys.stderr)
        status = 1

    unproved: list[dict[str, Any]] = []
    if lean is not None:
        unproved += [{"kind": "theorem", **b} for b in lean.broken]
    unproved += [{"kind": "correspondence", **d} for d in res.disagreements]
    unproved += [{"kind": "extraction", "reason": e} for e in res.extraction_errors]
    if unproved and status == 0:
        # the property is no longer shown to hold and the search found no concrete failing input
        replay_dir.mkdir(parents=True, exist_ok=True)
        key = json.dumps(unproved, sort_keys=True, default=str)
        path = replay_dir / ("unproved-" + hashlib.sha1(key.encode()).hexdigest()[:12] + ".json")
        path.write_text(
            json.dumps(
                {
                    "property": pid,
                    "what": "proof obligation / correspondence no longer checks; directed search found no failing input",
                    "no_longer_checks": unproved[:40],
                    "build_log_tail": (lean.build_log[-4000:] if lean else ""),
                    "seed": seed(),
                    "tier": res.tier,
                },
                indent=1,
                default=str,
            )
        )
        print(f"VIOLATION property={pid} replay={path.relative_to(VERIF)} no-failing-input-found")
        for u in unproved[:10]:
            print("  no longer checks:", json.dumps(u, default=str)[:400], file=sys.stderr)
        status = 1
    elif unproved:
        for u in unproved[:10]:
            print("  also no longer checks:", json.dumps(u, default=str)[:300], file=sys.stderr)

    # evidence
    n_obl = len(lean.theorems) if lean else 0
    n_dis = len(lean.discharged) if lean else 0
    axioms_seen = sorted({a for ax in (lean.axioms.values() if lean else []) for a in ax})
    cov: dict[str, Any] = {
        "obligations": n_obl,
        "discharged": n_dis,
        "checker_cmd": f"cd lean && lake build RefurbVerif.Props.{pid} && lake env lean .audit/{pid}.lean  # (#print axioms for every theorem)",
        "trusted_base": TRUSTED_BASE_COMMON + [f"axioms actually used by Props/{pid}: {axioms_seen}"] + res.trusted_extra,
        "theorems": (lean.theorems if lean else []),
        "broken_obligations": (lean.broken if lean else []),
        "evaluations": res.evaluations,
        "distinct_nontrivial": len(res.nontrivial),
        "rule": res.rule,
        "samples": res.samples[:8],
        "distribution": res.distribution,
        "correspondence_disagreements": len(res.disagreements),
        "exhaustive": res.exhaustive,
        "known_findings_seen": sorted(known_lines),
        "not_proved": res.not_proved,
        "notes": res.notes,
        "lean_build_s": round(lean.build_s, 1) if lean else None,
    }
    if n_dis == 0 or n_obl == 0:
        # nothing was kernel-checked in this run (module did not build): the proof keys would be
        # misleading, so only the exploration-style counts are reported
        cov.pop("discharged")
        cov.pop("obligations")
        cov["obligations_stated"] = n_obl
        cov["obligations_discharged"] = 0
    ev = {
        "property_id": pid,
        "tier": res.tier,
        "seed": seed(),
        "level": "proof",
        "coverage": cov,
        "assumptions": res.assumptions,
        "wall_s": round(time.time() - t0, 2),
        "violations": len(new) + (1 if (unproved and not new) else 0),
    }
    # mutation testing against a scratch worktree (VERIF_REPO) must never overwrite the evidence of /repo itself
    evd = VERIF / "evidence" if str(REPO) == "/repo" else VERIF / ".cache" / "dev-evidence"
    evd.mkdir(parents=True, exist_ok=True)
    (evd / f"{pid}.json").write_text(json.dumps(ev, indent=1, default=str) + "\n")
    return status


def source_hash(globs: list[str]) -> str:
    """content hash of the named parts of /repo's working tree (a cache key: a result computed from these files
    by execution may be reused as long as none of them changed)"""
    h = hashlib.sha256()
    for g in globs:
        for f in sorted(REPO.glob(g)):
            if f.is_file():
                h.update(str(f.relative_to(REPO)).encode())
                h.update(f.read_bytes())
    return h.hexdigest()[:20]


def cached_json(name: str, globs: list[str], compute: Any) -> Any:
    """memoise `compute()` (JSON-serialisable) on disk, keyed by the content of the given source files"""
    cache = VERIF / ".cache"
    cache.mkdir(exist_ok=True)
    path = cache / f"{name}-{source_hash(globs)}.json"
    if path.exists() and not os.environ.get("VERIF_NO_CACHE"):
        try:
            return json.loads(path.read_text())
        except ValueError:
            pass
    val = compute()
    for old in cache.glob(f"{name}-*.json"):
        old.unlink(missing_ok=True)
    path.write_text(json.dumps(val))
    return val


def rng(tag: str = "") -> random.Random:
    return random.Random(f"{seed()}:{tag}")
