import RefurbVerif.Model.Report
/-! The sort key order of `sort_errors` is a total preorder (needed by `filter_ssort`), and a linear
    order on the key tuples. Core Lean only. -/
namespace RefurbVerif

/-- a linear order given as a Boolean `≤` -/
structure IsLinear {α : Type} (le : α → α → Bool) : Prop where
  total : ∀ a b, le a b = true ∨ le b a = true
  trans : ∀ a b c, le a b = true → le b c = true → le a c = true
  antisymm : ∀ a b, le a b = true → le b a = true → a = b

theorem leNat_linear : IsLinear leNat :=
  ⟨fun a b => by simp [leNat]; omega, fun a b c => by simp [leNat]; omega, fun a b => by simp [leNat]; omega⟩

theorem leInt_linear : IsLinear leInt :=
  ⟨fun a b => by simp [leInt]; omega, fun a b c => by simp [leInt]; omega, fun a b => by simp [leInt]; omega⟩

theorem char_lt_trichotomy (a b : Char) : a < b ∨ a = b ∨ b < a := by
  rcases Nat.lt_trichotomy a.toNat b.toNat with h | h | h
  · exact Or.inl (by simpa [Char.lt_def, UInt32.lt_iff_toNat_lt] using h)
  · exact Or.inr (Or.inl (Char.ext (UInt32.toNat_inj.mp h)))
  · exact Or.inr (Or.inr (by simpa [Char.lt_def, UInt32.lt_iff_toNat_lt] using h))

theorem char_lt_irrefl (a : Char) : ¬ a < a := by
  simp [Char.lt_def]

theorem char_lt_trans {a b c : Char} (h1 : a < b) (h2 : b < c) : a < c := by
  simp only [Char.lt_def, UInt32.lt_iff_toNat_lt] at *; omega

theorem char_lt_asymm {a b : Char} (h1 : a < b) (h2 : b < a) : False := char_lt_irrefl a (char_lt_trans h1 h2)

theorem leChars_linear : IsLinear leChars := by
  refine ⟨?_, ?_, ?_⟩
  · intro a
    induction a with
    | nil => intro b; exact Or.inl (by simp [leChars])
    | cons x xs ih =>
      intro b
      cases b with
      | nil => exact Or.inr (by simp [leChars])
      | cons y ys =>
        rcases char_lt_trichotomy x y with h | h | h
        · exact Or.inl (by simp [leChars, h])
        · subst h
          rcases ih ys with h' | h'
          · exact Or.inl (by simp [leChars, char_lt_irrefl, h'])
          · exact Or.inr (by simp [leChars, char_lt_irrefl, h'])
        · exact Or.inr (by simp [leChars, h])
  · intro a
    induction a with
    | nil => intro b c _ _; simp [leChars]
    | cons x xs ih =>
      intro b c hab hbc
      cases b with
      | nil => simp [leChars] at hab
      | cons y ys =>
        cases c with
        | nil => simp [leChars] at hbc
        | cons z zs =>
          simp only [leChars] at hab hbc ⊢
          by_cases hxy : x < y
          · by_cases hyz : y < z
            · simp [char_lt_trans hxy hyz]
            · by_cases hzy : z < y
              · simp [hyz, hzy] at hbc
              · have : y = z := by rcases char_lt_trichotomy y z with h | h | h <;> simp_all
                subst this; simp [hxy]
          · by_cases hyx : y < x
            · simp [hxy, hyx] at hab
            · have hxy' : x = y := by rcases char_lt_trichotomy x y with h | h | h <;> simp_all
              subst hxy'
              by_cases hxz : x < z
              · simp [hxz]
              · by_cases hzx : z < x
                · simp [hxz, hzx] at hbc
                · simp only [hxz, hzx, ↓reduceIte] at hbc ⊢
                  simp only [hxy, ↓reduceIte] at hab
                  exact ih ys zs hab hbc
  · intro a
    induction a with
    | nil => intro b _ hba; cases b with
      | nil => rfl
      | cons y ys => simp [leChars] at hba
    | cons x xs ih =>
      intro b hab hba
      cases b with
      | nil => simp [leChars] at hab
      | cons y ys =>
        simp only [leChars] at hab hba
        by_cases hxy : x < y
        · by_cases hyx : y < x
          · exact absurd hxy (fun h => char_lt_asymm h hyx)
          · simp [hxy, hyx] at hba
        · by_cases hyx : y < x
          · simp [hxy, hyx] at hab
          · have : x = y := by rcases char_lt_trichotomy x y with h | h | h <;> simp_all
            subst this
            simp only [hxy, ↓reduceIte] at hab hba
            rw [ih ys hab hba]

theorem lexLe_linear {α β : Type} [DecidableEq α] {le₁ : α → α → Bool} {le₂ : β → β → Bool}
    (h₁ : IsLinear le₁) (h₂ : IsLinear le₂) : IsLinear (lexLe le₁ le₂) := by
  refine ⟨?_, ?_, ?_⟩
  · intro a b
    unfold lexLe
    by_cases h : a.1 = b.1
    · simp only [h, ↓reduceIte]; exact h₂.total _ _
    · have h' : ¬ b.1 = a.1 := fun e => h e.symm
      simp only [h, h', ↓reduceIte]; exact h₁.total _ _
  · intro a b c hab hbc
    unfold lexLe at *
    by_cases h1 : a.1 = b.1
    · by_cases h2 : b.1 = c.1
      · have h3 : a.1 = c.1 := h1.trans h2
        rw [if_pos h1] at hab; rw [if_pos h2] at hbc; rw [if_pos h3]
        exact h₂.trans _ _ _ hab hbc
      · have h3 : ¬ a.1 = c.1 := fun e => h2 (h1 ▸ e)
        rw [if_neg h2] at hbc; rw [if_neg h3]
        rw [h1]; exact hbc
    · by_cases h2 : b.1 = c.1
      · have h3 : ¬ a.1 = c.1 := fun e => h1 (e.trans h2.symm)
        rw [if_neg h1] at hab; rw [if_neg h3]
        rw [← h2]; exact hab
      · rw [if_neg h1] at hab; rw [if_neg h2] at hbc
        by_cases h3 : a.1 = c.1
        · exfalso
          rw [h3] at hab
          exact h2 (h₁.antisymm _ _ hbc hab)
        · rw [if_neg h3]
          exact h₁.trans _ _ _ hab hbc
  · intro a b hab hba
    unfold lexLe at *
    by_cases h : a.1 = b.1
    · simp only [h, ↓reduceIte] at hab hba
      exact Prod.ext h (h₂.antisymm _ _ hab hba)
    · have h' : ¬ b.1 = a.1 := fun e => h e.symm
      simp only [h, h', ↓reduceIte] at hab hba
      exact absurd (h₁.antisymm _ _ hab hba) h

theorem leKeyFilename_linear : IsLinear leKeyFilename :=
  lexLe_linear leChars_linear (lexLe_linear leInt_linear (lexLe_linear leInt_linear (lexLe_linear leChars_linear leNat_linear)))

theorem leKeyError_linear : IsLinear leKeyError :=
  lexLe_linear leChars_linear (lexLe_linear leNat_linear (lexLe_linear leChars_linear (lexLe_linear leInt_linear leInt_linear)))

/-- the order `sorted(key=sort_errors)` uses is total ... -/
theorem leItem_total (by_ : SortBy) : ∀ a b, leItem by_ a b = true ∨ leItem by_ b a = true := by
  intro a b
  cases a <;> cases b <;> simp only [leItem] <;> try simp
  · cases by_
    · exact leKeyFilename_linear.total _ _
    · exact leKeyError_linear.total _ _
  · exact leChars_linear.total _ _

/-- ... and transitive -/
theorem leItem_trans (by_ : SortBy) : ∀ a b c, leItem by_ a b = true → leItem by_ b c = true → leItem by_ a c = true := by
  intro a b c hab hbc
  cases a <;> cases b <;> cases c <;> simp only [leItem] at * <;> try simp at *
  · cases by_
    · exact leKeyFilename_linear.trans _ _ _ hab hbc
    · exact leKeyError_linear.trans _ _ _ hab hbc
  · exact leChars_linear.trans _ _ _ hab hbc

end RefurbVerif
